"""Abstract models of the library objects the package talks to (numpy.random generators, scipy.stats
distribution objects), written from their documented interfaces.  They are used as values by the abstract
executor (core/absint.py): calling a method of such an object either returns a *record* of the call (who was
called with which bound arguments) or, for generators driven by a `Script`, a scripted number.

Nothing here imports numpy or scipy.
"""
import hashlib
import math

from .absint import Raised
from .algebra import Undecided, Rat
from .numarr import NumArr


# --------------------------------------------------------------------------- scripted randomness
class Script:
    """deterministic stand-ins for random draws: the value is a fixed pseudo-random function of the distribution
    parameter and of how often that parameter value has been requested (so it does not depend on the order in which
    different parameters are asked for)"""

    def __init__(self, salt=""):
        self.count = {}
        self.log = []          # (generator kind, distribution, parameter, value)
        self.salt = salt       # a different salt is a different random stream

    def _u(self, kind, key):
        n = self.count.get((kind, key), 0)
        self.count[(kind, key)] = n + 1
        h = hashlib.sha256(("%s%s|%s|%d" % (self.salt, kind, key, n)).encode()).digest()
        return (int.from_bytes(h[:6], "big") + 1) / float(2 ** 48 + 2)

    def exp_scale(self, scale, who="reference"):
        u = self._u("exp", "%.9g" % scale)
        v = -math.log(u) * scale
        self.log.append((who, "exponential", scale, v))
        return v

    def pois(self, lam, who="reference"):
        if lam < 0:
            raise Raised("ValueError(lam < 0)")
        if lam == 0:
            self.log.append((who, "poisson", lam, 0))
            return 0
        u = self._u("pois", "%.9g" % lam)
        k, p = 0, math.exp(-lam)
        c = p
        while c < u and k < 10000:
            k += 1
            p = p * lam / k
            c += p
        self.log.append((who, "poisson", lam, k))
        return k


# --------------------------------------------------------------------------- records
class Rec:
    """record of a library call: callee, bound arguments (name -> abstract value), optional trailing index"""
    _abs_native = True

    def __init__(self, callee, args, index=None, owner=None):
        self.callee, self.args, self.index, self.owner = callee, dict(args), index, owner

    def __getitem__(self, k):
        if self.index is not None:
            raise Undecided("double index of a library result")
        return Rec(self.callee, self.args, k, self.owner)

    def key(self):
        def one(v):
            if isinstance(v, Rat):
                return ("rat", v.key())
            if isinstance(v, Rec):
                return v.key()
            return repr(v)
        return (self.callee, tuple(sorted((k, one(v)) for k, v in self.args.items())), self.index, repr(self.owner))

    def same(self, o):
        return isinstance(o, Rec) and self.key() == o.key()

    def __repr__(self):
        s = "%s(%s)" % (self.callee, ", ".join("%s=%r" % kv for kv in sorted(self.args.items())))
        if self.owner is not None:
            s = "%s.%s" % (self.owner, s)
        return s + ("[%r]" % self.index if self.index is not None else "")


class Applied:
    """a numpy function applied to a library record (np.log(st.norm.pdf(...)))"""
    _abs_native = True

    def __init__(self, fn, arg):
        self.fn, self.arg = fn, arg

    def __repr__(self):
        return "%s(%r)" % (self.fn, self.arg)


def bind(sig, pos, kw, callee):
    out = {}
    if len(pos) > len(sig):
        raise Raised("TypeError(%s takes at most %d positional arguments)" % (callee, len(sig)))
    for name, v in zip(sig, pos):
        out[name] = v
    for k, v in kw.items():
        if k in out:
            raise Raised("TypeError(%s got multiple values for %s)" % (callee, k))
        if k not in sig:
            raise Raised("TypeError(%s got an unexpected keyword argument %s)" % (callee, k))
        out[k] = v
    return out


# --------------------------------------------------------------------------- scipy.stats distribution objects
SCIPY_SHAPES = {     # distribution object -> shape parameters after the first argument (then loc[, scale])
    "expon": [], "gamma": ["a"], "norm": [], "chi2": ["df"], "uniform": [], "beta": ["a", "b"],
    "poisson": ["mu"], "binom": ["n", "p"], "nbinom": ["n", "p"], "lognorm": ["s"], "t": ["df"],
}
SCIPY_DISCRETE = {"poisson", "binom", "nbinom"}
SCIPY_METHODS = {"pdf": "x", "logpdf": "x", "pmf": "k", "logpmf": "k", "cdf": "x", "logcdf": "x", "sf": "x", "logsf": "x",
                 "ppf": "q", "isf": "q", "rvs": None, "mean": None, "var": None, "std": None, "_cdf": "x", "_pdf": "x", "_pmf": "k"}


class Dist:
    _abs_native = True

    def __init__(self, prefix, name):
        self.prefix, self.name = prefix, name        # 'st', 'expon'

    def __getattr__(self, m):
        if m.startswith("__") or m not in SCIPY_METHODS:
            raise AttributeError(m)
        shapes = SCIPY_SHAPES.get(self.name)
        if shapes is None:
            raise AttributeError(m)
        tail = ["loc"] if self.name in SCIPY_DISCRETE else ["loc", "scale"]
        first = SCIPY_METHODS[m]
        if m == "rvs":
            sig = shapes + tail + ["size", "random_state"]
        elif first is None:
            sig = shapes + tail
        else:
            sig = ["<arg>"] + shapes + tail
        callee = "%s.%s.%s" % (self.prefix, self.name, m)

        def call(*pos, **kw):
            return Rec(callee, bind(sig, pos, kw, callee))
        return call

    def __call__(self, *pos, **kw):
        """st.gamma(a, scale=...): a frozen distribution - its methods are the family's methods with these parameters bound"""
        shapes = SCIPY_SHAPES.get(self.name)
        tail = ["loc"] if self.name in SCIPY_DISCRETE else ["loc", "scale"]
        callee = "%s.%s" % (self.prefix, self.name)
        return Frozen(self, bind(shapes + tail, pos, kw, callee))

    def __repr__(self):
        return "%s.%s" % (self.prefix, self.name)


class Frozen:
    _abs_native = True

    def __init__(self, dist, params):
        self.dist, self.params = dist, dict(params)

    def __getattr__(self, m):
        if m.startswith("__") or m not in SCIPY_METHODS:
            raise AttributeError(m)
        first = SCIPY_METHODS[m]
        callee = "%s.%s.%s" % (self.dist.prefix, self.dist.name, m)
        sig = ["size", "random_state"] if m == "rvs" else ([] if first is None else ["<arg>"])

        def call(*pos, **kw):
            own = bind(sig, pos, kw, callee)
            clash = set(own) & set(self.params)
            if clash:
                raise TypeError("%s got multiple values for %s" % (callee, sorted(clash)))
            merged = dict(self.params)
            merged.update(own)
            return Rec(callee, merged)          # the same record as the unfrozen call with all parameters spelt out
        return call

    def __repr__(self):
        return "%r(frozen %s)" % (self.dist, sorted(self.params))


class StatsModule:
    _abs_native = True

    def __init__(self, prefix="st"):
        self.prefix = prefix

    def __getattr__(self, name):
        if name in SCIPY_SHAPES:
            return Dist(self.prefix, name)
        raise AttributeError(name)


# --------------------------------------------------------------------------- numpy.random generators
NP_SAMPLERS = {
    "exponential": ["scale", "size"], "gamma": ["shape", "scale", "size"], "normal": ["loc", "scale", "size"],
    "chisquare": ["df", "size"], "uniform": ["low", "high", "size"], "beta": ["a", "b", "size"],
    "poisson": ["lam", "size"], "binomial": ["n", "p", "size"], "negative_binomial": ["n", "p", "size"],
    "standard_normal": ["size"], "random": ["size"], "rand": None, "randn": None, "multivariate_normal": ["mean", "cov", "size"],
    "random_sample": ["size"], "lognormal": ["mean", "sigma", "size"], "choice": ["a", "size", "replace", "p"],
}


class Gen:
    """a numpy generator: kind = 'global' (the np.random module functions), ('seeded', s), 'fresh' (RandomState() seeded from
    the OS), 'copy-of-global'.  With a Script the exponential / Poisson samplers return scripted numbers, otherwise records."""
    _abs_native = True

    def __init__(self, kind, script=None, registry=None):
        self.kind, self.script = kind, script
        self.registry = registry if registry is not None else []     # every draw: (generator kind, sampler)

    def __repr__(self):
        return "np.random" if self.kind == "global" else "RandomState(%s)" % (self.kind[1] if isinstance(self.kind, tuple) else self.kind)

    def _sized(self, fn, size):
        if size is None:
            return fn()
        if isinstance(size, float) and size == int(size):
            size = int(size)
        if isinstance(size, bool) or not isinstance(size, int):
            raise Undecided("size=%r" % (size,))
        return NumArr([fn() for _ in range(size)])

    def __getattr__(self, name):
        if name.startswith("__"):
            raise AttributeError(name)
        if name in NP_SAMPLERS:
            sig = NP_SAMPLERS[name]
            callee = "%s.%s" % ("np.random" if self.kind == "global" else "RandomState", name)

            def draw(*pos, **kw):
                self.registry.append((self.kind, name))
                if self.script is not None:
                    b = bind(sig, pos, kw, callee) if sig is not None else {}
                    who = repr(self)
                    if name == "exponential":
                        sc = b.get("scale", 1.0)
                        if isinstance(sc, NumArr):
                            return NumArr([self.script.exp_scale(s, who) for s in sc])
                        return self._sized(lambda: self.script.exp_scale(sc, who), b.get("size"))
                    if name == "poisson":
                        lam = b.get("lam", 1.0)
                        if isinstance(lam, NumArr):
                            return NumArr([self.script.pois(l, who) for l in lam])
                        return self._sized(lambda: self.script.pois(lam, who), b.get("size"))
                    raise Undecided("scripted draws from %s are not modelled" % callee)
                if sig is None:
                    return Rec(callee, {"args": tuple(pos)}, owner=self.kind if self.kind != "global" else None)
                return Rec(name, bind(sig, pos, kw, callee), owner=repr(self))
            return draw
        if name == "RandomState" and self.kind == "global":
            def make(seed=None):
                return Gen("fresh" if seed is None else ("seeded", seed), self.script, self.registry)
            make._abs_type = "np.random.RandomState"      # the class itself, when it is bound to a local name and used in isinstance
            return make
        if name in ("default_rng", "Generator", "PCG64", "SeedSequence", "MT19937") and self.kind == "global":
            def make2(*a, **k):
                return Gen(("local", name) + tuple(a), self.script, self.registry)
            return make2
        if name == "seed" and self.kind == "global":
            def reseed(s=None):
                self.registry.append(("global", "seed(%r)" % (s,)))
                return None
            return reseed
        if name == "get_state":
            return lambda *a, **k: ("state-of", self.kind)
        if name == "set_state":
            def set_state(st):
                if isinstance(st, tuple) and st and st[0] == "state-of":
                    self.kind = "copy-of-%s" % (st[1] if isinstance(st[1], str) else repr(st[1]))
                return None
            return set_state
        raise AttributeError(name)


def is_randomstate(v):
    return isinstance(v, Gen) and v.kind != "global"
