"""E3 - reaching definitions over the CFG of one function, plus the two queries the
rules are written against:

  expand(expr, at)     inline single-assignment temporaries (a must-fact: the
                       temporary has exactly one reaching definition and the names
                       it was computed from are not redefined in between), so that
                       a rule sees `magnitude*rate` whether or not it was first
                       stored in `rate_of_change`;
  roots(expr, at)      may-provenance: every parameter / attribute / call /
                       constant the value can derive from, through assignments,
                       tuple unpacking, loop targets and augmented assignments.
"""
import ast
import copy

from .cfg import cfg_of
from .source import norm, dotted, walk_no_nested


class Def:
    __slots__ = ("idx", "name", "node", "kind", "value", "slot", "stmt")

    def __init__(self, idx, name, node, kind, value=None, slot=(), stmt=None):
        self.idx = idx
        self.name = name
        self.node = node      # CFG node
        self.kind = kind      # param assign aug for with except import mutate def
        self.value = value    # ast expr (RHS / iterable / context expr)
        self.slot = slot      # path of tuple indices into value ( () = whole )
        self.stmt = stmt

    def __repr__(self):
        return "<Def %s %s %s%s>" % (self.name, self.kind, norm(self.value)[:40], list(self.slot) or "")


def _targets(t, slot=()):
    """yield (name-or-None, target ast, slot) for an assignment target"""
    if isinstance(t, ast.Name):
        yield t.id, t, slot
    elif isinstance(t, (ast.Tuple, ast.List)):
        for i, e in enumerate(t.elts):
            if isinstance(e, ast.Starred):
                yield from _targets(e.value, slot + ("*",))
            else:
                yield from _targets(e, slot + (i,))
    elif isinstance(t, (ast.Subscript, ast.Attribute)):
        # weak update of the base object
        base = t
        while isinstance(base, (ast.Subscript, ast.Attribute)):
            base = base.value
        if isinstance(base, ast.Name):
            yield None, t, slot


def _slot_value(value, slot):
    """project a tuple literal through a slot path where possible"""
    v = value
    rest = list(slot)
    while rest and isinstance(v, (ast.Tuple, ast.List)) and isinstance(rest[0], int) and rest[0] < len(v.elts):
        v = v.elts[rest.pop(0)]
    return v, tuple(rest)


class DataFlow:
    def __init__(self, funcinfo):
        self.f = funcinfo
        self.cfg = cfg_of(funcinfo)
        self.defs = []
        self.node_defs = {}     # cfg node id -> [Def]
        self._collect()
        self._solve()

    # -------------------------------------------------------------- collection
    def _add(self, name, node, kind, value=None, slot=(), stmt=None):
        d = Def(len(self.defs), name, node, kind, value, slot, stmt)
        self.defs.append(d)
        self.node_defs.setdefault(node.id, []).append(d)
        return d

    def _collect(self):
        a = self.f.node.args
        for arg in a.posonlyargs + a.args + a.kwonlyargs + ([a.vararg] if a.vararg else []) + ([a.kwarg] if a.kwarg else []):
            self._add(arg.arg, self.cfg.entry, "param")
        for n in self.cfg.nodes:
            st = n.ast
            if n.kind == "handler":
                if st.name:
                    self._add(st.name, n, "except", st.type)
                continue
            if n.kind == "iter":
                for name, tgt, slot in _targets(st.target):
                    if name:
                        self._add(name, n, "for", st.iter, slot, st)
                continue
            if n.kind != "stmt":
                continue
            if isinstance(st, ast.Assign):
                for t in st.targets:
                    for name, tgt, slot in _targets(t):
                        if name:
                            v, rest = _slot_value(st.value, slot)
                            self._add(name, n, "assign", v, rest, st)
                        else:
                            base = tgt
                            while isinstance(base, (ast.Subscript, ast.Attribute)):
                                base = base.value
                            self._add(base.id, n, "mutate", st.value, (), st)
            elif isinstance(st, ast.AnnAssign) and st.value is not None:
                for name, tgt, slot in _targets(st.target):
                    if name:
                        self._add(name, n, "assign", st.value, slot, st)
            elif isinstance(st, ast.AugAssign):
                for name, tgt, slot in _targets(st.target):
                    if name and isinstance(st.op, ast.Add) and isinstance(st.value, ast.List) and st.value.elts:
                        # x += [a, b]  is list growth, like x.append(a); x.append(b)
                        for el in st.value.elts:
                            self._add(name, n, "append", el, (), st)
                    elif name:
                        self._add(name, n, "aug", st.value, (), st)
                    else:
                        base = tgt
                        while isinstance(base, (ast.Subscript, ast.Attribute)):
                            base = base.value
                        self._add(base.id, n, "mutate", st.value, (), st)
            elif isinstance(st, (ast.With, ast.AsyncWith)):
                for it in st.items:
                    if it.optional_vars is not None:
                        for name, tgt, slot in _targets(it.optional_vars):
                            if name:
                                self._add(name, n, "with", it.context_expr, slot, st)
            elif isinstance(st, (ast.Import, ast.ImportFrom)):
                for al in st.names:
                    self._add((al.asname or al.name).split(".")[0], n, "import", None, (), st)
            elif isinstance(st, (ast.FunctionDef, ast.AsyncFunctionDef, ast.ClassDef)):
                self._add(st.name, n, "def", None, (), st)
            elif isinstance(st, ast.Expr) and isinstance(st.value, ast.Call) and isinstance(st.value.func, ast.Attribute) \
                    and isinstance(st.value.func.value, ast.Name) and st.value.func.attr in ("append", "extend", "insert", "add"):
                # list growth: a weak update whose value is the element appended
                c = st.value
                if c.args:
                    self._add(c.func.value.id, n, "append", c.args[-1], (), st)
            # walrus
            for sub in self.node_exprs(n):
                for w in ast.walk(sub):
                    if isinstance(w, ast.NamedExpr) and isinstance(w.target, ast.Name):
                        self._add(w.target.id, n, "assign", w.value, (), st)

    def node_exprs(self, n):
        """the expressions evaluated *at* CFG node n"""
        st = n.ast
        if st is None:
            return []
        if n.kind == "test":
            return [st.test] if hasattr(st, "test") else [st.subject]
        if n.kind == "iter":
            return [st.iter]
        if n.kind == "handler":
            return [st.type] if st.type is not None else []
        if isinstance(st, (ast.With, ast.AsyncWith)):
            return [it.context_expr for it in st.items]
        if isinstance(st, (ast.FunctionDef, ast.AsyncFunctionDef, ast.ClassDef)):
            return list(st.decorator_list)
        return [st]

    # ------------------------------------------------------------------ solver
    def _solve(self):
        kills = {}
        for d in self.defs:
            kills.setdefault(d.name, set()).add(d.idx)
        gen, kill = {}, {}
        for n in self.cfg.nodes:
            g, k = set(), set()
            for d in self.node_defs.get(n.id, []):
                if d.kind in ("mutate", "append"):
                    g.add(d.idx)          # weak update: does not kill
                else:
                    k |= kills[d.name]
                    g = {x for x in g if self.defs[x].name != d.name}
                    g.add(d.idx)
            gen[n.id], kill[n.id] = g, k - g
        IN = {n.id: set() for n in self.cfg.nodes}
        OUT = {n.id: set(gen[n.id]) for n in self.cfg.nodes}
        work = list(self.cfg.nodes)
        while work:
            n = work.pop()
            i = set()
            for p in n.pred:
                i |= OUT[p.id]
            o = gen[n.id] | (i - kill[n.id])
            IN[n.id] = i
            if o != OUT[n.id]:
                OUT[n.id] = o
                work.extend(n.succ)
        self.IN, self.OUT = IN, OUT

    # ----------------------------------------------------------------- queries
    def reaching(self, node, name, after=False):
        s = (self.OUT if after else self.IN)[node.id]
        return [self.defs[i] for i in sorted(s) if self.defs[i].name == name]

    def strong_defs(self, node, name, after=False):
        return [d for d in self.reaching(node, name, after) if d.kind not in ("mutate", "append")]

    def single_def(self, node, name, after=False):
        ds = self.strong_defs(node, name, after)
        return ds[0] if len(ds) == 1 else None

    def is_local(self, name):
        return any(d.name == name for d in self.defs)

    def node_containing(self, expr_or_stmt):
        """CFG node whose evaluated expressions contain the given ast node"""
        target = id(expr_or_stmt)
        n = self.cfg.by_ast.get(target)
        if n is not None:
            return n
        for n in self.cfg.nodes:
            for e in self.node_exprs(n):
                for sub in ast.walk(e):
                    if id(sub) == target:
                        return n
        return None

    def _stable(self, d, at):
        """names the definition d was computed from have, at `at`, the same reaching
        definitions they had where d was made (so inlining d's value is sound)"""
        if d.value is None:
            return False
        for nm in {x.id for x in ast.walk(d.value) if isinstance(x, ast.Name)}:
            if not self.is_local(nm):
                continue
            a = {x.idx for x in self.reaching(d.node, nm)}
            b = {x.idx for x in self.reaching(at, nm)}
            if a != b:
                return False
        return True

    def expand(self, expr, at, depth=6, keep=()):
        """copy of expr with single-assignment temporaries inlined (see module doc).
        Names in `keep` are left alone."""
        if depth <= 0:
            return expr
        df = self

        class T(ast.NodeTransformer):
            def _bound(self, node):
                b = set()
                for g in node.generators:
                    for nm, _t, _s in _targets(g.target):
                        if nm:
                            b.add(nm)
                return b

            def visit_ListComp(self, node):
                return self._comp(node)

            visit_SetComp = visit_GeneratorExp = visit_DictComp = visit_ListComp

            def _comp(self, node):
                bound = self._bound(node)
                saved = self.shadow
                self.shadow = self.shadow | bound
                out = self.generic_visit(node)
                self.shadow = saved
                return out

            def visit_Lambda(self, node):
                bound = {a.arg for a in node.args.args}
                saved = self.shadow
                self.shadow = self.shadow | bound
                out = self.generic_visit(node)
                self.shadow = saved
                return out

            def visit_Name(self, node):
                if not isinstance(node.ctx, ast.Load) or node.id in self.shadow or node.id in keep:
                    return node
                d = df.single_def(at, node.id)
                if d is None or d.kind != "assign" or d.slot or d.value is None:
                    if d is not None and d.kind == "assign" and d.slot and d.value is not None \
                            and all(isinstance(s, int) for s in d.slot) and df._stable(d, at) \
                            and not df.reaching_mutations(at, node.id):
                        v = df.expand(d.value, d.node, depth - 1, keep)
                        for s in d.slot:
                            v = ast.Subscript(value=v, slice=ast.Constant(s), ctx=ast.Load())
                        return ast.copy_location(v, node)
                    return node
                if df.reaching_mutations(at, node.id):
                    return node
                if not df._stable(d, at):
                    return node
                if isinstance(d.value, (ast.ListComp, ast.GeneratorExp, ast.Lambda, ast.Dict, ast.List)) and False:
                    return node
                return ast.copy_location(df.expand(copy.deepcopy(d.value), d.node, depth - 1, keep), node)

        t = T()
        t.shadow = set()
        return t.visit(copy.deepcopy(expr))

    def reaching_mutations(self, at, name):
        return [d for d in self.reaching(at, name) if d.kind in ("mutate", "append")]

    def roots(self, expr, at, depth=8, _seen=None):
        """may-provenance of expr evaluated at CFG node `at`:
        set of tuples ('param', name) ('attr', 'self.x.y') ('call', dotted, id(node))
        ('const', repr) ('global', name) ('for', name, norm(iter), slot)"""
        out = set()
        seen = _seen if _seen is not None else set()
        if expr is None:
            return out

        def visit(e, bound):
            if isinstance(e, ast.Constant):
                out.add(("const", repr(e.value)))
                return
            if isinstance(e, ast.Name):
                if e.id in bound:
                    return
                ds = self.reaching(at, e.id)
                if not ds:
                    out.add(("global", e.id))
                    return
                for d in ds:
                    key = (d.idx,)
                    if key in seen:
                        continue
                    seen.add(key)
                    if d.kind == "param":
                        out.add(("param", d.name))
                    elif d.kind == "for":
                        out.add(("for", d.name, norm(d.value), d.slot))
                        if depth > 0:
                            out.update(self.roots(d.value, d.node, depth - 1, seen))
                    elif d.kind in ("assign", "aug", "mutate", "with", "append"):
                        if depth > 0:
                            out.update(self.roots(d.value, d.node, depth - 1, seen))
                        if d.kind == "aug":
                            pass
                    else:
                        out.add(("global", d.name))
                return
            if isinstance(e, ast.Attribute):
                dn = dotted(e)
                if dn:
                    out.add(("attr", dn))
                    base = dn.split(".")[0]
                    if base != "self":
                        visit(ast.Name(id=base, ctx=ast.Load()), bound)
                    return
                visit(e.value, bound)
                return
            if isinstance(e, ast.Call):
                dn = dotted(e.func)
                out.add(("call", dn or norm(e.func), id(e)))
                if dn is None:
                    visit(e.func, bound)
                elif isinstance(e.func, ast.Attribute):
                    visit(e.func.value, bound)
                for a in e.args:
                    visit(a.value if isinstance(a, ast.Starred) else a, bound)
                for k in e.keywords:
                    visit(k.value, bound)
                return
            if isinstance(e, (ast.ListComp, ast.SetComp, ast.GeneratorExp, ast.DictComp)):
                b = set(bound)
                for g in e.generators:
                    visit(g.iter, b)
                    for nm, _t, _s in _targets(g.target):
                        if nm:
                            b.add(nm)
                    for c in g.ifs:
                        visit(c, b)
                if isinstance(e, ast.DictComp):
                    visit(e.key, b)
                    visit(e.value, b)
                else:
                    visit(e.elt, b)
                return
            if isinstance(e, ast.Lambda):
                visit(e.body, bound | {a.arg for a in e.args.args})
                return
            for c in ast.iter_child_nodes(e):
                if isinstance(c, ast.expr):
                    visit(c, bound)
                elif isinstance(c, (ast.keyword,)):
                    visit(c.value, bound)
                elif isinstance(c, ast.Slice):
                    for p in (c.lower, c.upper, c.step):
                        if p is not None:
                            visit(p, bound)

        visit(expr, frozenset())
        return out

    def derives_from_call(self, expr, at, callee_pred):
        """some root of expr is a call whose dotted name satisfies callee_pred"""
        return any(r[0] == "call" and callee_pred(r[1]) for r in self.roots(expr, at))


def dataflow_of(funcinfo):
    _cache = funcinfo.module.__dict__.setdefault("_dataflow_cache", {})
    key = id(funcinfo.node)
    d = _cache.get(key)
    if d is None or d.f.node is not funcinfo.node:
        d = DataFlow(funcinfo)
        _cache[key] = d
    return d


def calls_in(node, nested=False):
    it = ast.walk(node) if nested else walk_no_nested(node)
    return [n for n in it if isinstance(n, ast.Call)]
