"""Symbolic n-d arrays for the layout part of E5: elements are canonical rational
functions (algebra.Rat) over named atoms, shapes are small concrete integers.  The
numpy / scipy routines the repository uses for (un)vectorising and block assembly are
re-implemented here from their documented semantics (reshape in C / Fortran order,
flatten, transpose, dot, kron, append, bmat, block_diag, basic and list indexing,
broadcasting of element-wise arithmetic), so that a repository function can be
interpreted over arrays of symbols and its result compared entry by entry with the
documented layout.  Nothing from numpy is imported."""
import itertools
from fractions import Fraction

from . import algebra as A


def _prod(t):
    r = 1
    for x in t:
        r *= x
    return r


def _lift(x):
    if isinstance(x, A.Rat):
        return x
    if isinstance(x, bool):
        return A.Rat.const(int(x))
    if isinstance(x, (int, float, Fraction)):
        return A.lift(x)
    raise A.Undecided("array element %r" % (x,))


class _ViewList:
    """the elements of a view in its own C order, read from and written through to the storage of the array it is a view of"""
    __slots__ = ("store", "index")

    def __init__(self, store, index):
        self.store, self.index = store, index

    def __len__(self):
        return len(self.index)

    def __iter__(self):
        st = self.store
        return iter([st[i] for i in self.index])

    def __getitem__(self, k):
        if isinstance(k, slice):
            return [self.store[i] for i in self.index[k]]
        return self.store[self.index[k]]

    def __setitem__(self, k, v):
        if isinstance(k, slice):
            for i, x in zip(self.index[k], v):
                self.store[i] = x
        else:
            self.store[self.index[k]] = v

    def __eq__(self, o):
        return list(self) == list(o)


def _nocopy_reshape(old_shape, old_strides, new_shape, fortran):
    """numpy's rule for when a reshape can be a view (port of _attempt_nocopy_reshape): new strides or None"""
    olddims = [d for d in old_shape if d != 1]
    oldstrides = [s_ for d, s_ in zip(old_shape, old_strides) if d != 1]
    oldnd, newnd = len(olddims), len(new_shape)
    newstrides = [0] * newnd
    oi, oj, ni, nj = 0, 1, 0, 1
    while ni < newnd and oi < oldnd:
        np_, op = new_shape[ni], olddims[oi]
        while np_ != op:
            if np_ < op:
                np_ *= new_shape[nj]
                nj += 1
            else:
                op *= olddims[oj]
                oj += 1
        for ok in range(oi, oj - 1):
            if fortran:
                if oldstrides[ok + 1] != olddims[ok] * oldstrides[ok]:
                    return None
            else:
                if oldstrides[ok] != olddims[ok + 1] * oldstrides[ok + 1]:
                    return None
        if fortran:
            newstrides[ni] = oldstrides[oi]
            for nk in range(ni + 1, nj):
                newstrides[nk] = newstrides[nk - 1] * new_shape[nk - 1]
        else:
            newstrides[nj - 1] = oldstrides[oj - 1]
            for nk in range(nj - 1, ni, -1):
                newstrides[nk - 1] = newstrides[nk] * new_shape[nk]
        ni, nj = nj, nj + 1
        oi, oj = oj, oj + 1
    last = newstrides[ni - 1] if ni >= 1 else 1
    if fortran and ni >= 1:
        last *= new_shape[ni - 1]
    for nk in range(ni, newnd):
        newstrides[nk] = last
    return newstrides


def _int_cast(x):
    """what numpy stores when a value is written into an integer-typed array: whole numbers as they are, anything else truncated
    (a symbolic value becomes an opaque `int(...)` of itself, which no longer equals the value)"""
    x = _lift(x)
    if x.is_const():
        c = list(x.num.values())[0] if x.num else Fraction(0)
        return x if Fraction(c).denominator == 1 and x.den == A.ONE else A.Rat.const(int(Fraction(c)))
    return A.sym("int(%r)" % (x,))


class SymArr:
    _abs_native = True
    int_typed = False      # True for arrays the caller built from whole numbers: *_like allocations inherit it, stores into them are cast

    def __init__(self, shape, flat, boolean=False):
        self.shape = tuple(int(s) for s in shape)
        self.boolean = boolean        # an array allocated with dtype=bool keeps python booleans (usable as a mask)
        self.flat = [bool(x) for x in flat] if boolean else [_lift(x) for x in flat]
        self._lay = None              # (offset, strides) into the shared storage when this array is a view
        if len(self.flat) != _prod(self.shape):
            raise A.Undecided("shape %s does not hold %d elements" % (self.shape, len(self.flat)))

    # ------------------------------------------------------------------- views
    def _layout(self):
        """(storage list, offset, strides in elements): own storage in C order unless this is a view"""
        if self._lay is not None:
            return self.flat.store, self._lay[0], list(self._lay[1])
        return self.flat, 0, self._strides()

    @staticmethod
    def _view(shape, store, offset, strides, boolean=False):
        """an array that shares `store`: element idx lives at offset + sum(idx*strides) - what numpy calls a view"""
        out = SymArr.__new__(SymArr)
        out.shape = tuple(int(s_) for s_ in shape)
        out.boolean = boolean
        index = [offset + sum(i * s_ for i, s_ in zip(idx, strides)) for idx in itertools.product(*[range(n) for n in out.shape])]
        out.flat = _ViewList(store, index)
        out._lay = (offset, tuple(strides))
        return out

    # ------------------------------------------------------------ construction
    @staticmethod
    def symbols(name, shape):
        shape = tuple(shape)
        flat = [A.sym("%s[%s]" % (name, ",".join(map(str, idx)))) for idx in itertools.product(*[range(s) for s in shape])]
        return SymArr(shape, flat)

    @staticmethod
    def zeros(shape):
        shape = (shape,) if isinstance(shape, int) else tuple(shape)
        return SymArr(shape, [0] * _prod(shape))

    @staticmethod
    def ones(shape):
        shape = (shape,) if isinstance(shape, int) else tuple(shape)
        return SymArr(shape, [1] * _prod(shape))

    @staticmethod
    def eye(n):
        return SymArr((n, n), [1 if i == j else 0 for i in range(n) for j in range(n)])

    @staticmethod
    def of(x):
        """nested lists / scalars / SymArr -> SymArr"""
        if isinstance(x, SymArr):
            return x
        if isinstance(x, (list, tuple)):
            if not x:
                return SymArr((0,), [])
            subs = [SymArr.of(e) for e in x]
            sh = subs[0].shape
            if any(s.shape != sh for s in subs):
                raise A.Undecided("ragged array")
            return SymArr((len(subs),) + sh, [e for s in subs for e in s.flat])
        return SymArr((), [x])

    # ----------------------------------------------------------------- helpers
    @property
    def ndim(self):
        return len(self.shape)

    @property
    def size(self):
        return len(self.flat)

    def _strides(self):
        st, acc = [], 1
        for s in reversed(self.shape):
            st.append(acc)
            acc *= s
        return list(reversed(st))

    def at(self, idx):
        st = self._strides()
        return self.flat[sum(i * s for i, s in zip(idx, st))]

    def indices(self, order="C"):
        ranges = [range(s) for s in self.shape]
        if order == "C":
            return list(itertools.product(*ranges))
        return [tuple(reversed(t)) for t in itertools.product(*reversed(ranges))]

    def __bool__(self):
        """numpy: only an array with exactly one element has a truth value"""
        if self.size != 1:
            if self.size == 0:
                return False
            raise ValueError("The truth value of an array with more than one element is ambiguous. Use a.any() or a.all()")
        v = self.flat[0] if not hasattr(self, "_layout") else list(self.flat)[0]
        if isinstance(v, bool):
            return v
        return _const(v, "the truth value") != 0

    def any(self, axis=None):
        if axis is not None:
            raise A.Undecided("any along an axis")
        return any((v if isinstance(v, bool) else _const(v, "the truth value") != 0) for v in self.flat)

    def all(self, axis=None):
        if axis is not None:
            raise A.Undecided("all along an axis")
        return all((v if isinstance(v, bool) else _const(v, "the truth value") != 0) for v in self.flat)

    def __len__(self):
        if not self.shape:
            raise A.Undecided("len of a 0-d array")
        return self.shape[0]

    def __iter__(self):
        for i in range(len(self)):
            yield self[i]

    def tolist(self):
        if self.ndim == 0:
            return self.flat[0]
        if self.ndim == 1:
            return list(self.flat)
        return [self[i].tolist() for i in range(self.shape[0])]

    def copy(self):
        return SymArr(self.shape, list(self.flat), self.boolean)

    def astype(self, *_a, **_k):
        return self.copy()

    # ----------------------------------------------------------------- shaping
    def reshape(self, *shape, order="C"):
        if len(shape) == 1 and isinstance(shape[0], (tuple, list)):
            shape = tuple(shape[0])
        shape = tuple(int(s) for s in shape)
        if -1 in shape:
            known = _prod([s for s in shape if s != -1])
            shape = tuple(self.size // known if s == -1 else s for s in shape)
        if _prod(shape) != self.size:
            raise ValueError("cannot reshape array of size %d into shape %s" % (self.size, shape))      # numpy's own error: an exception of the analysed program
        if order in ("C", "c", None):
            fortran = False
        elif order in ("F", "f"):
            fortran = True
        else:
            raise A.Undecided("reshape order %r" % (order,))
        # numpy returns a view whenever the new shape can be expressed with strides over the same memory, a copy otherwise
        if self.size > 0:
            store, off, strides = self._layout()
            ns = _nocopy_reshape(self.shape, strides, shape, fortran)
            if ns is not None:
                return SymArr._view(shape, store, off, ns, self.boolean)
        if not fortran:
            return SymArr(shape, list(self.flat), self.boolean)
        src = [self.at(i) for i in self.indices("F")]
        out = SymArr(shape, [0] * self.size)
        st = out._strides()
        for val, idx in zip(src, out.indices("F")):
            out.flat[sum(i * s for i, s in zip(idx, st))] = val
        return out

    def flatten(self, order="C"):
        if order in ("F", "f"):
            return SymArr((self.size,), [self.at(i) for i in self.indices("F")])
        return SymArr((self.size,), list(self.flat))

    def ravel(self, order="C"):
        return self.reshape((self.size,), order=order if order in ("C", "c", "F", "f") else "C")

    def transpose(self, *axes):
        if self.ndim < 2:
            return self
        if axes and isinstance(axes[0], (tuple, list)):
            axes = tuple(axes[0])
        axes = tuple(axes) if axes else tuple(reversed(range(self.ndim)))
        store, off, strides = self._layout()
        return SymArr._view(tuple(self.shape[a] for a in axes), store, off, [strides[a] for a in axes], self.boolean)

    @property
    def T(self):
        return self.transpose()

    # numpy's augmented assignments update the array in place: every alias / view of the same storage sees the change
    def _inplace(self, r):
        if not isinstance(r, SymArr):
            r = SymArr.of(r)
        if tuple(r.shape) != tuple(self.shape):
            raise ValueError("non-broadcastable output operand with shape %s doesn't match the broadcast shape %s" % (tuple(self.shape), tuple(r.shape)))
        if self.ndim == 0:
            raise A.Undecided("in-place update of a 0-d array")
        self[tuple(slice(None) for _ in self.shape)] = r
        return self

    def __iadd__(self, o):
        return self._inplace(self + o)

    def __isub__(self, o):
        return self._inplace(self - o)

    def __imul__(self, o):
        return self._inplace(self * o)

    def __itruediv__(self, o):
        return self._inplace(self / o)

    def fill(self, v):
        if self.ndim == 0:
            raise A.Undecided("fill of a 0-d array")
        self[tuple(slice(None) for _ in self.shape)] = SymArr(self.shape, [v] * self.size)
        return None

    def swapaxes(self, i, j):
        n = self.ndim
        if not all(isinstance(a, int) and not isinstance(a, bool) and -n <= a < n for a in (i, j)):
            raise ValueError("axis out of bounds for array of dimension %d" % n)
        ax = list(range(n))
        ax[i % n], ax[j % n] = ax[j % n], ax[i % n]
        return self.transpose(*ax) if n >= 2 else self

    # ---------------------------------------------------------------- indexing
    def _no_ellipsis(self, key):
        """`...` stands for as many full slices as it takes to index every axis"""
        kt = key if isinstance(key, tuple) else (key,)
        n_e = sum(1 for k in kt if k is Ellipsis)
        if not n_e:
            return key
        if n_e > 1:
            raise IndexError("an index can only have a single ellipsis ('...')")
        used = sum(1 for k in kt if k is not Ellipsis and k is not None)
        if used > self.ndim:
            raise IndexError("too many indices for array")
        i = [j for j, k in enumerate(kt) if k is Ellipsis][0]
        return tuple(kt[:i]) + (slice(None),) * (self.ndim - used) + tuple(kt[i + 1:])

    def __getitem__(self, key):
        key = self._no_ellipsis(key)
        kt = key if isinstance(key, tuple) else (key,)
        if any(k is None for k in kt):
            # np.newaxis: index without the None entries, then insert axes of length one
            base = self._getitem(tuple(k for k in kt if k is not None)) if any(k is not None for k in kt) else self
            if not isinstance(base, SymArr):
                base = SymArr((), [base]) if False else SymArr((1,), [base]).reshape(())  # pragma: no cover
            shape, ax, src = [], 0, list(base.shape)
            kept = 0
            for k in kt:
                if k is None:
                    shape.append(1)
                elif isinstance(k, int) and not isinstance(k, bool):
                    continue
                else:
                    shape.append(src[kept])
                    kept += 1
            shape += src[kept:]
            return SymArr(tuple(shape), list(base.flat))
        return self._getitem(key)

    def _resolve(self, key):
        """numpy's indexing rule: -> (shape of the result, source index of every result element in C order).
        Integers drop their axis, slices keep it; index arrays / lists are broadcast against each other (a[[0, 1], [0, 1]] picks
        the pairs, np.ix_ gives the outer grid) and their common shape stands where the first of them stood when they are
        adjacent, in front otherwise; a boolean vector selects along its axis"""
        if isinstance(key, SymArr) and key.ndim == self.ndim > 1 and key.size and all(isinstance(v, bool) for v in key.flat):
            if tuple(key.shape) != tuple(self.shape):
                raise IndexError("boolean index did not match indexed array")
            hits = [idx for idx in itertools.product(*[range(n) for n in self.shape]) if key.at(idx)]
            key = tuple([h[ax] for h in hits] for ax in range(self.ndim))
            if not hits:
                return (0,), []
        if not isinstance(key, tuple):
            key = (key,)
        key = list(key) + [slice(None)] * (self.ndim - len(key))
        if len(key) != self.ndim:
            raise IndexError("too many indices for array: array is %d-dimensional, but %d were indexed" % (self.ndim, len(key)))
        kinds = []
        for k, n in zip(key, self.shape):
            if isinstance(k, slice):
                kinds.append(("slice", list(range(n))[k]))
            elif isinstance(k, SymArr) or isinstance(k, (list, tuple, range)):
                raw = None if isinstance(k, SymArr) else list(k)
                if raw is not None and raw and all(isinstance(v, bool) for v in raw):
                    arr, vals = SymArr((len(raw),), [0] * len(raw)), raw
                else:
                    arr = k if isinstance(k, SymArr) else SymArr.of(raw) if len(raw) else SymArr((0,), [])
                    vals = list(arr.flat)
                if vals and all(isinstance(v, bool) for v in vals):
                    if arr.ndim != 1:
                        raise A.Undecided("boolean index with %d axes" % arr.ndim)
                    if len(vals) != n:
                        raise IndexError("boolean index did not match indexed array along axis; size of axis is %d but size of boolean index is %d" % (n, len(vals)))
                    hits = [i for i, b_ in enumerate(vals) if b_]
                    kinds.append(("fancy", (len(hits),), hits))
                else:
                    kinds.append(("fancy", tuple(arr.shape), [_as_int(v, n) for v in vals]))
            else:
                kinds.append(("int", _as_int(k, n)))
        fancy = [i for i, kd in enumerate(kinds) if kd[0] == "fancy"]
        if not fancy:
            shape = tuple(len(kd[1]) for kd in kinds if kd[0] == "slice")
            src = [tuple(t) for t in itertools.product(*[(kd[1] if kd[0] == "slice" else [kd[1]]) for kd in kinds])]
            return shape, src
        bshape = ()
        for i in fancy:
            bshape = _bshape(bshape, kinds[i][1]) if bshape != () or kinds[i][1] == () else kinds[i][1]
        adv = [i for i, kd in enumerate(kinds) if kd[0] in ("fancy", "int")]
        adjacent = adv == list(range(adv[0], adv[-1] + 1))
        bidx = list(itertools.product(*[range(n_) for n_ in bshape]))

        def fancy_at(i, bi):
            shp, vals = kinds[i][1], kinds[i][2]
            # broadcast position of bi in the index array of axis i
            pad = len(bshape) - len(shp)
            pos, mul = 0, 1
            for ax in reversed(range(len(shp))):
                j = bi[ax + pad] if shp[ax] != 1 else 0
                pos += j * mul
                mul *= shp[ax]
            return vals[pos]
        slices = [i for i, kd in enumerate(kinds) if kd[0] == "slice"]
        if adjacent:
            before = [i for i in slices if i < adv[0]]
            after = [i for i in slices if i > adv[-1]]
        else:
            before, after = [], slices
        shape = tuple(len(kinds[i][1]) for i in before) + tuple(bshape) + tuple(len(kinds[i][1]) for i in after)
        src = []
        for pre in itertools.product(*[kinds[i][1] for i in before]):
            for bi in bidx:
                for post in itertools.product(*[kinds[i][1] for i in after]):
                    idx = [None] * self.ndim
                    for i, v in zip(before, pre):
                        idx[i] = v
                    for i, v in zip(after, post):
                        idx[i] = v
                    for i in adv:
                        idx[i] = kinds[i][1] if kinds[i][0] == "int" else fancy_at(i, bi)
                    src.append(tuple(idx))
        return shape, src

    def _getitem(self, key):
        kt = key if isinstance(key, tuple) else (key,)
        if all(isinstance(k, slice) or (isinstance(k, int) and not isinstance(k, bool)) for k in kt) and any(isinstance(k, slice) for k in list(kt) + [slice(None)] * (self.ndim - len(kt))) \
                and len(kt) <= self.ndim:
            # basic indexing: a view (numpy)
            kt = list(kt) + [slice(None)] * (self.ndim - len(kt))
            store, off, strides = self._layout()
            shape, nstr = [], []
            for k, n_, st_ in zip(kt, self.shape, strides):
                if isinstance(k, slice):
                    start, stop, step = k.indices(n_)
                    shape.append(len(range(start, stop, step)))
                    nstr.append(st_ * step)
                    off += start * st_
                else:
                    off += _as_int(k, n_) * st_
            return SymArr._view(shape, store, off, nstr, self.boolean)
        shape, src = self._resolve(key)
        flat = [self.at(idx) for idx in src]
        if not shape:
            return flat[0]
        out = SymArr(shape, flat)
        if getattr(self, "int_typed", False):
            out.int_typed = True
        return out

    def __setitem__(self, key, value):
        key = self._no_ellipsis(key)
        shape, src = self._resolve(key)
        st = self._strides()
        v = value if isinstance(value, SymArr) else (SymArr.of(value) if isinstance(value, (list, tuple)) else None)
        if v is not None and v.shape != shape:
            v = _broadcast_to(v, shape)
        for n, idx in enumerate(src):
            if self.boolean:
                self.flat[sum(i * s for i, s in zip(idx, st))] = bool(v.flat[n] if v is not None else value)
            else:
                x = v.flat[n] if v is not None else _lift(value)
                if getattr(self, "int_typed", False):
                    x = _int_cast(x)
                self.flat[sum(i * s for i, s in zip(idx, st))] = x

    # -------------------------------------------------------------- arithmetic
    def _bin(self, o, fn):
        if isinstance(o, SymArr):
            shape = _bshape(self.shape, o.shape)
            a, b = _broadcast_to(self, shape), _broadcast_to(o, shape)
            return SymArr(shape, [fn(x, y) for x, y in zip(a.flat, b.flat)])
        if isinstance(o, (list, tuple)):
            return self._bin(SymArr.of(o), fn)
        o = _lift(o)
        return SymArr(self.shape, [fn(x, o) for x in self.flat])

    def __add__(self, o):
        return self._bin(o, lambda x, y: x + y)

    __radd__ = __add__

    def __sub__(self, o):
        return self._bin(o, lambda x, y: x - y)

    def __rsub__(self, o):
        return self._bin(o, lambda x, y: y - x)

    def __mul__(self, o):
        return self._bin(o, lambda x, y: x * y)

    __rmul__ = __mul__

    def __mod__(self, o):
        def mod(x, y):
            a_, b_ = _const(x, "a remainder"), _const(y, "a remainder")
            if b_ == 0:
                raise A.Undecided("remainder by zero")
            return A.Rat.const(a_ % b_)
        return self._bin(o, mod)

    def __truediv__(self, o):
        return self._bin(o, lambda x, y: x / y)

    def __rtruediv__(self, o):
        return self._bin(o, lambda x, y: y / x)

    def __neg__(self):
        return SymArr(self.shape, [-x for x in self.flat])

    def __pow__(self, n):
        return SymArr(self.shape, [x ** n for x in self.flat])

    def dot(self, o):
        return dot(self, o)

    def sum(self, axis=None):
        if axis is None:
            t = A.Rat.const(0)
            for x in self.flat:
                t = t + x
            return t
        if isinstance(axis, bool) or not isinstance(axis, int) or not -self.ndim <= axis < self.ndim:
            raise ValueError("axis %r is out of bounds for array of dimension %d" % (axis, self.ndim))
        axis = axis % self.ndim
        shape = tuple(s for k, s in enumerate(self.shape) if k != axis)
        if not shape:
            return self.sum()
        acc = {}
        for idx in itertools.product(*[range(s) for s in self.shape]):
            j = tuple(v for k, v in enumerate(idx) if k != axis)
            acc[j] = acc.get(j, A.Rat.const(0)) + self.at(idx)
        return SymArr(shape, [acc.get(j, A.Rat.const(0)) for j in itertools.product(*[range(s) for s in shape])])

    def compare(self, o, opname):
        """element-wise ==, !=, <, <=, >, >= with numpy's broadcasting -> boolean array.  Entries that are numbers are compared as
        numbers; two structurally identical expressions are equal; anything else about a symbolic entry is not decided"""
        import operator as _op
        fn = {"Eq": _op.eq, "NotEq": _op.ne, "Lt": _op.lt, "LtE": _op.le, "Gt": _op.gt, "GtE": _op.ge}[opname]

        def one(x, y):
            if isinstance(x, bool) or isinstance(y, bool):
                return fn(x, y) if isinstance(x, bool) and isinstance(y, bool) else fn(float(x) if isinstance(x, bool) else _const(x, "a comparison"), float(y) if isinstance(y, bool) else _const(y, "a comparison"))
            xr, yr = A.lift(x), A.lift(y)
            if opname in ("Eq", "NotEq") and xr == yr:
                return opname == "Eq"
            return fn(_const(xr, "a comparison"), _const(yr, "a comparison"))
        if isinstance(o, (list, tuple)):
            o = SymArr.of(o)
        if isinstance(o, SymArr):
            shape = _bshape(self.shape, o.shape)
            a, b = _broadcast_to(self, shape), _broadcast_to(o, shape)
            return SymArr(shape, [one(x, y) for x, y in zip(a.flat, b.flat)], boolean=True)
        return SymArr(self.shape, [one(x, o) for x in self.flat], boolean=True)

    def mean(self, axis=None, **k):
        return _sym_mean(self, axis, **k)

    def same(self, o):
        return isinstance(o, SymArr) and self.shape == o.shape and all(x == y for x, y in zip(self.flat, o.flat))

    def __repr__(self):
        return "SymArr%s%s" % (self.shape, self.flat if self.size <= 6 else "[...]")


def _const(v, what):
    """the numeric value of an entry, or Undecided: order / membership / magnitude of a symbolic entry is not defined"""
    if isinstance(v, bool):
        return v
    r = A.lift(v)
    c = r.const_value()
    if c is None:
        raise A.Undecided("%s of a symbolic value" % what)
    return c


def _as_int(v, n):
    if isinstance(v, A.Rat):
        c = v.const_value()
        if c is None or c.denominator != 1:
            raise A.Undecided("symbolic array index")
        v = int(c)
    if isinstance(v, bool) or not isinstance(v, int):
        if isinstance(v, float) and v == int(v):
            v = int(v)
        else:
            raise A.Undecided("array index %r" % (v,))
    if v < 0:
        v += n
    if not 0 <= v < n:
        raise IndexError("index %d out of range for axis of size %d" % (v, n))
    return v


def _bshape(a, b):
    out = []
    for x, y in itertools.zip_longest(reversed(a), reversed(b), fillvalue=1):
        if x == y or y == 1:
            out.append(x)
        elif x == 1:
            out.append(y)
        else:
            raise A.Undecided("shapes %s and %s do not broadcast" % (a, b))
    return tuple(reversed(out))


def _broadcast_to(a, shape):
    if a.shape == shape:
        return a
    shape = tuple(shape)
    if len(shape) < a.ndim:
        raise ValueError("input operand has more dimensions than allowed by the axis remapping")
    pad = (1,) * (len(shape) - a.ndim) + tuple(a.shape)
    if any(p != 1 and p != s_ for p, s_ in zip(pad, shape)):
        raise ValueError("operands could not be broadcast together with remapped shapes [original->remapped]: %s and requested shape %s" % (tuple(a.shape), shape))
    flat = []
    for idx in itertools.product(*[range(s) for s in shape]):
        src = [0 if p == 1 else i for i, p in zip(idx, pad)]
        flat.append(a.at(src[len(shape) - a.ndim:]) if a.ndim else a.flat[0])
    return SymArr(shape, flat)


def dot(a, b):
    a, b = SymArr.of(a), SymArr.of(b)
    if a.ndim == 0 or b.ndim == 0:
        return a * b
    if a.ndim == 1 and b.ndim == 1:
        if a.shape != b.shape:
            raise A.Undecided("dot of %s and %s" % (a.shape, b.shape))
        t = A.Rat.const(0)
        for x, y in zip(a.flat, b.flat):
            t = t + x * y
        return t
    if a.ndim == 1:
        return dot(a.reshape(1, a.size), b).reshape(b.shape[1])
    if b.ndim == 1:
        return dot(a, b.reshape(b.size, 1)).reshape(a.shape[0])
    if a.ndim != 2 or b.ndim != 2 or a.shape[1] != b.shape[0]:
        raise A.Undecided("dot of %s and %s" % (a.shape, b.shape))
    n, k, m = a.shape[0], a.shape[1], b.shape[1]
    flat = []
    for i in range(n):
        for j in range(m):
            t = A.Rat.const(0)
            for l in range(k):
                t = t + a.flat[i * k + l] * b.flat[l * m + j]
            flat.append(t)
    return SymArr((n, m), flat)


def _as2d(a):
    a = SymArr.of(a)
    if a.ndim == 1:
        return a.reshape(1, a.size)
    if a.ndim == 0:
        return a.reshape(1, 1)
    return a


def kron(a, b):
    a, b = _as2d(a), _as2d(b)
    n, m = a.shape
    p, q = b.shape
    out = SymArr.zeros((n * p, m * q))
    for i in range(n):
        for j in range(m):
            for k in range(p):
                for l in range(q):
                    out.flat[(i * p + k) * (m * q) + (j * q + l)] = a.flat[i * m + j] * b.flat[k * q + l]
    return out


def append(a, b):
    a, b = SymArr.of(a), SymArr.of(b)
    return SymArr((a.size + b.size,), list(a.flat) + list(b.flat))


def insert(a, idx, values, axis=None):
    a = SymArr.of(a)
    if axis is not None or a.ndim != 1 or isinstance(idx, bool) or not isinstance(idx, int):
        raise A.Undecided("np.insert outside the modelled subset (1-d array, integer position)")
    vals = list(SymArr.of(values).flat) if isinstance(values, (list, tuple, SymArr)) else [values]
    k = idx + a.size if idx < 0 else idx
    if not 0 <= k <= a.size:
        raise IndexError("index %d is out of bounds for axis 0 with size %d" % (idx, a.size))
    flat = list(a.flat)
    out = SymArr((a.size + len(vals),), flat[:k] + ([_int_cast(v) for v in vals] if getattr(a, "int_typed", False) else vals) + flat[k:])
    if getattr(a, "int_typed", False):
        out.int_typed = True            # np.insert keeps the dtype of the array it inserts into and casts the inserted values
    return out


def bmat(blocks):
    rows = []
    for brow in blocks:
        br = [_as2d(x) for x in brow]
        h = br[0].shape[0]
        if any(x.shape[0] != h for x in br):
            raise A.Undecided("bmat: blocks of one row have different heights %s" % [x.shape for x in br])
        for i in range(h):
            line = []
            for x in br:
                line += x.flat[i * x.shape[1]:(i + 1) * x.shape[1]]
            rows.append(line)
    w = len(rows[0])
    if any(len(r) != w for r in rows):
        raise A.Undecided("bmat: block rows have different widths")
    return SymArr((len(rows), w), [e for r in rows for e in r])


def block(blocks):
    """numpy.block for 2-d blocks: a list of lists is assembled like bmat, a flat list is joined along the last axis"""
    if isinstance(blocks, (list, tuple)) and blocks and all(isinstance(b, (list, tuple)) for b in blocks):
        for brow in blocks:
            for x in brow:
                if isinstance(x, SymArr) and x.ndim != 2:
                    raise A.Undecided("np.block with blocks that are not 2-d")
        return bmat(blocks)
    if isinstance(blocks, (list, tuple)) and blocks and all(isinstance(b, SymArr) and b.ndim == 2 for b in blocks):
        return bmat([list(blocks)])
    raise A.Undecided("form of np.block")


def block_diag(*mats):
    ms = [_as2d(m) for m in mats]
    H = sum(m.shape[0] for m in ms)
    W = sum(m.shape[1] for m in ms)
    out = SymArr.zeros((H, W))
    r = c = 0
    for m in ms:
        for i in range(m.shape[0]):
            for j in range(m.shape[1]):
                out.flat[(r + i) * W + (c + j)] = m.flat[i * m.shape[1] + j]
        r += m.shape[0]
        c += m.shape[1]
    return out


def _ones_like(a, dtype=None):
    out = SymArr.ones(SymArr.of(a).shape)
    if dtype is None and getattr(a, "int_typed", False):
        out.int_typed = True
    return out


def _sym_full(shape, fill_value, dtype=None, order="C"):
    sh = (shape,) if isinstance(shape, int) else tuple(shape)
    out = SymArr(sh, [fill_value] * _prod(sh))
    if dtype is None and isinstance(fill_value, int) and not isinstance(fill_value, bool):
        out.int_typed = True            # numpy: np.full(shape, 1) is an integer array
    return out


def _sym_ix(*seqs):
    """np.ix_: index vectors shaped so that they broadcast to the outer grid"""
    out = []
    for i, q in enumerate(seqs):
        vals = list(q.flat) if isinstance(q, SymArr) else list(q)
        if isinstance(q, SymArr) and q.ndim != 1:
            raise ValueError("Cross index must be 1 dimensional")
        shape = tuple(len(vals) if j == i else 1 for j in range(len(seqs)))
        out.append(SymArr(shape, vals))
    return tuple(out)


def _truth(v):
    return v if isinstance(v, bool) else _const(v, "the truth value") != 0


def _sym_uf2(f):
    def g(a, b, out=None):
        aa = a if isinstance(a, SymArr) else SymArr.of(a)
        r = f(aa, b if not isinstance(b, (list, tuple)) else SymArr.of(b))
        if out is None:
            return r
        if not isinstance(out, SymArr) or not isinstance(r, SymArr) or tuple(out.shape) != tuple(r.shape):
            raise ValueError("non-broadcastable output operand")
        out[tuple(slice(None) for _ in out.shape)] = r
        return out
    return g


def _sym_where(cond, x=None, y=None):
    if (x is None) != (y is None):
        raise ValueError("either both or neither of x and y should be given")
    c = cond if isinstance(cond, SymArr) else SymArr.of(cond) if isinstance(cond, (list, tuple)) else None
    if x is None:
        if c is None:
            raise A.Undecided("np.where of a scalar")
        hits = [idx for idx in itertools.product(*[range(n) for n in c.shape]) if _truth(c.at(idx))]
        return tuple(SymArr((len(hits),), [h[ax] for h in hits]) for ax in range(c.ndim))
    if c is None:
        return x if _truth(cond) else y
    xa = x if isinstance(x, SymArr) else SymArr.of(x) if isinstance(x, (list, tuple)) else None
    ya = y if isinstance(y, SymArr) else SymArr.of(y) if isinstance(y, (list, tuple)) else None
    shape = tuple(c.shape)
    for other in (xa, ya):
        if other is not None:
            shape = _bshape(shape, other.shape)
    cb = _broadcast_to(c, shape)
    xb = _broadcast_to(xa, shape).flat if xa is not None else [x] * _prod(shape)
    yb = _broadcast_to(ya, shape).flat if ya is not None else [y] * _prod(shape)
    return SymArr(shape, [a_ if _truth(t) else b_ for t, a_, b_ in zip(cb.flat, xb, yb)])


def _sym_full_like(a, fill_value, dtype=None, order="K", subok=True, shape=None):
    a = a if isinstance(a, SymArr) else SymArr.of(a)
    sh = tuple(a.shape) if shape is None else ((shape,) if isinstance(shape, int) else tuple(shape))
    name = None if dtype is None else (dtype if isinstance(dtype, str) else getattr(dtype, "__name__", str(dtype)))
    as_int = getattr(a, "int_typed", False) if name is None else ("int" in str(name))
    out = SymArr(sh, [(_int_cast(fill_value) if as_int else fill_value)] * _prod(sh))
    out.int_typed = as_int
    return out


def _sym_stack3(seq, axis):
    arrs = [x if isinstance(x, SymArr) else SymArr.of(x) for x in seq]
    if not arrs or len({tuple(x.shape) for x in arrs}) != 1:
        raise ValueError("all input arrays must have the same shape")
    sh = tuple(arrs[0].shape)
    shape = sh[:axis] + (len(arrs),) + sh[axis:]
    flat = []
    for idx in itertools.product(*[range(n) for n in shape]):
        src = idx[:axis] + idx[axis + 1:]
        flat.append(arrs[idx[axis]].at(src) if src else arrs[idx[axis]].flat[0])
    return SymArr(shape, flat)


def _sym_dstack(seq):
    arrs = [x if isinstance(x, SymArr) else SymArr.of(x) for x in seq]
    arrs = [x.reshape((1, x.shape[0])) if x.ndim == 1 else x for x in arrs]
    if any(x.ndim != 2 for x in arrs):
        raise A.Undecided("np.dstack of arrays with %s axes" % sorted({x.ndim for x in arrs}))
    return _sym_stack3(arrs, 2)


def _sym_mean(a, axis=None, dtype=None, out=None, keepdims=False):
    if dtype is not None or keepdims:
        raise A.Undecided("np.mean with dtype / keepdims")
    if isinstance(a, (list, tuple)) and a and isinstance(a[0], SymArr):
        a = _sym_stack3(a, 0)
    a = a if isinstance(a, SymArr) else SymArr.of(a)
    n = a.size if axis is None else a.shape[axis % a.ndim if isinstance(axis, int) and -a.ndim <= axis < a.ndim else _bad_axis(axis, a.ndim)]
    if n == 0:
        raise A.Undecided("mean of an empty array")
    tot = a.sum(axis)
    r = tot / n
    if out is None:
        return r
    if not isinstance(out, SymArr) or not isinstance(r, SymArr) or tuple(out.shape) != tuple(r.shape):
        raise ValueError("output parameter has the wrong shape")
    out[tuple(slice(None) for _ in out.shape)] = r          # written into the given array: whoever else holds it sees the mean
    return out


def _bad_axis(axis, ndim):
    raise ValueError("axis %r is out of bounds for array of dimension %d" % (axis, ndim))


def _sym_empty(shape, dtype=None, order="C"):
    """np.empty: whatever is not written afterwards is garbage - a symbol of its own, so that it shows if it reaches a result"""
    sh = (shape,) if isinstance(shape, int) else tuple(shape)
    return SymArr(sh, [A.sym("<uninitialised memory>")] * _prod(sh))


def _sym_take(a, indices, axis=None, out=None, mode="raise"):
    if out is not None or mode != "raise":
        raise A.Undecided("np.take with out= / mode=")
    a = a if isinstance(a, SymArr) else SymArr.of(a)
    idx = [int(_as_int(x, 10 ** 9)) if not isinstance(x, int) else x for x in (indices.flat if isinstance(indices, SymArr) else indices)] \
        if isinstance(indices, (SymArr, list, tuple, range)) else indices
    if axis is None:
        return a.ravel()[idx] if a.ndim > 1 else a[idx]
    if not isinstance(axis, int) or isinstance(axis, bool) or not -a.ndim <= axis < a.ndim:
        raise ValueError("axis %r is out of bounds for array of dimension %d" % (axis, a.ndim))
    axis %= a.ndim
    key = tuple([slice(None)] * axis + [idx])
    return a[key if len(key) > 1 else key[0]]


def _sym_ndindex(*shape):
    import itertools
    if len(shape) == 1 and isinstance(shape[0], (tuple, list)):
        shape = tuple(shape[0])
    if not all(isinstance(n, int) and not isinstance(n, bool) and n >= 0 for n in shape):
        raise A.Undecided("np.ndindex%r" % (shape,))
    return [tuple(t) for t in itertools.product(*[range(n) for n in shape])]


def np_summaries():
    """numpy / scipy names -> implementations over SymArr, for core.absint"""
    def reshape(a, shape, order="C"):
        return SymArr.of(a).reshape(shape, order=order)

    def _dt(args, kw):
        dt = kw.get("dtype", args[0] if args else None)
        if dt is None:
            return None
        name = dt if isinstance(dt, str) else (dt[1] if isinstance(dt, tuple) and len(dt) == 2 and isinstance(dt[1], str) else getattr(dt, "__name__", str(dt)))
        return "int" if "int" in str(name) else "float" if "float" in str(name) or "double" in str(name) else "bool" if "bool" in str(name) else "other"

    def _all_python_ints(x):
        if isinstance(x, SymArr):
            return getattr(x, "int_typed", False)
        if isinstance(x, (list, tuple)):
            return bool(x) and all(_all_python_ints(v) for v in x)
        return isinstance(x, int) and not isinstance(x, bool)

    def _typed(out, src, dt):
        """dtype of np.array(src, dtype): integers in -> an integer array (stores are cast), unless a real dtype is asked for"""
        if dt == "int" and not _all_python_ints(src):
            out = SymArr(out.shape, [_int_cast(v) for v in out.flat])
        out.int_typed = (dt == "int") or (dt is None and _all_python_ints(src))
        return out

    def array(a, *args, **kw):
        if set(kw) - {"dtype", "copy", "order", "ndmin", "subok"}:
            raise A.Undecided("np.array with %s" % sorted(kw))
        dt = _dt(args, kw)
        if dt in ("bool", "other"):
            raise A.Undecided("np.array with dtype %r" % (kw.get("dtype", args[0] if args else None),))
        return _typed(SymArr.of(a).copy(), a, dt)

    def asarray(a, *args, **kw):
        dt = _dt(args, kw)
        if isinstance(a, SymArr) and (dt is None or (dt == "int") == bool(getattr(a, "int_typed", False))):
            return a                    # already an array of that dtype: the very same object, no copy
        return array(a, *args, **kw)

    def zeros(shape, *a, **k):
        dt = k.get("dtype", a[0] if a else None)
        if dt is bool or (isinstance(dt, tuple) and "bool" in str(dt)) or dt == "bool":
            sh = (shape,) if isinstance(shape, int) else tuple(shape)
            return SymArr(sh, [False] * _prod(sh), boolean=True)
        return SymArr.zeros(shape)

    def tensordot(a, b, axes=2):
        a, b = SymArr.of(a), SymArr.of(b)
        if isinstance(axes, int):
            ax_a, ax_b = list(range(a.ndim - axes, a.ndim)), list(range(axes))
        else:
            ax_a, ax_b = axes
            ax_a = [ax_a] if isinstance(ax_a, int) else list(ax_a)
            ax_b = [ax_b] if isinstance(ax_b, int) else list(ax_b)
        ax_a = [x % a.ndim for x in ax_a]
        ax_b = [x % b.ndim for x in ax_b]
        if [a.shape[i] for i in ax_a] != [b.shape[i] for i in ax_b]:
            raise ValueError("shape-mismatch for sum")
        free_a = [i for i in range(a.ndim) if i not in ax_a]
        free_b = [i for i in range(b.ndim) if i not in ax_b]
        shape = tuple(a.shape[i] for i in free_a) + tuple(b.shape[i] for i in free_b)
        csh = [a.shape[i] for i in ax_a]
        flat = []
        for fa in itertools.product(*[range(a.shape[i]) for i in free_a]):
            for fb in itertools.product(*[range(b.shape[i]) for i in free_b]):
                tot = A.Rat.const(0)
                for c in itertools.product(*[range(x) for x in csh]):
                    ia = [0] * a.ndim
                    ib = [0] * b.ndim
                    for i, v in zip(free_a, fa):
                        ia[i] = v
                    for i, v in zip(ax_a, c):
                        ia[i] = v
                    for i, v in zip(free_b, fb):
                        ib[i] = v
                    for i, v in zip(ax_b, c):
                        ib[i] = v
                    tot = tot + a.at(tuple(ia)) * b.at(tuple(ib))
                flat.append(tot)
        if not shape:
            return flat[0]
        return SymArr(shape, flat)

    def einsum(subscripts, *ops, **k):
        """numpy.einsum for explicit and implicit output subscripts (no ellipsis): the sum over all indices that do not appear in the output"""
        if not isinstance(subscripts, str) or "." in subscripts:
            raise A.Undecided("einsum form %r" % (subscripts,))
        spec = subscripts.replace(" ", "")
        ins, out = spec.split("->") if "->" in spec else (spec, None)
        terms = ins.split(",")
        arrs = [SymArr.of(o) for o in ops]
        if len(terms) != len(arrs):
            raise ValueError("more operands provided to einstein sum function than specified in the subscripts string")
        size = {}
        for t, a in zip(terms, arrs):
            if len(t) != a.ndim:
                raise ValueError("einstein sum subscripts string contains too many subscripts for operand")
            for ch, n_ in zip(t, a.shape):
                if size.setdefault(ch, n_) != n_:
                    raise ValueError("operands could not be broadcast together with remapped shapes")
        if out is None:
            allc = "".join(terms)
            out = "".join(sorted(c for c in set(allc) if allc.count(c) == 1))
        summed = [c for c in size if c not in out]
        flat = []
        for oi in itertools.product(*[range(size[c]) for c in out]):
            env = dict(zip(out, oi))
            tot = A.Rat.const(0)
            for si in itertools.product(*[range(size[c]) for c in summed]):
                env.update(zip(summed, si))
                term = A.Rat.const(1)
                for t, a in zip(terms, arrs):
                    term = term * a.at(tuple(env[c] for c in t))
                tot = tot + term
            flat.append(tot)
        if not out:
            return flat[0]
        return SymArr(tuple(size[c] for c in out), flat)

    def sort(a, axis=-1, kind=None, order=None):
        a = SymArr.of(a)
        if kind is not None or order is not None:
            raise A.Undecided("np.sort with kind / order")
        if a.ndim == 1:
            return SymArr(a.shape, sorted(a.flat, key=lambda v: _const(v, "the order")))
        if a.ndim == 2 and axis in (-1, 1):
            return SymArr(a.shape, [x for i in range(a.shape[0]) for x in sorted([a.at((i, j)) for j in range(a.shape[1])], key=lambda v: _const(v, "the order"))])
        raise A.Undecided("np.sort of a %d-d array along axis %r" % (a.ndim, axis))

    def absval(x):
        c = _const(x, "the absolute value")
        return A.lift(x) if c >= 0 else -A.lift(x)

    def isin(a, b):
        pool = [_const(y, "membership") for y in (SymArr.of(b).flat if isinstance(b, (SymArr, list, tuple, range)) else [b])]
        if not isinstance(a, (SymArr, list, tuple, range)):
            return _const(a, "membership") in pool
        a = SymArr.of(a)
        return SymArr(a.shape, [_const(x, "membership") in pool for x in a.flat], boolean=True)

    def stack(seq, axis=0):
        arrs = [SymArr.of(x) for x in seq]
        if not arrs:
            raise ValueError("need at least one array to stack")
        if len({tuple(x.shape) for x in arrs}) != 1:
            raise ValueError("all input arrays must have the same shape")
        sh = tuple(arrs[0].shape)
        nd = len(sh) + 1
        if not isinstance(axis, int) or not -nd <= axis < nd:
            raise ValueError("axis %r is out of bounds for array of dimension %d" % (axis, nd))
        axis %= nd
        shape = sh[:axis] + (len(arrs),) + sh[axis:]
        flat = []
        for idx in itertools.product(*[range(n_) for n_ in shape]):
            k = idx[axis]
            src = idx[:axis] + idx[axis + 1:]
            flat.append(arrs[k].at(src) if src else arrs[k].flat[0])
        return SymArr(shape, flat)
    def repeat(a, n, axis=None):
        a = SymArr.of(a)
        if axis is None:
            return SymArr((a.size * n,), [x for x in a.flat for _ in range(n)])
        axis = axis % a.ndim
        shape = tuple(s * n if k == axis else s for k, s in enumerate(a.shape))
        out = SymArr.zeros(shape)
        for idx in itertools.product(*[range(x) for x in shape]):
            src = tuple(v // n if k == axis else v for k, v in enumerate(idx))
            out[idx] = a.at(src)
        return out

    def tile(a, reps):
        a = SymArr.of(a)
        reps = (reps,) if isinstance(reps, int) else tuple(reps)
        if a.ndim < len(reps):
            a = a.reshape((1,) * (len(reps) - a.ndim) + a.shape)
        reps = (1,) * (a.ndim - len(reps)) + reps
        shape = tuple(s * r for s, r in zip(a.shape, reps))
        out = SymArr.zeros(shape)
        for idx in itertools.product(*[range(x) for x in shape]):
            out[idx] = a.at(tuple(v % s for v, s in zip(idx, a.shape)))
        return out

    def concatenate(seq, axis=0):
        arrs = [SymArr.of(x) for x in seq]
        if arrs[0].ndim == 1:
            return SymArr((sum(x.size for x in arrs),), [e for x in arrs for e in x.flat])
        if axis == 0:
            return bmat([[x] for x in arrs])
        return bmat([arrs])

    def empty_like(a, dtype=None, shape=None, **k):
        out = SymArr.zeros(shape if shape is not None else SymArr.of(a).shape)
        if dtype is None and getattr(a, "int_typed", False):
            out.int_typed = True          # numpy: the new array has the dtype of the prototype
        elif dtype is not None and "int" in (dtype if isinstance(dtype, str) else getattr(dtype, "__name__", str(dtype))):
            out.int_typed = True
        return out

    def diag(a):
        a = SymArr.of(a)
        if a.ndim == 1:
            out = SymArr.zeros((a.size, a.size))
            for i in range(a.size):
                out[i, i] = a.flat[i]
            return out
        n_ = min(a.shape)
        return SymArr((n_,), [a.at((i, i)) for i in range(n_)])

    def outer(a, b):
        a, b = SymArr.of(a).flatten(), SymArr.of(b).flatten()
        return SymArr((a.size, b.size), [x * y for x in a.flat for y in b.flat])
    def elementwise(fn):
        def g(a):
            if isinstance(a, SymArr):
                return SymArr(a.shape, [fn(x) for x in a.flat])
            if isinstance(a, (list, tuple)):
                return g(SymArr.of(a))
            return fn(A.lift(a))
        return g
    d0 = {"np.log": elementwise(A.log), "np.exp": elementwise(A.exp), "np.sqrt": elementwise(A.sqrt), "gammaln": elementwise(A.lgamma),
          "scipy.special.gammaln": elementwise(A.lgamma), "np.abs": elementwise(absval), "np.absolute": elementwise(absval)}
    d = {
        "np.repeat": repeat, "np.tile": tile, "np.concatenate": concatenate, "np.hstack": lambda seq: concatenate(seq, 1),
        "np.vstack": lambda seq: bmat([[_as2d(x)] for x in seq]), "np.stack": stack,
        "np.empty_like": empty_like, "np.zeros_like": empty_like, "np.empty": lambda s_, *a, **k: SymArr.zeros(s_),
        "np.ones_like": lambda a, dtype=None, **k: _ones_like(a, dtype), "np.diag": diag, "np.outer": outer,
        "np.isin": isin,
        "np.multiply": _sym_uf2(lambda x, y: x * y), "np.subtract": _sym_uf2(lambda x, y: x - y), "np.divide": _sym_uf2(lambda x, y: x / y), "np.size": lambda a, *x: SymArr.of(a).size, "np.shape": lambda a: SymArr.of(a).shape,
        "np.squeeze": lambda a: SymArr(tuple(x for x in SymArr.of(a).shape if x != 1), SymArr.of(a).flat),
        "np.take": _sym_take, "np.ndindex": _sym_ndindex,
        "np.arange": lambda *a, **k: SymArr.of(list(range(*[_as_int(x, 10 ** 9) if not isinstance(x, int) else x for x in a]))),
        "np.add.outer": lambda a, b: SymArr((SymArr.of(a).size, SymArr.of(b).size), [x + y for x in SymArr.of(a).flatten().flat for y in SymArr.of(b).flatten().flat]),
        "np.multiply.outer": lambda a, b: outer(a, b), "np.atleast_1d": lambda a: SymArr.of(a) if SymArr.of(a).ndim else SymArr.of(a).reshape(1),
        "np.reshape": reshape, "np.array": array, "np.asarray": asarray, "np.asanyarray": asarray, "np.zeros": zeros, "np.ones": lambda s, *a, **k: SymArr.ones(s), "np.ix_": _sym_ix, "np.where": _sym_where, "np.full_like": _sym_full_like, "np.mean": _sym_mean, "np.dstack": _sym_dstack, "np.broadcast_to": lambda a, shape, subok=False: _broadcast_to(SymArr.of(a), (shape,) if isinstance(shape, int) else tuple(shape)), "np.full": _sym_full, "np.empty": _sym_empty,
        "np.identity": lambda n, *a, **k: SymArr.eye(n),
        "np.eye": lambda n, *a, **k: SymArr.eye(n), "np.identity": lambda n: SymArr.eye(n),
        "np.dot": dot, "np.tensordot": tensordot, "np.einsum": einsum, "np.kron": kron, "np.append": append, "np.bmat": bmat, "np.block": block, "np.transpose": lambda a: SymArr.of(a).T, "np.swapaxes": lambda a, i, j: SymArr.of(a).swapaxes(i, j),
        "np.ravel": lambda a, order="C": SymArr.of(a).ravel(order), "np.sort": sort, "np.copy": lambda a: SymArr.of(a).copy(),
        "np.add": _sym_uf2(lambda x, y: x + y), "np.sum": lambda a, axis=None: SymArr.of(a).sum(axis),
        "scipy.sparse.kron": kron, "scipy.sparse.eye": lambda n, *a, **k: SymArr.eye(n), "scipy.linalg.block_diag": block_diag,
        "np.column_stack": lambda t: SymArr.of([SymArr.of(c).tolist() for c in t]).T,
        "np.insert": insert,
    }
    d.update(d0)
    return d
