"""E6 - canonical forms for straight-line numeric code: rational functions N/D
with Fraction coefficients over atoms (symbols and applications log / lgamma /
exp / digamma / trigamma of canonical arguments), with the log rules that are
valid on the positive domain, a structural derivative, and an interpreter from
python/numpy expressions and straight-line function bodies into this form.

Equality of two values is decided by cross-multiplication of expanded
polynomials - no search, no solver.
"""
import ast
from fractions import Fraction

from .source import AnalysisError, norm, dotted, is_self_attr


class Undecided(Exception):
    pass


# --------------------------------------------------------------------- atoms
_ATOM_ARGS = {}   # atom -> Rat argument (for function atoms)


def _atom_key(a):
    return a


def sym(name):
    return Rat({((("sym", name), 1),): Fraction(1)})


# ----------------------------------------------------------------- polynomials
def _mono_mul(m1, m2):
    d = dict(m1)
    for a, e in m2:
        d[a] = d.get(a, 0) + e
    return tuple(sorted(((a, e) for a, e in d.items() if e != 0), key=lambda t: repr(t[0])))


def _poly_add(p, q, s=1):
    r = dict(p)
    for m, c in q.items():
        v = r.get(m, 0) + s * c
        if v == 0:
            r.pop(m, None)
        else:
            r[m] = v
    return r


def _poly_mul(p, q):
    r = {}
    for m1, c1 in p.items():
        for m2, c2 in q.items():
            m = _mono_mul(m1, m2)
            v = r.get(m, 0) + c1 * c2
            if v == 0:
                r.pop(m, None)
            else:
                r[m] = v
    return r


def _poly_key(p):
    return tuple(sorted(((m, str(c)) for m, c in p.items()), key=repr))


ONE = {(): Fraction(1)}


class Rat:
    """rational function num/den, polynomials as {monomial: Fraction}; a monomial
    is a sorted tuple of (atom, positive int exponent)"""
    __slots__ = ("num", "den", "reduced")

    def __init__(self, num, den=None, reduced=False):
        self.num = {m: Fraction(c) for m, c in num.items() if c != 0}
        self.den = dict(den) if den is not None else dict(ONE)
        if not self.den:
            raise Undecided("division by zero")
        self.reduced = reduced     # value passed through .sum()
        self._norm()

    # ---- normalisation: cancel common monomial/content, den leading coeff 1
    def _norm(self):
        if not self.num:
            self.den = dict(ONE)
            return
        # constant denominator
        if len(self.den) == 1:
            (m, c), = self.den.items()
            if m == ():
                if c != 1:
                    self.num = {k: v / c for k, v in self.num.items()}
                    self.den = dict(ONE)
                return
        # common monomial factor between all terms of num and den
        allm = list(self.num) + list(self.den)
        common = dict(allm[0])
        for m in allm[1:]:
            d = dict(m)
            for a in list(common):
                e = min(common[a], d.get(a, 0))
                if e <= 0:
                    del common[a]
                else:
                    common[a] = e
            if not common:
                break
        if common:
            def strip(m):
                d = dict(m)
                for a, e in common.items():
                    d[a] -= e
                return tuple(sorted(((a, e) for a, e in d.items() if e), key=lambda t: repr(t[0])))
            self.num = {strip(m): c for m, c in self.num.items()}
            self.den = {strip(m): c for m, c in self.den.items()}
        # single-term denominator: fold coefficient
        lead = sorted(self.den, key=repr)[0]
        c = self.den[lead]
        if c != 1:
            self.num = {k: v / c for k, v in self.num.items()}
            self.den = {k: v / c for k, v in self.den.items()}

    # ---- arithmetic
    @staticmethod
    def const(c):
        return Rat({(): Fraction(c)})

    def is_const(self):
        return self.den == ONE and all(m == () for m in self.num)

    def const_value(self):
        if self.is_const():
            return self.num.get((), Fraction(0))
        return None

    def __add__(self, o):
        if getattr(o, "_abs_native", False):
            return NotImplemented
        o = lift(o)
        if self.den == o.den:
            return Rat(_poly_add(self.num, o.num), self.den, self.reduced or o.reduced)
        return Rat(_poly_add(_poly_mul(self.num, o.den), _poly_mul(o.num, self.den)), _poly_mul(self.den, o.den),
                   self.reduced or o.reduced)

    __radd__ = __add__

    def __neg__(self):
        return Rat({m: -c for m, c in self.num.items()}, self.den, self.reduced)

    def __sub__(self, o):
        if getattr(o, "_abs_native", False):
            return NotImplemented
        return self + (-lift(o))

    def __rsub__(self, o):
        return lift(o) - self

    def __mul__(self, o):
        if getattr(o, "_abs_native", False):
            return NotImplemented
        o = lift(o)
        return Rat(_poly_mul(self.num, o.num), _poly_mul(self.den, o.den), self.reduced or o.reduced)

    __rmul__ = __mul__

    def inv(self):
        if not self.num:
            raise Undecided("division by zero")
        return Rat(self.den, self.num, self.reduced)

    def __truediv__(self, o):
        if getattr(o, "_abs_native", False):
            return NotImplemented
        return self * lift(o).inv()

    def __rtruediv__(self, o):
        return lift(o) * self.inv()

    def __pow__(self, n):
        if isinstance(n, Rat):
            n = n.const_value()
            if n is None:
                raise Undecided("symbolic exponent")
        n = Fraction(n)
        if n.denominator != 1:
            if n == Fraction(1, 2):
                return sqrt(self)
            if n == Fraction(-1, 2):
                return sqrt(self).inv()
            raise Undecided("fractional exponent %s" % n)
        n = int(n)
        if n < 0:
            return self.inv() ** (-n)
        r = Rat.const(1)
        b = self
        while n:
            if n & 1:
                r = r * b
            b = b * b
            n >>= 1
        r.reduced = self.reduced
        return r

    def __eq__(self, o):
        if not isinstance(o, (Rat, int, float, Fraction)):
            return False
        o = lift(o)
        return _poly_add(_poly_mul(self.num, o.den), _poly_mul(o.num, self.den), -1) == {}

    def __ne__(self, o):
        return not self.__eq__(o)

    def __hash__(self):
        return hash(self.key())

    def key(self):
        return (_poly_key(self.num), _poly_key(self.den))

    def atoms(self):
        out = set()
        for p in (self.num, self.den):
            for m in p:
                for a, _e in m:
                    out.add(a)
        return out

    def depends_on(self, name, _seen=None):
        seen = _seen or set()
        for a in self.atoms():
            if a in seen:
                continue
            seen.add(a)
            if a == ("sym", name):
                return True
            arg = _ATOM_ARGS.get(a)
            if arg is not None and arg.depends_on(name, seen):
                return True
        return False

    def __repr__(self):
        def mono(m):
            return "*".join(_atom_str(a) + ("^%d" % e if e != 1 else "") for a, e in m) or "1"

        def poly(p):
            if not p:
                return "0"
            return " + ".join(("%s*" % c if c != 1 or m == () else "") .rstrip("*") + ("*" if (c != 1 and m != ()) else "") + (mono(m) if m != () else "")
                              for m, c in sorted(p.items(), key=repr))
        s = poly(self.num)
        if self.den != ONE:
            s = "(%s)/(%s)" % (s, poly(self.den))
        return s


def pystr(r):
    """python source text of a polynomial / rational function over plain symbols (what str() of the corresponding sympy expression
    re-parses to): used where the analysed code formats an expression into a string and evaluates the string again"""
    def coef(c):
        return str(c.numerator) if c.denominator == 1 else "(%d/%d)" % (c.numerator, c.denominator)

    def mono(m):
        out = []
        for a, e in m:
            if a[0] != "sym":
                raise Undecided("text form of a non-polynomial expression")
            out.append(a[1] if e == 1 else "%s**%d" % (a[1], e))
        return "*".join(out)

    def poly(p):
        if not p:
            return "0"
        terms = []
        for m, c in sorted(p.items(), key=repr):
            mm = mono(m)
            terms.append(coef(c) if not mm else (mm if c == 1 else "%s*%s" % (coef(c), mm)))
        return " + ".join(terms)
    s_ = poly(r.num)
    if r.den != ONE:
        return "(%s)/(%s)" % (s_, poly(r.den))
    return "(%s)" % s_ if len(r.num) > 1 else s_


def substitute(r, name, value):
    """r with the symbol `name` replaced by the expression `value` (polynomial atoms only)"""
    r, value = lift(r), lift(value)
    key = ("sym", name)
    for a in r.atoms():
        if a != key and a[0] != "sym" and r.depends_on(name):
            arg = _ATOM_ARGS.get(a)
            if arg is not None and arg.depends_on(name):
                raise Undecided("substitution inside a function argument")

    def poly(p):
        tot = Rat.const(0)
        for m, c in p.items():
            term = Rat.const(c)
            for a, e in m:
                term = term * ((value ** e) if a == key else Rat({((a, e),): Fraction(1)}))
            tot = tot + term
        return tot
    return poly(r.num) / poly(r.den)


def _atom_str(a):
    if a[0] == "sym":
        return a[1]
    if a[0] == "logp":
        return "log(%d)" % a[1]
    arg = _ATOM_ARGS.get(a)
    return "%s(%r)" % (a[0], arg)


def lift(x):
    if isinstance(x, Rat):
        return x
    if isinstance(x, (int, Fraction)):
        return Rat.const(x)
    if isinstance(x, float):
        return Rat.const(Fraction(repr(x)))
    raise Undecided("cannot lift %r" % (x,))


def _fn_atom(kind, arg):
    a = (kind, arg.key())
    _ATOM_ARGS[a] = arg
    return Rat({((a, 1),): Fraction(1)})


def _factor_int(n):
    out = {}
    p = 2
    while p * p <= n:
        while n % p == 0:
            out[p] = out.get(p, 0) + 1
            n //= p
        p += 1
    if n > 1:
        out[n] = out.get(n, 0) + 1
    return out


def _log_posint(n):
    r = Rat.const(0)
    for p, e in _factor_int(n).items():
        r = r + Rat({((("logp", p), 1),): Fraction(e)})
    return r


# every time log() cancels an exp() factor the cancelled atom is recorded here: algebraically harmless, numerically
# the program took the logarithm of a quantity that underflows (a client that cares clears the list and inspects it)
LOG_OF_EXP = []


def _log_poly(p):
    """log of a polynomial (positive domain): split content and monomial factors"""
    if not p:
        raise Undecided("log(0)")
    if len(p) == 1:
        (m, c), = p.items()
        if c <= 0:
            raise Undecided("log of a non-positive constant factor %s" % c)
        r = _log_posint(c.numerator) - _log_posint(c.denominator)
        for a, e in m:
            if a[0] == "exp":
                LOG_OF_EXP.append(a)
                r = r + e * _ATOM_ARGS[a]
            elif a[0] == "sqrt":
                r = r + Fraction(e, 2) * log(_ATOM_ARGS[a])
            else:
                r = r + e * _fn_atom("log", Rat({((a, 1),): Fraction(1)}))
        return r
    # several terms: extract rational content and common monomial, keep the rest as an atom
    coeffs = list(p.values())
    from math import gcd
    num_g = 0
    den_l = 1
    for c in coeffs:
        num_g = gcd(num_g, abs(c.numerator))
        den_l = den_l * c.denominator // gcd(den_l, c.denominator)
    content = Fraction(num_g, den_l)
    lead = sorted(p, key=repr)[0]
    if p[lead] < 0:
        content = -content
    monos = list(p)
    common = dict(monos[0])
    for m in monos[1:]:
        d = dict(m)
        for a in list(common):
            e = min(common[a], d.get(a, 0))
            if e <= 0:
                del common[a]
            else:
                common[a] = e
    cm = tuple(sorted(common.items(), key=lambda t: repr(t[0])))
    rest = {}
    for m, c in p.items():
        d = dict(m)
        for a, e in common.items():
            d[a] -= e
        rest[tuple(sorted(((a, e) for a, e in d.items() if e), key=lambda t: repr(t[0])))] = c / content
    if content <= 0:
        raise Undecided("log of a polynomial with non-positive content")
    r = _fn_atom("log", Rat(rest))
    if content != 1 or cm:
        r = r + _log_poly({cm: content})
    return r


def log(x):
    x = lift(x)
    return _log_poly(x.num) - (_log_poly(x.den) if x.den != ONE else Rat.const(0))


def exp(x):
    x = lift(x)
    if not x.num:
        return Rat.const(1)
    return _fn_atom("exp", x)


def lgamma(x):
    x = lift(x)
    c = x.const_value()
    if c is not None and c.denominator == 1 and 1 <= c <= 20:
        f = 1
        for i in range(2, int(c)):
            f *= i
        return _log_posint(f) if f > 1 else Rat.const(0)
    return _fn_atom("lgamma", x)


def sqrt(x):
    x = lift(x)
    c = x.const_value()
    if c is not None and c >= 0:
        import math
        n, d = math.isqrt(c.numerator), math.isqrt(c.denominator)
        if n * n == c.numerator and d * d == c.denominator:
            return Rat.const(Fraction(n, d))
    return _fn_atom("sqrt", x)


def simplify_sqrt(r):
    """replace even powers of sqrt atoms: sqrt(u)^2 -> u"""
    def fix(p):
        out = Rat.const(0)
        for m, c in p.items():
            term = Rat.const(c)
            for a, e in m:
                if a[0] == "sqrt":
                    term = term * (_ATOM_ARGS[a] ** (e // 2))
                    if e % 2:
                        term = term * Rat({((a, 1),): Fraction(1)})
                else:
                    term = term * Rat({((a, e),): Fraction(1)})
            out = out + term
        return out
    return fix(r.num) / fix(r.den)


# ------------------------------------------------------------------ derivative
def diff(r, name):
    r = lift(r)
    dn = _dpoly(r.num, name)
    if r.den == ONE:
        return dn
    dd = _dpoly(r.den, name)
    N, D = Rat(r.num), Rat(r.den)
    return (dn * D - N * dd) / (D * D)


def _datom(a, name):
    if a == ("sym", name):
        return Rat.const(1)
    if a[0] in ("sym", "logp"):
        return Rat.const(0)
    arg = _ATOM_ARGS[a]
    da = diff(arg, name)
    if not da.num:
        return Rat.const(0)
    if a[0] == "log":
        return da / arg
    if a[0] == "exp":
        return da * Rat({((a, 1),): Fraction(1)})
    if a[0] == "lgamma":
        return da * _fn_atom("digamma", arg)
    if a[0] == "digamma":
        return da * _fn_atom("trigamma", arg)
    if a[0] == "sqrt":
        return da / (2 * Rat({((a, 1),): Fraction(1)}))
    raise Undecided("derivative of atom %s" % a[0])


def _dpoly(p, name):
    out = Rat.const(0)
    for m, c in p.items():
        for i, (a, e) in enumerate(m):
            da = _datom(a, name)
            if not da.num:
                continue
            rest = list(m)
            if e == 1:
                rest.pop(i)
            else:
                rest[i] = (a, e - 1)
            out = out + Rat({tuple(rest): c * e}) * da
    return out


# ----------------------------------------------------------------- interpreter
NP_FUNCS = {"np.log": log, "numpy.log": log, "log": log, "math.log": log,
            "np.exp": exp, "numpy.exp": exp, "math.exp": exp,
            "gammaln": lgamma, "scipy.special.gammaln": lgamma, "special.gammaln": lgamma, "math.lgamma": lgamma,
            "np.sqrt": sqrt, "numpy.sqrt": sqrt, "math.sqrt": sqrt,
            # over the reals (the algebra has no integer dtype; integer truncation of np.reciprocal is decided by the concrete-array rules)
            "np.reciprocal": lambda x: Rat.const(1) / lift(x), "np.square": lambda x: lift(x) * lift(x), "np.negative": lambda x: -lift(x)}
IDENTITY_METHODS = {"ravel", "flatten", "copy", "squeeze", "astype", "tolist"}
IDENTITY_FUNCS = {"np.array", "np.asarray", "np.ravel", "np.copy", "float", "np.float64", "np.nan_to_num",
                  "check_array_type", "np.atleast_1d"}
CONSTS = {"np.pi": sym("pi"), "numpy.pi": sym("pi"), "math.pi": sym("pi"), "pi": sym("pi")}


_BINOPS = {"operator.add": lambda a, b: a + b, "operator.sub": lambda a, b: a - b, "operator.mul": lambda a, b: a * b,
           "operator.truediv": lambda a, b: a / b, "operator.pow": lambda a, b: a ** b,
           "operator.iadd": lambda a, b: a + b, "operator.imul": lambda a, b: a * b}


class Interp:
    """Interprets expressions / straight-line bodies.  `env` maps local names to Rat
    (or to python bool/None for flags); `attr` maps 'self._x' to Rat; `call_hook`
    (dotted, call node, interp) may return a Rat for calls it knows (method
    inlining, helper functions) or None."""

    def __init__(self, env=None, attr=None, call_hook=None, module=None, depth=0):
        self.env = dict(env or {})
        self.attr = dict(attr or {})
        self.call_hook = call_hook
        self.module = module      # source Module: module-level helper functions are inlined, module constants evaluated
        self.depth = depth
        self.ret = None

    def fork(self):
        i = Interp(self.env, self.attr, self.call_hook, self.module, self.depth)
        return i

    def _canon(self, dn):
        """a name imported from the standard library (from functools import reduce as _reduce) under the library's own name"""
        if dn is None or self.module is None:
            return dn
        root, _, rest = dn.partition(".")
        if root in self.env:
            return dn
        tgt = getattr(self.module, "imports", {}).get(root)
        if tgt and tgt.split(".")[0] in ("functools", "operator", "itertools", "math"):
            return tgt + ("." + rest if rest else "")
        return dn

    def _module_const(self, name):
        m = self.module
        if m is None:
            return None
        for st in m.tree.body:
            if isinstance(st, ast.Assign) and any(isinstance(t, ast.Name) and t.id == name for t in st.targets):
                if self.depth > 6:
                    raise Undecided("recursive module constant %s" % name)
                return Interp({}, {}, self.call_hook, m, self.depth + 1).ev(st.value)
        return None

    def _module_call(self, dn, e):
        m = self.module
        if m is None or dn is None or "." in dn or dn not in m.functions or dn in self.env:
            return None
        if self.depth > 6:
            raise Undecided("inlining depth exceeded at %s" % dn)
        f = m.functions[dn]
        a = f.node.args
        if a.vararg is not None or a.kwarg is not None:
            raise Undecided("*args of helper %s" % dn)
        params = [x.arg for x in a.posonlyargs + a.args]
        defaults = dict(zip(params[len(params) - len(a.defaults):], a.defaults))
        env = {}
        for p_, arg in zip(params, e.args):
            env[p_] = self.ev(arg)
        for k in e.keywords:
            if k.arg is None:
                raise Undecided("**kwargs in call of %s" % dn)
            env[k.arg] = self.ev(k.value)
        for p_ in params:
            if p_ not in env:
                if p_ not in defaults:
                    raise Undecided("missing argument %s of %s" % (p_, dn))
                env[p_] = Interp({}, {}, None, m, self.depth + 1).ev(defaults[p_])
        sub = Interp(env, {}, self.call_hook, m, self.depth + 1)
        sub.run(f.node.body)
        if sub.ret is None or isinstance(sub.ret, str):
            raise Undecided("helper %s does not return a value on this path" % dn)
        return sub.ret

    # ---- expressions
    def ev(self, e):
        if isinstance(e, ast.Constant):
            if isinstance(e.value, bool) or e.value is None:
                return e.value
            if isinstance(e.value, (int, float)):
                return lift(e.value)
            raise Undecided("constant %r" % (e.value,))
        if isinstance(e, ast.Name):
            if e.id in self.env:
                return self.env[e.id]
            if e.id in CONSTS:
                return CONSTS[e.id]
            v = self._module_const(e.id)
            if v is not None:
                return v
            if self.module is not None and e.id in self.module.functions:
                return ("fn", e.id)
            cn = self._canon(e.id)
            if cn != e.id:
                return ("fn", cn)
            raise Undecided("unbound name %s" % e.id)
        if isinstance(e, ast.Attribute):
            dn = dotted(e)
            if dn in CONSTS:
                return CONSTS[dn]
            if dn in self.attr:
                return self.attr[dn]
            if e.attr == "T":
                return self.ev(e.value)
            if dn is not None and not dn.startswith("self."):
                return ("fn", dn)            # a library / helper callable used as a value (fn = st.poisson.logpmf if log else ...)
            raise Undecided("unknown attribute %s" % norm(e))
        if isinstance(e, ast.UnaryOp):
            v = self.ev(e.operand)
            if isinstance(e.op, ast.USub):
                return -lift(v)
            if isinstance(e.op, ast.UAdd):
                return lift(v)
            if isinstance(e.op, ast.Not):
                if isinstance(v, bool):
                    return not v
                raise Undecided("not of non-flag")
        if isinstance(e, ast.BinOp):
            a, b = self.ev(e.left), self.ev(e.right)
            a, b = lift(a), lift(b)
            if isinstance(e.op, ast.Add):
                return a + b
            if isinstance(e.op, ast.Sub):
                return a - b
            if isinstance(e.op, ast.Mult):
                return a * b
            if isinstance(e.op, ast.Div):
                return a / b
            if isinstance(e.op, ast.Pow):
                return a ** b
            raise Undecided("operator %s" % type(e.op).__name__)
        if isinstance(e, ast.NamedExpr):
            v = self.ev(e.value)
            self.env[e.target.id] = v
            return v
        if isinstance(e, (ast.ListComp, ast.GeneratorExp)) and len(e.generators) == 1:
            g = e.generators[0]
            seq = self.ev(g.iter)
            if not isinstance(seq, list):
                raise Undecided("comprehension over %s" % norm(g.iter))
            out = []
            saved = dict(self.env)
            for item in seq:
                if isinstance(g.target, ast.Name):
                    self.env[g.target.id] = item
                elif isinstance(g.target, ast.Tuple) and isinstance(item, list) and len(item) == len(g.target.elts) and all(isinstance(t, ast.Name) for t in g.target.elts):
                    for t, v in zip(g.target.elts, item):
                        self.env[t.id] = v
                else:
                    raise Undecided("comprehension target %s" % norm(g.target))
                conds = [self.test(c) for c in g.ifs]
                if any(c is None for c in conds):
                    raise Undecided("comprehension filter %s" % norm(g.ifs[0]))
                if all(conds):
                    out.append(self.ev(e.elt))
            self.env = saved
            return out
        if isinstance(e, ast.Call):
            dn = self._canon(dotted(e.func))
            fv = None
            if dn in _BINOPS and len(e.args) == 2 and not e.keywords:
                return _BINOPS[dn](lift(self.ev(e.args[0])), lift(self.ev(e.args[1])))
            if dn == "operator.neg" and len(e.args) == 1:
                return -lift(self.ev(e.args[0]))
            if dn == "functools.reduce" and len(e.args) in (2, 3) and not e.keywords:
                fn = self.ev(e.args[0]) if not isinstance(e.args[0], ast.Lambda) else None
                fdn = self._canon(fn[1]) if isinstance(fn, tuple) and len(fn) == 2 and fn[0] == "fn" else None
                seq = self.ev(e.args[1])
                if fdn in _BINOPS and isinstance(seq, list):
                    seq = ([self.ev(e.args[2])] if len(e.args) == 3 else []) + seq
                    if not seq:
                        raise Undecided("reduce of an empty sequence")
                    acc = lift(seq[0])
                    for x in seq[1:]:
                        acc = _BINOPS[fdn](acc, lift(x))
                    return acc
                raise Undecided("call %s" % norm(e)[:60])
            if dn in ("any", "all") and len(e.args) == 1:
                vals = self.ev(e.args[0])
                if isinstance(vals, list) and all(isinstance(v, bool) for v in vals):
                    return any(vals) if dn == "any" else all(vals)
                raise Undecided("call %s" % norm(e)[:60])
            if dn in ("sum", "math.fsum") and len(e.args) in (1, 2):
                vals = self.ev(e.args[0])
                if isinstance(vals, list):
                    acc = lift(self.ev(e.args[1])) if len(e.args) == 2 else Rat.const(0)
                    for v in vals:
                        acc = acc + lift(v)
                    return acc
            if isinstance(e.func, ast.Name) and isinstance(self.env.get(e.func.id), tuple):
                fv = self.env[e.func.id]
            elif not isinstance(e.func, (ast.Name, ast.Attribute)):
                fv = self.ev(e.func)             # (a if flag else b)(...),  table[flag](...)
            if isinstance(fv, tuple) and len(fv) == 2 and fv[0] == "fn":
                call2 = ast.Call(func=ast.parse(fv[1], mode="eval").body, args=e.args, keywords=e.keywords)
                return self.ev(ast.copy_location(call2, e))
            if self.call_hook is not None:
                r = self.call_hook(dn, e, self)
                if r is not None:
                    return r
            if dn == "bool" and len(e.args) == 1:
                v = self.ev(e.args[0])
                if isinstance(v, bool) or v is None:
                    return bool(v)
                raise Undecided("bool() of a symbolic value")
            r = self._module_call(dn, e)
            if r is not None:
                return r
            if dn in NP_FUNCS and len(e.args) == 1:
                return NP_FUNCS[dn](self.ev(e.args[0]))
            if dn in ("np.full", "numpy.full", "np.full_like", "numpy.full_like") and len(e.args) >= 2:
                return lift(self.ev(e.args[1]))
            if dn in ("np.empty", "numpy.empty", "np.empty_like", "numpy.empty_like"):
                return ("uninitialised array",)          # only a later fill() gives it a value
            if dn in ("np.ones", "numpy.ones", "np.ones_like"):
                return Rat.const(1)
            if dn in ("np.zeros", "numpy.zeros", "np.zeros_like"):
                return Rat.const(0)
            if dn in ("np.power", "numpy.power") and len(e.args) == 2:
                return lift(self.ev(e.args[0])) ** lift(self.ev(e.args[1]))
            if dn in ("np.square",) and len(e.args) == 1:
                return lift(self.ev(e.args[0])) ** 2
            if dn in ("np.sum", "numpy.sum", "sum") and len(e.args) >= 1:
                v = lift(self.ev(e.args[0]))
                return Rat(v.num, v.den, True)
            if dn in IDENTITY_FUNCS and e.args:
                return self.ev(e.args[0])
            if isinstance(e.func, ast.Attribute):
                m = e.func.attr
                if m == "sum":
                    v = lift(self.ev(e.func.value))
                    return Rat(v.num, v.den, True)
                if m in IDENTITY_METHODS:
                    return self.ev(e.func.value)
            raise Undecided("call %s" % norm(e)[:60])
        if isinstance(e, ast.IfExp):
            t = self.test(e.test)
            if t is True:
                return self.ev(e.body)
            if t is False:
                return self.ev(e.orelse)
            a, b = self.ev(e.body), self.ev(e.orelse)
            if a == b:
                return a
            raise Undecided("conditional expression with different arms")
        if isinstance(e, (ast.List, ast.Tuple)):
            return [self.ev(x) for x in e.elts]
        if isinstance(e, ast.Dict):
            out = {}
            for k, v in zip(e.keys, e.values):
                kk = self.ev(k)
                if not (isinstance(kk, (bool, int, str)) or kk is None):
                    raise Undecided("dict key %s" % norm(k))
                out[kk] = self.ev(v)
            return out
        if isinstance(e, ast.Subscript):
            base = self.ev(e.value)
            if isinstance(base, list) and isinstance(e.slice, ast.Slice):
                def _b(x):
                    if x is None:
                        return None
                    v = self.ev(x)
                    if isinstance(v, Rat) and v.is_const():
                        v = int(v.const_value())
                    if isinstance(v, bool) or not isinstance(v, int):
                        raise Undecided("slice bound %s" % norm(x))
                    return v
                return base[_b(e.slice.lower):_b(e.slice.upper):_b(e.slice.step)]
            if isinstance(base, (list, dict)):
                k = self.ev(e.slice)
                if isinstance(k, Rat) and k.is_const():
                    k = int(k.const_value())
                if isinstance(base, list) and isinstance(k, int) and not isinstance(k, bool) and -len(base) <= k < len(base):
                    return base[k]
                if isinstance(base, dict) and (isinstance(k, (bool, int, str)) or k is None) and k in base:
                    return base[k]
                raise Undecided("subscript %s" % norm(e))
            raise Undecided("subscript of %s" % norm(e.value))
        if isinstance(e, ast.Compare) or isinstance(e, ast.BoolOp):
            t = self.test(e)
            if t is None:
                raise Undecided("comparison as value")
            return t
        raise Undecided("expression %s" % type(e).__name__)

    def test(self, t):
        """True / False when decidable from flags, else None"""
        if isinstance(t, ast.Constant):
            return bool(t.value)
        if isinstance(t, ast.Name):
            v = self.env.get(t.id, "?")
            if isinstance(v, bool):
                return v
            if v is None:
                return False
            return None
        if isinstance(t, ast.UnaryOp) and isinstance(t.op, ast.Not):
            v = self.test(t.operand)
            return None if v is None else (not v)
        if isinstance(t, ast.Call) and dotted(t.func) in ("any", "all", "bool") and len(t.args) == 1:
            try:
                v = self.ev(t)
            except Undecided:
                return None
            return v if isinstance(v, bool) else None
        if isinstance(t, ast.NamedExpr):
            try:
                v = self.ev(t)
            except Undecided:
                return None
            return v if isinstance(v, bool) else (False if v is None else None)
        if isinstance(t, ast.BoolOp):
            vals = [self.test(v) for v in t.values]
            if isinstance(t.op, ast.And):
                if any(v is False for v in vals):
                    return False
                return True if all(v is True for v in vals) else None
            if any(v is True for v in vals):
                return True
            return False if all(v is False for v in vals) else None
        if isinstance(t, ast.Compare) and len(t.ops) == 1:
            l, r = t.left, t.comparators[0]
            op = t.ops[0]

            def flag(x):
                if isinstance(x, ast.Constant):
                    return ("c", x.value)
                if isinstance(x, ast.Name) and x.id in self.env and (isinstance(self.env[x.id], bool) or self.env[x.id] is None):
                    return ("c", self.env[x.id])
                return None
            def ndim(x):
                # len(E.shape) / E.ndim of a value of this domain: the algebra works element-wise on flat vectors, so 1
                inner = None
                if isinstance(x, ast.Call) and isinstance(x.func, ast.Name) and x.func.id == "len" and len(x.args) == 1 \
                        and isinstance(x.args[0], ast.Attribute) and x.args[0].attr == "shape":
                    inner = x.args[0].value
                elif isinstance(x, ast.Attribute) and x.attr == "ndim":
                    inner = x.value
                if inner is None:
                    return None
                try:
                    v = self.ev(inner)
                except Undecided:
                    return None
                return ("c", 1) if isinstance(v, Rat) else None
            a, b = flag(l) or ndim(l), flag(r) or ndim(r)
            if a and b and isinstance(op, (ast.Lt, ast.LtE, ast.Gt, ast.GtE)) and all(isinstance(z[1], (int, float)) and not isinstance(z[1], bool) for z in (a, b)):
                return {ast.Lt: a[1] < b[1], ast.LtE: a[1] <= b[1], ast.Gt: a[1] > b[1], ast.GtE: a[1] >= b[1]}[type(op)]
            if a and b:
                if isinstance(op, (ast.Is, ast.Eq)):
                    return a[1] is b[1] if isinstance(op, ast.Is) else a[1] == b[1]
                if isinstance(op, (ast.IsNot, ast.NotEq)):
                    return a[1] is not b[1] if isinstance(op, ast.IsNot) else a[1] != b[1]
            # a Rat-valued name compared with None
            if isinstance(op, (ast.Is, ast.IsNot)) and isinstance(r, ast.Constant) and r.value is None \
                    and isinstance(l, ast.Name) and isinstance(self.env.get(l.id), Rat):
                return isinstance(op, ast.IsNot)
        return None

    # ---- statements
    def run(self, stmts):
        """execute statements; returns True if a return was executed on every path"""
        for idx, st in enumerate(stmts):
            if self.ret is not None:
                return True
            if isinstance(st, ast.Expr):
                c = st.value
                if isinstance(c, ast.Call) and isinstance(c.func, ast.Attribute) and isinstance(c.func.value, ast.Name) and c.func.value.id in self.env:
                    if c.func.attr == "fill" and len(c.args) == 1 and not c.keywords:
                        self.env[c.func.value.id] = lift(self.ev(c.args[0]))        # a.fill(v): every element is v from here on
                        continue
                    if c.func.attr in ("sort", "resize", "put", "itemset", "partition", "setfield", "clip", "round") and isinstance(self.env[c.func.value.id], (Rat, tuple)):
                        raise Undecided("in-place %s of an array" % c.func.attr)
                continue     # docstrings, bare calls without effect on values
            if isinstance(st, ast.Assign):
                v = self.ev(st.value)
                for t in st.targets:
                    self._store(t, v)
            elif isinstance(st, ast.AugAssign):
                cur = self.ev(ast.Name(id=st.target.id, ctx=ast.Load())) if isinstance(st.target, ast.Name) else None
                if cur is None:
                    raise Undecided("augmented assignment to %s" % norm(st.target))
                v = self.ev(ast.BinOp(left=st.target, op=st.op, right=st.value)) if False else None
                rhs = lift(self.ev(st.value))
                cur = lift(cur)
                if isinstance(st.op, ast.Add):
                    v = cur + rhs
                elif isinstance(st.op, ast.Sub):
                    v = cur - rhs
                elif isinstance(st.op, ast.Mult):
                    v = cur * rhs
                elif isinstance(st.op, ast.Div):
                    v = cur / rhs
                else:
                    raise Undecided("augmented operator")
                self.env[st.target.id] = v
            elif isinstance(st, ast.Return):
                self.ret = self.ev(st.value) if st.value is not None else None
                return True
            elif isinstance(st, ast.If):
                t = self.test(st.test)
                if t is True:
                    self.run(st.body)
                elif t is False:
                    self.run(st.orelse)
                else:
                    # undecidable test (a runtime shape): both arms, each followed by the rest of this block, must agree
                    rest = list(stmts[idx + 1:])
                    a, b = self.fork(), self.fork()
                    a.run(list(st.body) + rest)
                    b.run(list(st.orelse) + rest)
                    if not _same_state(a, b):
                        raise Undecided("branches of `if %s` give different values" % norm(st.test)[:60])
                    self.env, self.ret = a.env, a.ret
                    return self.ret is not None
            elif isinstance(st, ast.For) and not st.orelse:
                seq = self.ev(st.iter)
                if not isinstance(seq, list):
                    raise Undecided("loop over %s" % norm(st.iter))
                for item in seq:
                    if isinstance(st.target, ast.Name):
                        self.env[st.target.id] = item
                    elif isinstance(st.target, ast.Tuple) and isinstance(item, list) and len(item) == len(st.target.elts) and all(isinstance(t_, ast.Name) for t_ in st.target.elts):
                        for t_, v_ in zip(st.target.elts, item):
                            self.env[t_.id] = v_
                    else:
                        raise Undecided("loop target %s" % norm(st.target))
                    self.run(st.body)
                    if self.ret is not None:
                        return True
            elif isinstance(st, (ast.Raise, ast.Assert, ast.Pass)):
                if isinstance(st, ast.Raise):
                    self.ret = "raise"
                    return True
                continue
            else:
                raise Undecided("statement %s" % type(st).__name__)
        return self.ret is not None

    def _store(self, t, v):
        if isinstance(t, ast.Name):
            self.env[t.id] = v
        elif is_self_attr(t):
            self.attr["self." + t.attr] = v
        else:
            raise Undecided("store to %s" % norm(t))


def _same_state(a, b):
    def same(x, y):
        if isinstance(x, Rat) or isinstance(y, Rat):
            try:
                return lift(x) == lift(y)
            except Undecided:
                return False
        return x == y
    if isinstance(a.ret, str):
        a.env, a.ret = b.env, b.ret
        return True
    if isinstance(b.ret, str):
        return True
    if (a.ret is None) != (b.ret is None):
        return False
    if a.ret is not None and not same(a.ret, b.ret):
        return False
    keys = set(a.env) | set(b.env)
    for k in keys:
        if k not in a.env or k not in b.env:
            continue   # defined on one arm only: not used later or will raise unbound
        if not same(a.env[k], b.env[k]):
            return False
    return True


def eval_function(func_node, env, attr=None, call_hook=None, module=None):
    """interpret a whole function body; returns the returned Rat"""
    it = Interp(env, attr, call_hook, module)
    body = func_node.body
    it.run(body)
    if it.ret is None or isinstance(it.ret, str):
        raise Undecided("function %s does not return a value on the analysed path" % func_node.name)
    return it.ret
