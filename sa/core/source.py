"""E1 - source model: parse every file of the package under analysis, index classes,
methods, properties and module functions, resolve the model-class MRO, and give
stable names and normalised statement text to constructs.

Nothing here imports or runs the analysed package.
"""
import ast
import hashlib
import os
import re

REPO = os.environ.get("PYGOM_REPO", "/repo")
PKG_REL = "src/pygom"


class AnalysisError(Exception):
    """An anchor vanished or the code is written in an idiom the analysis does not
    model.  Never a violation, never a silent pass (exit code 2)."""


class FuncInfo:
    __slots__ = ("module", "cls", "name", "node", "kind")

    def __init__(self, module, cls, name, node, kind="method"):
        self.module = module      # Module
        self.cls = cls            # class name or None
        self.name = name
        self.node = node          # ast.FunctionDef
        self.kind = kind          # method | function | getter | setter

    @property
    def qualname(self):
        base = (self.cls + "." if self.cls else "") + self.name
        if self.kind == "setter":
            base += ".setter"
        return base

    @property
    def construct(self):
        return "%s::%s" % (self.module.rel, self.qualname)

    @property
    def params(self):
        a = self.node.args
        return [x.arg for x in a.posonlyargs + a.args]

    def __repr__(self):
        return "<Func %s>" % self.construct


class ClassInfo:
    def __init__(self, module, node):
        self.module = module
        self.node = node
        self.name = node.name
        self.bases = [_dotted(b) for b in node.bases]
        self.methods = {}      # name -> FuncInfo (plain methods)
        self.getters = {}      # property name -> FuncInfo
        self.setters = {}      # property name -> FuncInfo
        self.class_attrs = {}  # name -> ast expr
        for st in node.body:
            if isinstance(st, (ast.FunctionDef, ast.AsyncFunctionDef)):
                kind = "method"
                for d in st.decorator_list:
                    dn = _dotted(d)
                    if dn == "property":
                        kind = "getter"
                    elif dn and dn.endswith(".setter"):
                        kind = "setter"
                fi = FuncInfo(module, self.name, st.name, st, kind)
                if kind == "getter":
                    self.getters[st.name] = fi
                elif kind == "setter":
                    self.setters[st.name] = fi
                else:
                    self.methods[st.name] = fi
            elif isinstance(st, ast.Assign):
                for t in st.targets:
                    if isinstance(t, ast.Name):
                        self.class_attrs[t.id] = st.value


class Module:
    def __init__(self, path, rel, modname, src):
        self.path = path
        self.rel = rel            # e.g. pygom/model/simulate.py
        self.modname = modname    # e.g. pygom.model.simulate
        self.src = src
        self.lines = src.splitlines()
        self.tree = ast.parse(src, filename=path)
        self.classes = {}
        self.functions = {}
        self.dup_functions = {}   # name -> [FuncInfo,...] when defined more than once
        self.imports = {}         # local name -> dotted target
        for st in self.tree.body:
            if isinstance(st, ast.ClassDef):
                self.classes[st.name] = ClassInfo(self, st)
            elif isinstance(st, (ast.FunctionDef, ast.AsyncFunctionDef)):
                fi = FuncInfo(self, None, st.name, st, "function")
                self.dup_functions.setdefault(st.name, []).append(fi)
                self.functions[st.name] = fi      # last definition wins, as in Python
        for st in ast.walk(self.tree):
            if isinstance(st, ast.Import):
                for a in st.names:
                    self.imports[a.asname or a.name.split(".")[0]] = a.name if a.asname else a.name.split(".")[0]
            elif isinstance(st, ast.ImportFrom):
                base = st.module or ""
                if st.level:
                    parts = self.modname.split(".")
                    # a package __init__ counts as its own package
                    is_pkg = os.path.basename(self.path) == "__init__.py"
                    pkgparts = parts if is_pkg else parts[:-1]
                    anchor = pkgparts[:len(pkgparts) - (st.level - 1)]
                    base = ".".join(anchor + ([st.module] if st.module else []))
                for a in st.names:
                    self.imports[a.asname or a.name] = base + "." + a.name

    def line(self, n):
        return self.lines[n - 1] if 0 < n <= len(self.lines) else ""


def _dotted(node):
    """a.b.c -> 'a.b.c'; anything else -> None"""
    if isinstance(node, ast.Name):
        return node.id
    if isinstance(node, ast.Attribute):
        b = _dotted(node.value)
        return b + "." + node.attr if b else None
    return None


dotted = _dotted

_PYX_DROP = re.compile(r"^\s*(cimport\s|from\s+\S+\s+cimport\s|cdef\s+[\w\.\[\], :]+$)")


def pyx_to_python(src):
    """Regex pre-processor for the 66-line _tau_leap.pyx: strips cimport lines,
    'cdef <type> a, b' declarations, typed 'cdef T x = e' (-> 'x = e'), typed
    arguments and decorators, so that ast can parse the remainder.  Line numbers
    are preserved."""
    out = []
    for ln in src.splitlines():
        s = ln
        if re.match(r"^\s*cimport\s", s) or re.match(r"^\s*from\s+\S+\s+cimport\s", s):
            s = ""
        elif re.match(r"^\s*@cython\.", s):
            s = ""
        else:
            m = re.match(r"^(\s*)cdef\s+(.*)$", s)
            if m:
                body = m.group(2)
                if "=" in body:
                    lhs, rhs = body.split("=", 1)
                    name = re.findall(r"[A-Za-z_]\w*", lhs)[-1]
                    s = "%s%s =%s" % (m.group(1), name, rhs)
                else:
                    s = m.group(1) + "pass" if m.group(1) else ""
            # typed args:  np.ndarray[np.float64_t] x  /  double tau_scale
            s = re.sub(r"np\.ndarray\[[^\]]*\]\s+(\w+)", r"\1", s)
            s = re.sub(r"\b(double|int|float|long)\s+(\w+)\s*([,)])", r"\2\3", s)
        out.append(s)
    return "\n".join(out) + "\n"


class Repo:
    def __init__(self, root=None):
        self.root = root or REPO
        self.pkg = os.path.join(self.root, PKG_REL)
        if not os.path.isdir(self.pkg):
            raise AnalysisError("package directory %s not found" % self.pkg)
        self.modules = {}       # modname -> Module
        self.by_rel = {}
        self.consulted = set()
        h = hashlib.sha256()
        for dirpath, _dirs, files in sorted(os.walk(self.pkg)):
            for fn in sorted(files):
                if not (fn.endswith(".py") or fn.endswith(".pyx")):
                    continue
                path = os.path.join(dirpath, fn)
                rel = os.path.relpath(path, os.path.join(self.root, "src"))
                with open(path, "r", encoding="utf-8", newline="") as fh:
                    src = fh.read().replace("\r\n", "\n")
                h.update(rel.encode() + b"\0" + src.encode() + b"\0")
                modname = rel[:-3].replace(os.sep, ".") if fn.endswith(".py") else rel[:-4].replace(os.sep, ".")
                if modname.endswith(".__init__"):
                    modname = modname[:-9]
                if fn.endswith(".pyx"):
                    src = pyx_to_python(src)
                try:
                    m = Module(path, rel, modname, src)
                except SyntaxError as e:
                    raise AnalysisError("cannot parse %s: %s" % (rel, e))
                self.modules[modname] = m
                self.by_rel[rel] = m
        self.digest = h.hexdigest()
        self.n_files = len(self.modules)

    # ---------------------------------------------------------------- look-ups
    def module(self, modname):
        m = self.modules.get(modname)
        if m is None:
            raise AnalysisError("module %s vanished" % modname)
        self.consulted.add(m.rel)
        return m

    def cls(self, modname, clsname):
        c = self.module(modname).classes.get(clsname)
        if c is None:
            raise AnalysisError("class %s.%s vanished" % (modname, clsname))
        return c

    def func(self, modname, qual, kind=None):
        """qual: 'f' | 'Class.m' | 'Class.prop.setter' | 'Class.prop.getter'"""
        m = self.module(modname)
        parts = qual.split(".")
        if len(parts) == 1:
            f = m.functions.get(parts[0])
        else:
            c = m.classes.get(parts[0])
            if c is None:
                raise AnalysisError("class %s.%s vanished" % (modname, parts[0]))
            if len(parts) == 3 and parts[2] == "setter":
                f = c.setters.get(parts[1])
            elif len(parts) == 3 and parts[2] == "getter":
                f = c.getters.get(parts[1])
            else:
                f = c.methods.get(parts[1])
        if f is None:
            raise AnalysisError("function %s::%s vanished" % (modname, qual))
        return f

    def try_func(self, modname, qual):
        try:
            return self.func(modname, qual)
        except AnalysisError:
            return None

    # --------------------------------------------------------------- hierarchy
    def find_class(self, name, from_module=None):
        """Resolve a class name as seen from a module (import table first)."""
        if from_module is not None:
            if name in from_module.classes:
                return from_module.classes[name]
            tgt = from_module.imports.get(name.split(".")[0])
            if tgt:
                full = tgt + name[len(name.split(".")[0]):]
                modname, _, cname = full.rpartition(".")
                # ode_utils.CompileCanary -> pygom.model.ode_utils . CompileCanary
                for mn in (modname, modname + "." + cname):
                    mm = self.modules.get(mn)
                    if mm and cname in mm.classes:
                        return mm.classes[cname]
                    if mm:
                        # re-exported through an __init__
                        t2 = mm.imports.get(cname)
                        if t2:
                            m2, _, c2 = t2.rpartition(".")
                            if m2 in self.modules and c2 in self.modules[m2].classes:
                                return self.modules[m2].classes[c2]
        cands = [m.classes[name] for m in self.modules.values() if name in m.classes]
        if len(cands) == 1:
            return cands[0]
        return None

    def mro(self, cls):
        """Linearised ancestors (single inheritance in this package)."""
        out, seen = [], set()
        cur = cls
        while cur is not None and id(cur) not in seen:
            out.append(cur)
            seen.add(id(cur))
            nxt = None
            for b in cur.bases:
                if b in (None, "object"):
                    continue
                nxt = self.find_class(b, cur.module)
                if nxt is not None:
                    break
            cur = nxt
        return out

    def resolve_method(self, cls, name):
        for c in self.mro(cls):
            if name in c.methods:
                return c.methods[name]
        return None

    def resolve_getter(self, cls, name):
        for c in self.mro(cls):
            if name in c.getters:
                return c.getters[name]
        return None

    def resolve_setter(self, cls, name):
        for c in self.mro(cls):
            if name in c.setters:
                return c.setters[name]
        return None

    def all_methods(self, cls):
        """name -> FuncInfo over the MRO (most derived wins)."""
        out = {}
        for c in reversed(self.mro(cls)):
            out.update(c.methods)
        return out

    def all_funcs(self):
        for m in self.modules.values():
            for f in m.functions.values():
                yield f
            for c in m.classes.values():
                for f in list(c.methods.values()) + list(c.getters.values()) + list(c.setters.values()):
                    yield f


# ------------------------------------------------------------------ utilities
def norm(node):
    """Normalised text of a statement / expression (position independent)."""
    if node is None:
        return ""
    if isinstance(node, str):
        return " ".join(node.split())
    try:
        if isinstance(node, (ast.If, ast.While)):
            return ("if " if isinstance(node, ast.If) else "while ") + ast.unparse(node.test)
        if isinstance(node, ast.For):
            return "for %s in %s" % (ast.unparse(node.target), ast.unparse(node.iter))
        return " ".join(ast.unparse(node).split())
    except Exception:
        return "<%s>" % type(node).__name__


def is_self_attr(node, attr=None):
    return (isinstance(node, ast.Attribute) and isinstance(node.value, ast.Name)
            and node.value.id == "self" and (attr is None or node.attr == attr))


def call_name(node):
    """dotted callee of a Call, else None"""
    if isinstance(node, ast.Call):
        return _dotted(node.func)
    return None


def kwarg(call, name, pos=None, default=None):
    for k in call.keywords:
        if k.arg == name:
            return k.value
    if pos is not None and pos < len(call.args):
        a = call.args[pos]
        if not isinstance(a, ast.Starred):
            return a
    return default


def const_value(node, default=None):
    if isinstance(node, ast.Constant):
        return node.value
    if isinstance(node, ast.UnaryOp) and isinstance(node.op, ast.USub) and isinstance(node.operand, ast.Constant):
        return -node.operand.value
    return default


def walk_no_nested(node):
    """ast.walk that does not descend into nested function/class/lambda bodies."""
    todo = [node]
    first = True
    while todo:
        n = todo.pop()
        if not first and isinstance(n, (ast.FunctionDef, ast.AsyncFunctionDef, ast.ClassDef, ast.Lambda)):
            continue
        first = False
        yield n
        todo.extend(ast.iter_child_nodes(n))


def names_in(node):
    return {n.id for n in ast.walk(node) if isinstance(n, ast.Name)}


def self_attrs_in(node):
    return {n.attr for n in ast.walk(node) if is_self_attr(n)}
