"""E8 - intra-procedural abstract executor over finite abstract inputs.

One function body is interpreted by the checker (never by importing the repo) over
abstract values: python constants for control data (None / booleans / small ints /
strings that name things), opaque tokens `Tok` for everything numeric or symbolic,
`Obj` attribute bags for instances, and lists / tuples / dicts of those.  Calls are
never followed: every callee must have a *summary* supplied by the rule (a small
python function over abstract values) - the summaries themselves are obligations that
the rules verify separately on the callee's source.  The abstract input space of each
use is finite and enumerated completely, so a verdict is a statement about code
shape on every member of the class, not a sample.

Anything outside the modelled subset raises Undecided (exit 2), never a verdict.
"""
import ast
import re

from .algebra import Undecided
from .source import norm, dotted


class Tok:
    """opaque value; equality is identity of the label"""
    __slots__ = ("label", "kind")

    def __init__(self, label, kind="num"):
        self.label = label
        self.kind = kind      # num | sym | obj ...

    def __repr__(self):
        return "<%s>" % self.label

    def __eq__(self, o):
        if not isinstance(o, Tok) or o.label != self.label:
            return False
        # 'usym' = a symbol the *user* created with the same name as a model symbol (sympy symbols with different
        # assumptions - the model's are real=True - are different objects that compare unequal)
        if self.kind == "usym" or o.kind == "usym":
            return self.kind == o.kind
        return True

    def __hash__(self):
        return hash(("Tok", self.label))


class Obj:
    def __init__(self, cls, **attrs):
        self.cls = cls
        self.attrs = dict(attrs)

    def __repr__(self):
        return "<%s %s>" % (self.cls, self.attrs)


class AList(list):
    """a list with extra attributes (abstract numpy array: .size, .ravel())"""
    def __init__(self, items, tag, **extra):
        super().__init__(items)
        self.tag = tag
        self.extra = extra


CLASS_INFOS = {}       # abstract class name -> (repo, [ClassInfo]) : the real class(es) an abstract object stands for
CURRENT_REPO = [None]  # the Repo under analysis (set by register_class); used to resolve module-level names when inlining
INLINE_DEPTH = 8
INLINED = set()        # constructs (file::qualname) of package functions interpreted through inlining since the last clear()
_MISSING = object()
_FUNC_INDEX = {}       # id(repo) -> {id(FunctionDef node): FuncInfo}
_MODCONST = {}         # (id(repo), modname, name) -> value


def func_of_node(repo, node):
    idx = getattr(repo, "_func_index", None)
    if idx is None:
        idx = {id(f.node): f for f in repo.all_funcs()}
        repo._func_index = idx
    return idx.get(id(node))


CTOR_ATTRS = {}        # abstract class name -> {attribute assigned in the real __init__: ("const", value) | ("unknown", None)}
ENUM_VALUES = {}       # enum member identifier -> its value, when a rule read it from the class body
CLASS_METHODS = {}     # abstract class name -> names of methods / properties of the real class(es) it stands for


def register_class(name, repo, *classinfos):
    """an attribute of an abstract object that exists on the real class but has no summary is a modelling
    gap (Undecided), not an AttributeError of the analysed program"""
    names = CLASS_METHODS.setdefault(name, set())
    consts = CTOR_ATTRS.setdefault(name, {})
    CLASS_INFOS[name] = (repo, list(classinfos))
    CURRENT_REPO[0] = repo
    for ci in classinfos:
        for c in repo.mro(ci):
            names |= set(c.methods) | set(c.getters) | set(c.setters)
            init = c.methods.get("__init__")
            if init is None:
                continue
            seen = {}
            for n in ast.walk(init.node):
                if isinstance(n, ast.Assign):
                    for t in n.targets:
                        if isinstance(t, ast.Attribute) and isinstance(t.value, ast.Name) and t.value.id == "self":
                            seen.setdefault(t.attr, []).append(n.value)
            for attr, vals in seen.items():
                if attr in consts:
                    continue
                if len(vals) == 1 and isinstance(vals[0], ast.Constant) and (vals[0].value is None or isinstance(vals[0].value, (bool, int, float, str))):
                    consts[attr] = ("const", vals[0].value)
                else:
                    consts[attr] = ("unknown", None)


_NP_DTYPES = {}
for _p in ("np.", "numpy."):
    for _n, _k in (("intp", "int"), ("int64", "int"), ("int32", "int"), ("int_", "int"), ("float64", "float"), ("float32", "float"), ("float_", "float"),
                   ("double", "float"), ("bool_", "bool"), ("uint64", "int")):
        _NP_DTYPES[_p + _n] = "dtype:" + _k
_OPERATOR_FUNCS = {"operator.add": ast.Add, "operator.sub": ast.Sub, "operator.mul": ast.Mult, "operator.truediv": ast.Div, "operator.neg": "neg",
                   "operator.iadd": ast.Add, "operator.isub": ast.Sub, "operator.pos": "pos"}


_OPERATOR_CMP = {"operator.eq": ast.Eq, "operator.ne": ast.NotEq, "operator.lt": ast.Lt, "operator.le": ast.LtE, "operator.gt": ast.Gt, "operator.ge": ast.GtE,
                 "operator.is_": ast.Is, "operator.is_not": ast.IsNot, "operator.contains": None}
_OPERATOR_CMP.pop("operator.contains")
_STD_MODULES = ("itertools", "functools", "operator", "math", "copy", "collections")
_NOTHANDLED = object()
_BUILTIN_CALLABLES = ("map", "filter", "zip", "enumerate", "sorted", "reversed", "sum", "min", "max", "abs", "any", "all", "range", "set", "callable", "divmod", "print", "getattr", "hasattr")


class ExcVal:
    """the exception object bound by `except T as e`"""
    _abs_native = True
    _abs_absent = ()

    def __init__(self, name, label):
        self.name, self.label = name, label
        m = label[len(label.split("(")[0]):]
        self.args = (m[1:-1],) if m.startswith("(") and m.endswith(")") and len(m) > 2 else ()

    def __str__(self):
        return self.args[0] if self.args else ""

    def __repr__(self):
        return "ExcVal(%s)" % self.label


class TypeVal:
    """what type(x) hands back: a class known by its name"""
    _abs_native = True
    _abs_absent = ()

    def __init__(self, name):
        self.__name__ = name
        self.name = name

    def __eq__(self, o):
        return isinstance(o, TypeVal) and o.name == self.name

    def __hash__(self):
        return hash(("TypeVal", self.name))

    def __repr__(self):
        return "<class %s>" % self.name


def _raise(ex):
    raise ex


def _is_generator_function(fnode):
    todo = list(fnode.body)
    while todo:
        n = todo.pop()
        if isinstance(n, (ast.Yield, ast.YieldFrom)):
            return True
        if isinstance(n, (ast.FunctionDef, ast.AsyncFunctionDef, ast.Lambda, ast.ClassDef)):
            continue
        todo.extend(ast.iter_child_nodes(n))
    return False


def _exc_names(label):
    """'KeyError(x)' -> ['KeyError']; 'ode_utils.IntegrationError' -> ['IntegrationError']; 'KeyError/IndexError(..)' -> both"""
    head = str(label).split("(")[0].strip()
    return [h.strip().split(".")[-1] for h in head.split("/") if h.strip()] or ["Exception"]


def _builtin_exc(name):
    import builtins
    c = getattr(builtins, name, None)
    return c if isinstance(c, type) and issubclass(c, BaseException) else None


class NamedTup(tuple):
    """an instance of a collections.namedtuple class: a tuple whose items also answer to the field names"""
    _abs_native = True
    _abs_absent = ()

    def __new__(cls, typename, fields, values):
        self = tuple.__new__(cls, values)
        self._typename, self._fields = typename, tuple(fields)
        return self

    def __getattr__(self, name):
        fields = tuple.__getattribute__(self, "__dict__").get("_fields", ())
        if name in fields:
            return self[fields.index(name)]
        raise AttributeError(name)

    def _replace(self, **kw):
        return NamedTup(self._typename, self._fields, [kw.get(f, v) for f, v in zip(self._fields, self)])

    def _asdict(self):
        return dict(zip(self._fields, self))

    def __repr__(self):
        return "%s(%s)" % (self._typename, ", ".join("%s=%r" % fv for fv in zip(self._fields, self)))


class OneShot(list):
    """what a generator expression, zip(), map(), filter(), enumerate(), reversed() or iter() hands back: an iterator.  The items
    are computed eagerly (a limit of the interpreter) but can be taken only once - a second pass finds it empty, as in python; it
    has no len() and cannot be indexed"""
    spent = False

    def take(self):
        if self.spent:
            return []
        self.spent = True
        return list(self)


class BoundedCount(list):
    """itertools.count(): the first 5000 values; running off the end is a loop bound of the interpreter, not of the program"""


class Raised(Exception):
    def __init__(self, exc):
        self.exc = exc


_SIG_CACHE = {}
# keywords that change what a numpy / scipy routine computes or where it writes: a model that merely absorbs them in **k would
# silently compute something else
_MEANINGFUL_KW = {"out", "where", "axis", "axes", "keepdims", "initial", "weights", "side", "sorter", "ddof", "mode", "casting", "minlength",
                  "return_index", "return_inverse", "return_counts", "endpoint", "k", "loc", "scale", "size", "random_state", "density", "range", "bins",
                  "left", "right", "period", "rowvar", "bias", "fweights", "aweights", "decimals", "a_min", "a_max", "rtol", "atol", "equal_nan"}


def _swallowed_keywords(fn, kw):
    """keywords of this call that the model would absorb in a **k it never looks at"""
    import inspect
    import dis
    key = getattr(fn, "__func__", fn)
    try:
        info = _SIG_CACHE.get(key)
    except TypeError:
        return set()
    if info is None:
        info = (set(), False)
        try:
            sig = inspect.signature(fn)
            named = {n for n, p in sig.parameters.items() if p.kind in (p.POSITIONAL_OR_KEYWORD, p.KEYWORD_ONLY)}
            varkw = [n for n, p in sig.parameters.items() if p.kind == p.VAR_KEYWORD]
            code = getattr(key, "__code__", None)
            ignores = False
            if varkw and code is not None:
                # a model that reads its **k (k.get("dtype"), records kw, passes **kw on) implements the keywords it is given
                ignores = not any(ins.opname in ("LOAD_FAST", "LOAD_DEREF", "LOAD_CLOSURE", "LOAD_FAST_CHECK", "LOAD_FAST_AND_CLEAR") and ins.argval == varkw[0]
                                  for ins in dis.get_instructions(code)) and varkw[0] not in code.co_cellvars
            info = (named, ignores)
        except (TypeError, ValueError):
            pass
        try:
            _SIG_CACHE[key] = info
        except TypeError:
            pass
    named, ignores = info
    if not ignores:
        return set()
    return {k for k in kw if k not in named and k in _MEANINGFUL_KW}


def _lib(fn, args, kw):
    """call a library model; errors the modelled library raises become exceptions of the analysed program, a call the model's
    signature cannot bind is a modelling gap"""
    if kw:
        swallowed = _swallowed_keywords(fn, kw)
        if swallowed:
            raise Undecided("the library model %s does not implement the keyword%s %s" % (
                getattr(fn, "__name__", "?"), "s" if len(swallowed) > 1 else "", ", ".join(sorted(swallowed))))
    try:
        return fn(*args, **kw)
    except (ValueError, IndexError, ZeroDivisionError, OverflowError) as ex:
        raise Raised("%s(%s)" % (type(ex).__name__, ex))
    except TypeError as ex:
        msg = str(ex)
        if any(k in msg for k in ("positional argument", "unexpected keyword", "required positional", "multiple values for", "required keyword")):
            raise Undecided("library model cannot bind this call: %s" % msg)
        raise Raised("TypeError(%s)" % msg)


class _Ret(Exception):
    def __init__(self, v):
        self.v = v


class _Break(Exception):
    pass


class _Continue(Exception):
    pass


class Abs:
    """abstract executor.  `types`: {type name: predicate(value)} for isinstance;
    `summaries`: {dotted callee: fn(*args, **kw)}; `self_obj`: Obj bound to `self`;
    `getters`: {attr: fn(self_obj)} for properties of self"""

    def __init__(self, env=None, types=None, summaries=None, self_obj=None, getters=None, budget=20000, eq=None):
        self.eq = eq          # optional fn(a, b) -> bool | None for user-defined __eq__ of Obj values
        self.class_methods = set()   # names that exist as methods/properties of self's real class: unsummarised use = Undecided
        self.env = dict(env or {})
        self.types = types or {}
        self.summaries = summaries or {}
        self.self_obj = self_obj
        self.getters = getters or {}
        self.budget = budget
        self.consts = {}      # dotted library name -> abstract value (e.g. np.random -> generator object)
        self.self_class = None  # (repo, ClassInfo): the concrete class of self_obj when its abstract class name stands for several
        self.module = None    # source Module of the code being interpreted (resolution of module-level names)
        self.depth = 0        # inlining depth
        if self_obj is not None:
            self.env["self"] = self_obj

    # ------------------------------------------------------------ expressions
    def ev(self, e):
        self.budget -= 1
        if self.budget < 0:
            raise Undecided("abstract execution budget exhausted")
        if isinstance(e, ast.Constant):
            return e.value
        if isinstance(e, ast.Name):
            if e.id in self.env:
                return self.env[e.id]
            if e.id in self.consts:
                return self.consts[e.id]
            if e.id in self.summaries or e.id in self.types:
                return ("callable", e.id)
            if e.id in ("str", "int", "float", "list", "tuple", "dict", "bool", "len", "type", "Exception"):
                return ("callable", e.id)
            if e.id in ("True", "False", "None"):
                return {"True": True, "False": False, "None": None}[e.id]
            if e.id in self.consts:
                return self.consts[e.id]
            g = self._global(e.id)
            if g is not _MISSING:
                return g
            cn = self._canon(e.id)
            if cn != e.id:
                return ("callable", cn)         # a standard-library callable imported by name (from itertools import product)
            if e.id in _BUILTIN_CALLABLES:
                return ("callable", e.id)
            if e.id in ("object", "set", "frozenset", "complex", "bytes"):
                return ("callable", e.id)
            if e.id in getattr(self, "_unbound", ()):
                raise Raised("UnboundLocalError(cannot access local variable %s where it is not associated with a value)" % e.id)
            raise Undecided("unbound name %s" % e.id)
        if isinstance(e, (ast.List, ast.Tuple)):
            vals = []
            for x in e.elts:
                if isinstance(x, ast.Starred):
                    vals.extend(self.ev(x.value))
                else:
                    vals.append(self.ev(x))
            return vals if isinstance(e, ast.List) else tuple(vals)
        if isinstance(e, ast.Dict):
            out = {}
            for k, v in zip(e.keys, e.values):
                if k is None:                   # {**other}
                    other = self.ev(v)
                    if not isinstance(other, dict):
                        if other is None or isinstance(other, (bool, int, float, list, tuple, str)):
                            raise Raised("TypeError(%s object is not a mapping)" % type(other).__name__)
                        raise Undecided("** of %r in a dict display" % (other,))
                    out.update(other)
                else:
                    out[self._key(self.ev(k))] = self.ev(v)
            return out
        if isinstance(e, ast.Attribute):
            dn = dotted(e)
            if dn in self.consts:
                return self.consts[dn]
            if dn in ("np.pi", "numpy.pi", "math.pi"):
                from .algebra import sym as _sym
                return _sym("pi")
            if dn in ("sympy.S.Zero", "S.Zero", "sympy.S.One", "S.One", "sympy.S.Half", "S.Half", "sympy.S.NegativeOne", "S.NegativeOne") and dn.split(".")[0] not in self.env:
                from .algebra import Rat as _Rat
                from fractions import Fraction as _Fr
                return _Rat.const({"Zero": 0, "One": 1, "Half": _Fr(1, 2), "NegativeOne": -1}[dn.rsplit(".", 1)[1]])
            if dn in ("np.inf", "numpy.inf", "math.inf", "np.Inf"):
                return float("inf")
            if dn in ("np.newaxis", "numpy.newaxis"):
                return None
            if dn in _NP_DTYPES and dn not in self.summaries:
                return _NP_DTYPES[dn]
            if dn in ("np.nan", "numpy.nan", "math.nan"):
                return float("nan")
            if dn in self.summaries:
                return ("callable", dn)
            if dn in ("str.lower", "str.upper", "str.strip", "str.title", "str.casefold") and "str" not in self.env:
                return ("py", (lambda v, _m=dn.split(".")[1]: getattr(v, _m)() if isinstance(v, str) else _raise(Raised("TypeError(descriptor requires a str)"))))
            if dn is not None:
                cn = self._canon(dn)
                if cn in _OPERATOR_FUNCS:
                    return ("py", (lambda *a, _dn=cn: self._operator(_dn, list(a))))
                if cn.split(".")[0] in ("itertools", "functools", "operator") and cn.split(".")[0] not in self.env and cn not in self.summaries:
                    return ("callable", cn)
            if dn is not None and not self._const_rooted(dn):
                if dn in self.types:
                    return ("callable", dn)
                if isinstance(e.value, ast.Name) and e.value.id not in self.env and self._is_library(e.value.id):
                    raise Undecided("no summary for %s" % dn)
            base = self.ev(e.value)
            if getattr(base, "_abs_native", False):
                try:
                    v = getattr(base, e.attr)
                except AttributeError:
                    # an attribute the *model* of a library object does not have: the real object may well have it - a modelling gap,
                    # unless the model names it as absent on the real thing
                    if e.attr in getattr(base, "_abs_absent", ()):
                        raise Raised("AttributeError(%s)" % e.attr)
                    raise Undecided("attribute %s of the %s model is not modelled" % (e.attr, type(base).__name__))
                return ("py", v) if callable(v) and not getattr(v, "_abs_native", False) else v
            return self.getattr(base, e.attr, e)
        if isinstance(e, ast.Subscript):
            base = self.ev(e.value)
            if getattr(base, "_abs_native", False):
                try:
                    return base[self._native_key(e.slice)]
                except IndexError as ex:
                    raise Raised("IndexError(%s)" % ex)
                except TypeError as ex:
                    if "slice indices must be integers" in str(ex):
                        raise Raised("TypeError(%s)" % ex)
                    raise
            if isinstance(base, OneShot):
                raise Raised("TypeError(an iterator (generator / zip / map / filter / enumerate / reversed) is not subscriptable)")
            if isinstance(e.slice, ast.Slice):
                lo = self.ev(e.slice.lower) if e.slice.lower is not None else None
                hi = self.ev(e.slice.upper) if e.slice.upper is not None else None
                st = self.ev(e.slice.step) if e.slice.step is not None else None
                if isinstance(base, (list, tuple, str)):
                    if any(isinstance(v, (Tok, Obj)) for v in (lo, hi, st)):
                        raise Undecided("slice bounds %r" % ((lo, hi, st),))
                    try:
                        return base[lo:hi:st]
                    except (TypeError, ValueError) as ex:
                        raise Raised("%s(%s)" % (type(ex).__name__, ex))
                raise Undecided("slice of %r" % (base,))
            k = self.ev(e.slice)
            try:
                if isinstance(base, dict):
                    return base[self._key(k)]
                if isinstance(base, (list, tuple, str)):
                    return base[k]
            except (KeyError, IndexError, TypeError) as ex:
                raise Raised("%s(%s)" % (type(ex).__name__, ex))
            raise Undecided("subscript of %r" % (base,))
        if isinstance(e, ast.UnaryOp):
            v = self.ev(e.operand)
            if isinstance(e.op, ast.Not):
                return not self.truth(v)
            if isinstance(e.op, ast.Invert) and getattr(v, "_abs_native", False):
                return ~v
            if isinstance(e.op, ast.USub) and (isinstance(v, (int, float)) or getattr(v, "_abs_native", False) or type(v).__name__ == "Rat"):
                return -v
            raise Undecided("unary op on %r" % (v,))
        if isinstance(e, ast.BoolOp):
            if isinstance(e.op, ast.And):
                v = True
                for x in e.values:
                    v = self.ev(x)
                    if not self.truth(v):
                        return v
                return v
            v = False
            for x in e.values:
                v = self.ev(x)
                if self.truth(v):
                    return v
            return v
        if isinstance(e, ast.Compare):
            left = self.ev(e.left)
            for op, c in zip(e.ops, e.comparators):
                right = self.ev(c)
                r = self.compare(op, left, right)
                if (isinstance(r, list) or getattr(r, "_abs_native", False)) and len(e.ops) == 1:
                    return r          # element-wise comparison of an abstract array
                if not r:
                    return False
                left = right
            return True
        if isinstance(e, ast.BinOp):
            a, b = self.ev(e.left), self.ev(e.right)
            return self.binop(e.op, a, b)
        if isinstance(e, ast.IfExp):
            return self.ev(e.body) if self.truth(self.ev(e.test)) else self.ev(e.orelse)
        if isinstance(e, (ast.Yield, ast.YieldFrom)):
            ys = getattr(self, "_yields", None)
            if ys is None:
                raise Undecided("yield outside a generator function the interpreter entered")
            if isinstance(e, ast.Yield):
                ys.append(self.ev(e.value) if e.value is not None else None)
            else:
                ys.extend(self._iter(self.ev(e.value)))
            return None             # nothing is ever sent into these generators
        if isinstance(e, ast.NamedExpr):
            v = self.ev(e.value)
            self.env[e.target.id] = v          # binds in the enclosing function scope, also from inside a comprehension
            self._walrus = getattr(self, "_walrus", set()) | {e.target.id}
            return v
        if isinstance(e, ast.Call):
            return self.call(e)
        if isinstance(e, ast.GeneratorExp):
            return OneShot(self._comp(e, 0, []))
        if isinstance(e, (ast.ListComp, ast.SetComp)):
            return self._comp(e, 0, [])
        if isinstance(e, ast.DictComp):
            out = {}
            saved = dict(self.env)
            g = e.generators[0]
            for item in self._iter(self.ev(g.iter)):
                self._bind(g.target, item)
                if all(self.truth(self.ev(c)) for c in g.ifs):
                    out[self._key(self.ev(e.key))] = self.ev(e.value)
            self.env = saved
            return out
        if isinstance(e, ast.Lambda):
            # python semantics: free variables are looked up when the lambda is *called* (late binding, the live scope is kept),
            # default values are evaluated when it is *created*
            a = e.args
            names = [x.arg for x in a.posonlyargs + a.args]
            dvals = {n: self.ev(d) for n, d in zip(names[len(names) - len(a.defaults):], a.defaults)}
            for x, d in zip(a.kwonlyargs, a.kw_defaults):
                if d is not None:
                    dvals[x.arg] = self.ev(d)
            return ("lambda", e, self.env, dvals)
        if isinstance(e, ast.JoinedStr):
            # the text for real when every interpolated value has a known text form, an opaque marker otherwise (messages)
            parts = []
            for v in e.values:
                if isinstance(v, ast.Constant):
                    parts.append(str(v.value))
                    continue
                if not isinstance(v, ast.FormattedValue) or v.format_spec is not None:
                    return "<formatted>"
                try:
                    val = self.ev(v.value)
                except Undecided:
                    return "<formatted>"
                txt = self._text(val)
                if txt is None:
                    return "<formatted>"
                parts.append(repr(txt) if v.conversion == ord("r") and isinstance(val, str) else txt)
            return "".join(parts)
        raise Undecided("expression %s" % type(e).__name__)

    def _native_key(self, sl):
        def one(x):
            if isinstance(x, ast.Slice):
                return slice(self.ev(x.lower) if x.lower is not None else None,
                             self.ev(x.upper) if x.upper is not None else None,
                             self.ev(x.step) if x.step is not None else None)
            v = self.ev(x)
            if isinstance(v, range):
                v = list(v)
            return v
        if isinstance(sl, ast.Tuple):
            return tuple(one(x) for x in sl.elts)
        return one(sl)

    def _comp(self, e, gi, acc):
        if gi == len(e.generators):
            acc.append(self.ev(e.elt))
            return acc
        g = e.generators[gi]
        saved = dict(self.env)
        for item in self._iter(self.ev(g.iter)):
            self._bind(g.target, item)
            if all(self.truth(self.ev(c)) for c in g.ifs):
                self._comp(e, gi + 1, acc)
        keep = {n: self.env[n] for n in getattr(self, "_walrus", ()) if n in self.env}
        self.env = saved
        self.env.update(keep)
        return acc

    def _key(self, k):
        if isinstance(k, list):
            return tuple(k)
        return k

    def _iter(self, v):
        if isinstance(v, OneShot):
            return v.take()
        if isinstance(v, dict):
            return list(v.keys())
        if isinstance(v, (list, tuple, str, range)):
            return list(v)
        if getattr(v, "_abs_native", False):
            return list(v)
        if v is None or isinstance(v, (bool, int, float)):
            raise Raised("TypeError(%s object is not iterable)" % type(v).__name__)
        raise Undecided("iteration over %r" % (v,))

    def truth(self, v):
        if isinstance(v, OneShot):
            return True             # an iterator object is true whether or not anything is left in it
        if isinstance(v, Tok):
            raise Undecided("truth value of opaque %r" % v)
        if isinstance(v, Obj):
            return True
        try:
            return bool(v)
        except ValueError as ex:           # numpy: the truth value of an array with more than one element is ambiguous
            raise Raised("ValueError(%s)" % ex)

    def compare(self, op, a, b):
        try:
            return self._compare(op, a, b)
        except ValueError as ex:
            if getattr(a, "_abs_native", False) or getattr(b, "_abs_native", False):
                raise Raised("ValueError(%s)" % ex)     # e.g. operands could not be broadcast together
            raise

    def _compare(self, op, a, b):
        if isinstance(op, ast.Is):
            return a is b or ((a is None or isinstance(a, bool)) and type(a) is type(b) and a == b)
        if isinstance(op, ast.IsNot):
            return not self._compare(ast.Is(), a, b)
        if isinstance(op, ast.In):
            if isinstance(b, dict):
                return self._key(a) in b
            if isinstance(b, (list, tuple, str)):
                if isinstance(b, str):
                    return a in b
                return any(self.compare(ast.Eq(), a, y) for y in b)
            if isinstance(b, (set, frozenset)):
                return any(self.compare(ast.Eq(), a, y) for y in b)
            raise Undecided("membership in %r" % (b,))
        if isinstance(op, ast.NotIn):
            return not self.compare(ast.In(), a, b)
        if type(a).__name__ in ("SymArr", "SymMat", "CMat") or type(b).__name__ in ("SymArr", "SymMat", "CMat") or hasattr(a, "compare") or hasattr(b, "compare"):
            # symbolic arrays compare element-wise (numpy), giving a boolean array
            flip = {"Lt": "Gt", "LtE": "GtE", "Gt": "Lt", "GtE": "LtE", "Eq": "Eq", "NotEq": "NotEq"}
            nm = type(op).__name__
            if nm in flip and not isinstance(a, (Tok, Obj)) and not isinstance(b, (Tok, Obj)) and a is not None and b is not None:
                try:
                    return a.compare(b, nm) if hasattr(a, "compare") else b.compare(a, flip[nm])
                except ValueError as ex:
                    raise Raised("ValueError(%s)" % ex)
        if getattr(a, "_abs_native", False) or getattr(b, "_abs_native", False):
            import operator as _op
            table = {ast.Eq: _op.eq, ast.NotEq: _op.ne, ast.Lt: _op.lt, ast.LtE: _op.le, ast.Gt: _op.gt, ast.GtE: _op.ge}
            fn = table.get(type(op))
            if fn is not None and (hasattr(type(a), "_bin") and type(a).__name__ == "NumArr" or type(b).__name__ == "NumArr"):
                return fn(a, b)
        if isinstance(op, (ast.Eq, ast.NotEq)):
            if self.eq is not None and (isinstance(a, (Obj, Tok)) or isinstance(b, (Obj, Tok))):
                r = self.eq(a, b)
                if r is not None:
                    return r if isinstance(op, ast.Eq) else not r
            if isinstance(a, Tok) or isinstance(b, Tok):
                if isinstance(a, Tok) and isinstance(b, Tok):
                    r = a == b
                elif a is None or b is None or isinstance(a, (bool, str)) or isinstance(b, (bool, str)):
                    r = False
                else:
                    raise Undecided("comparison of opaque value with %r" % (b if isinstance(a, Tok) else a,))
            else:
                r = a == b
            return r if isinstance(op, ast.Eq) else not r
        if isinstance(a, Tok) or isinstance(b, Tok):
            raise Undecided("ordering of opaque value")
        try:
            if isinstance(op, ast.Lt):
                return a < b
            if isinstance(op, ast.LtE):
                return a <= b
            if isinstance(op, ast.Gt):
                return a > b
            if isinstance(op, ast.GtE):
                return a >= b
        except TypeError:
            raise Raised("TypeError")
        raise Undecided("comparison operator")

    def binop(self, op, a, b):
        if isinstance(a, Tok) or isinstance(b, Tok):
            return Tok("(%r%s%r)" % (a, type(op).__name__, b))
        if isinstance(op, (ast.BitAnd, ast.BitOr)) and (getattr(a, "_abs_native", False) or getattr(b, "_abs_native", False)):
            return (a & b) if isinstance(op, ast.BitAnd) else (a | b)
        if isinstance(op, ast.MatMult):
            from .symarr import dot as _dot
            return _dot(a, b)
        try:
            if isinstance(op, ast.Add):
                return a + b
            if isinstance(op, ast.Sub):
                return a - b
            if isinstance(op, ast.Mult):
                return a * b
            if isinstance(op, ast.Mod):
                if isinstance(a, str):
                    return self._format(a, b)
                return a % b
            if isinstance(op, ast.Div):
                return a / b
            if isinstance(op, ast.FloorDiv):
                return a // b
            if isinstance(op, ast.Pow):
                return a ** b
        except TypeError:
            if getattr(a, "_abs_native", False) or getattr(b, "_abs_native", False) or type(a).__name__ == "Rat" or type(b).__name__ == "Rat":
                raise Undecided("operator %s between %s and %s is not modelled" % (type(op).__name__, type(a).__name__, type(b).__name__))
            raise Raised("TypeError")
        except (ValueError, ZeroDivisionError, OverflowError) as e:
            raise Raised("%s(%s)" % (type(e).__name__, e))
        raise Undecided("binary operator %s" % type(op).__name__)

    def _text(self, v):
        """str(v) for the values whose text form the interpreter can stand behind, else None"""
        if isinstance(v, bool) or v is None or isinstance(v, (int, float, str)):
            return str(v)
        if type(v).__name__ == "Rat":
            from .algebra import pystr
            return pystr(v)
        if isinstance(v, Tok) and v.kind in ("sym", "usym"):
            return v.label
        if isinstance(v, Obj) and "__str__" in v.attrs:
            return v.attrs["__str__"]
        return None

    def _format(self, fmt, arg):
        """'...%s...' % values, computed for real when every value has a known text form (code that builds source text and evaluates
        it again); an opaque marker otherwise (messages)"""
        vals = list(arg) if isinstance(arg, tuple) else [arg]
        if all(v is None or (isinstance(v, (bool, int, float, str)) and "<formatted>" not in str(v)) for v in vals) and "<formatted>" not in fmt:
            try:
                return fmt % arg            # plain python values: python's own result - or python's own error
            except (TypeError, ValueError) as ex:
                raise Raised("%s(%s)" % (type(ex).__name__, ex))
        texts = [self._text(v) for v in vals]
        if any(t is None for t in texts) or "%(" in fmt:
            return "<formatted>"
        try:
            import re as _re
            specs = _re.findall(r"%[-#0 +]*\d*(?:\.\d+)?[sdrfgeiG%]", fmt)
            conv = []
            k = 0
            for sp in specs:
                if sp == "%%":
                    continue
                v = vals[k]
                conv.append(texts[k] if sp[-1] in "sr" else v)
                k += 1
            return fmt % tuple(conv)
        except (TypeError, ValueError, IndexError):
            return "<formatted>"

    def _run_source(self, text, mode, env=None):
        """exec / eval of source text built by the analysed code, in the current local namespace"""
        if not isinstance(text, str) or "<formatted>" in text or "<fstring>" in text:
            raise Undecided("exec/eval of text the interpreter could not reconstruct")
        try:
            tree = ast.parse(text.strip(), mode="eval" if mode == "eval" else "exec")
        except SyntaxError as ex:
            raise Raised("SyntaxError(%s)" % ex)
        if env is not None:
            saved = self.env
            self.env = dict(env)
            try:
                return self.ev(tree.body) if mode == "eval" else self.run(tree.body)
            finally:
                self.env = saved
        if mode == "eval":
            return self.ev(tree.body)
        self.run(tree.body)
        return None

    def getattr(self, base, attr, node=None):
        if isinstance(base, Obj):
            if base is self.self_obj and attr in self.getters:
                return self.getters[attr](base)
            if attr in base.attrs:
                v = base.attrs[attr]
                if isinstance(v, tuple) and len(v) == 2 and isinstance(v[0], str) and v[0] == "alias":
                    return base.attrs.get(v[1])      # read-only property over another attribute
                return v
            m = "%s.%s" % (base.cls, attr)
            if m in self.summaries:
                return ("bound", m, base)
            if base.attrs.get("__open__"):
                return ("method", attr)      # any other attribute of an open object is an opaque bound method
            if (base is self.self_obj and attr in self.class_methods) or attr in CLASS_METHODS.get(base.cls, ()):
                fi, kind = self._real_member(base.cls, attr, base)
                if fi is not None and kind == "method":
                    return ("imeth", fi, base)
                if fi is not None and kind == "getter":
                    return self._inline(fi, base, [], {})
                raise Undecided("no summary for %s.%s" % (base.cls, attr))
            if base is self.self_obj and self.self_class is not None and not attr.startswith("__"):
                ga = self.self_class[0].resolve_method(self.self_class[1], "__getattr__")
                if ga is not None:
                    return self._inline(ga, base, [attr], {})      # the class's own fall-back for attributes that are not found
            ca = CTOR_ATTRS.get(base.cls, {}).get(attr)
            if ca is not None:
                # the real constructor sets this attribute; the rule's abstract object did not provide it
                if ca[0] == "const":
                    return ca[1]
                raise Undecided("attribute %s.%s is set by the constructor but not provided by the rule's abstract object" % (base.cls, attr))
            raise Raised("AttributeError(%s.%s)" % (base.cls, attr))
        if isinstance(base, dict) and attr in ("items", "keys", "values", "get", "update", "copy", "setdefault", "pop"):
            return ("dictm", attr, base)
        if isinstance(base, AList) and attr in base.extra:
            v = base.extra[attr]
            return ("bound", v[1], base) if isinstance(v, tuple) and v and isinstance(v[0], str) and v[0] == "method" else v
        if isinstance(base, list) and attr in ("append", "extend", "index", "copy", "tolist", "pop", "insert", "remove", "reverse", "count", "sort", "clear"):
            return ("listm", attr, base)
        if isinstance(base, str) and attr in ("strip", "lower", "upper", "split", "format", "join", "startswith", "endswith", "replace"):
            return ("strm", attr, base)
        if isinstance(base, tuple) and len(base) == 2 and isinstance(base[0], str) and base[0] == "pymodule":
            sub = self._sub({}, None, base[1])
            g = sub._global(attr)
            if g is _MISSING:
                if attr in base[1].classes:
                    raise Undecided("class %s.%s used as a value" % (base[1].modname, attr))
                raise Raised("AttributeError(module %s has no attribute %s)" % (base[1].modname, attr))
            return g
        if isinstance(base, tuple) and base and isinstance(base[0], str) and base[0] in ("closure", "lambda", "func", "py") and attr == "__get__":
            return ("py", lambda obj, *a: ("boundclosure", base, obj))      # a function bound to an instance
        if isinstance(base, tuple) and attr in ("index", "count"):
            return ("listm", attr, list(base))
        if isinstance(base, Tok) and base.kind == "enum" and attr in ("name", "value"):
            if attr == "name":
                return base.label          # enum members: .name is the member's identifier
            if base.label in ENUM_VALUES:
                return ENUM_VALUES[base.label]
            raise Undecided("value of the enum member %s" % base.label)
        if isinstance(base, Tok):
            return Tok("%s.%s" % (base.label, attr))
        if type(base).__name__ == "Rat":
            from .algebra import sym as _sym
            if attr in ("is_real", "is_Symbol", "is_number"):
                return {"is_real": True, "is_Symbol": len(base.num) == 1 and base.den == {(): 1} and list(base.num.values()) == [1] and len(list(base.num)[0]) == 1 and list(base.num)[0][0][1] == 1,
                        "is_number": base.is_const()}[attr]
            if attr == "subs":
                from .algebra import substitute as _subst

                def subs(*a, **k):
                    pairs = list(a[0].items()) if len(a) == 1 and isinstance(a[0], dict) else [a[:2]] if len(a) == 2 else list(a[0]) if len(a) == 1 else None
                    if pairs is None:
                        raise Undecided("form of subs()")
                    out = base
                    for key, val in pairs:
                        nm = key if isinstance(key, str) else key.label if isinstance(key, Tok) else self._text(key)
                        if isinstance(val, Tok):
                            val = _sym(val.label)
                        out = _subst(out, nm, val)
                    return out
                return ("py", subs)
            if attr in ("atoms", "free_symbols", "has", "subs", "expand", "simplify"):
                syms = [_sym(a[1]) for a in base.atoms() if a[0] == "sym"]
                if attr == "free_symbols":
                    return syms
                if attr == "atoms":
                    return ("py", lambda *a, **k: list(syms))
                if attr == "has":
                    return ("py", lambda *a: any(base.depends_on(x.atoms().__iter__().__next__()[1]) for x in a if type(x).__name__ == "Rat" and x.atoms()))
                if attr in ("expand", "simplify"):
                    return ("py", lambda *a, **k: base)
                raise Undecided("method %s of a symbolic expression is not modelled" % attr)
        if isinstance(base, (list, dict, str, tuple)):
            if attr in ("size", "shape", "ravel", "flatten", "tolist") and not isinstance(base, AList):
                raise Raised("AttributeError(%s on a python %s)" % (attr, type(base).__name__))
            raise Undecided("method %s of %s is not modelled" % (attr, type(base).__name__))
        raise Raised("AttributeError(%s on %r)" % (attr, base))

    def call(self, e):
        dn = dotted(e.func)
        if dn == "isinstance" and len(e.args) == 2:
            return self.isinstance(self.ev(e.args[0]), e.args[1])
        args = []
        for a in e.args:
            if isinstance(a, ast.Starred):
                args.extend(self._iter(self.ev(a.value)))
            else:
                args.append(self.ev(a))
        kw = {}
        for k in e.keywords:
            if k.arg is None:
                extra = self.ev(k.value)
                if isinstance(extra, dict):
                    kw.update(extra)
                elif hasattr(extra, "keys") and hasattr(extra, "__getitem__"):
                    kw.update({kk: extra[kk] for kk in extra.keys()})
                elif extra is None or isinstance(extra, (bool, int, float, str, list, tuple)):
                    raise Raised("TypeError(argument after ** must be a mapping, not %s)" % type(extra).__name__)
                else:
                    raise Undecided("** of %r in a call" % (extra,))
            else:
                kw[k.arg] = self.ev(k.value)
        if dn in self.summaries:
            return _lib(self.summaries[dn], args, kw)
        if isinstance(e.func, ast.Attribute) and isinstance(e.func.value, ast.Call) and dotted(e.func.value.func) == "super":
            return self._super_call(e.func.value, e.func.attr, args, kw)
        if dn == "isinstance":
            return self.isinstance(args[0], e.args[1])
        dn = self._canon(dn)
        if dn in self.summaries:
            return _lib(self.summaries[dn], args, kw)
        r = self._dispatch(dn, args, kw)
        if r is not _NOTHANDLED:
            return r
        f = self.ev(e.func)
        return self.apply(f, args, kw)

    def _canon(self, dn):
        """`product` / `_reduce` / `it.chain`: a name the module imported from the standard library, under the library's own name"""
        if dn is None:
            return dn
        root, _, rest = dn.partition(".")
        if root in self.env or self.module is None:
            return dn
        tgt = self.module.imports.get(root)
        if tgt and tgt.split(".")[0] in _STD_MODULES:
            return tgt + ("." + rest if rest else "")
        return dn

    def _dispatch(self, dn, args, kw):
        """built-in and standard-library callables by their (canonical) name; _NOTHANDLED when the name is none of them"""
        if dn == "len":
            if isinstance(args[0], OneShot):
                raise Raised("TypeError(object of type 'generator' has no len())")
            if isinstance(args[0], (list, tuple, dict, str)):
                return len(args[0])
            if isinstance(args[0], Obj) and "__len__" in args[0].attrs:
                return args[0].attrs["__len__"]
            if getattr(args[0], "_abs_native", False):
                return len(args[0])
            raise Raised("TypeError(len)")
        if dn == "range":
            if any(isinstance(a, (Tok, Obj)) or getattr(a, "_abs_native", False) for a in args):
                raise Undecided("range over %r" % (args,))
            try:
                return list(range(*args))
            except (TypeError, ValueError) as ex:
                raise Raised("%s(%s)" % (type(ex).__name__, ex))
        if dn == "bool" and len(args) == 1:
            return self.truth(args[0])
        if dn == "divmod" and len(args) == 2 and dn not in self.env:
            if all(isinstance(a, (int, float)) and not isinstance(a, bool) for a in args):
                try:
                    return divmod(*args)
                except ZeroDivisionError as ex:
                    raise Raised("ZeroDivisionError(%s)" % ex)
            raise Undecided("divmod of %r" % (args,))
        if dn == "object" and not args:
            self._obj_counter = getattr(self, "_obj_counter", 0) + 1
            return Tok("object#%d" % self._obj_counter, "obj")
        if dn in _OPERATOR_FUNCS:
            return self._operator(dn, args)
        if dn == "itertools.count" and len(args) <= 2:
            start = args[0] if args else 0
            step = args[1] if len(args) > 1 else 1
            return BoundedCount(start + i * step for i in range(5000))
        if dn == "itertools.product":
            import itertools as _it
            seqs = [self._iter(a) for a in args]
            return [tuple(t) for t in _it.product(*seqs, repeat=kw.get("repeat", 1))]
        if dn == "enumerate":
            return OneShot((i, x) for i, x in enumerate(self._iter(args[0]), *([args[1]] if len(args) > 1 else [kw["start"]] if "start" in kw else [])))
        if dn == "zip":
            return OneShot(tuple(t) for t in zip(*[self._iter(a) for a in args]))
        if dn == "iter" and len(args) == 1:
            return args[0] if isinstance(args[0], OneShot) else OneShot(self._iter(args[0]))
        if dn == "next" and len(args) in (1, 2) and isinstance(args[0], OneShot):
            it = args[0]
            if it.spent or not len(it):
                it.spent = True
                if len(args) == 2:
                    return args[1]
                raise Raised("StopIteration()")
            return it.pop(0)
        if dn == "list":
            return list(self._iter(args[0])) if args else []
        if dn == "tuple":
            return tuple(self._iter(args[0])) if args else ()
        if dn == "dict":
            if not args:
                return dict(kw)
            return {self._key(k): v for k, v in (args[0].items() if isinstance(args[0], dict) else args[0])}
        if dn == "exec" and dn not in self.summaries and 1 <= len(args) <= 3:
            self._run_source(args[0], "exec", args[2] if len(args) == 3 else args[1] if len(args) == 2 and isinstance(args[1], dict) else None)
            return None
        if dn == "eval" and dn not in self.summaries and 1 <= len(args) <= 3:
            return self._run_source(args[0], "eval", args[2] if len(args) == 3 else args[1] if len(args) == 2 and isinstance(args[1], dict) else None)
        if dn == "locals" and not args:
            return dict(self.env)
        if dn == "str" and args and type(args[0]).__name__ == "Rat":
            return self._text(args[0])
        if dn == "str":
            v = args[0]
            if isinstance(v, Tok) and v.kind in ("sym", "usym"):
                return v.label
            if isinstance(v, Obj) and "__str__" in v.attrs:
                return v.attrs["__str__"]
            return str(v)
        if dn == "type":
            v = args[0]
            if isinstance(v, ExcVal):
                return TypeVal(v.name)
            if v is None or isinstance(v, (bool, int, float, str, list, tuple, dict)) and not isinstance(v, (OneShot, NamedTup)):
                return TypeVal("NoneType" if v is None else type(v).__name__)
            return Tok("type(%r)" % (args[0],))
        if dn == "hasattr":
            o, a = args
            if isinstance(o, Obj):
                return a in o.attrs or (o is self.self_obj and a in self.getters)
            if getattr(o, "_abs_native", False) and isinstance(a, str):
                return hasattr(o, a)
            if isinstance(o, (list, tuple, dict, str)) and not isinstance(o, (OneShot, NamedTup)) and isinstance(a, str):
                return hasattr(o, a)
            if a == "__len__":
                return isinstance(o, (list, tuple, dict, str))
            if a == "__iter__":
                return isinstance(o, (list, tuple, dict, str))
            return False
        if dn == "getattr" and len(args) in (2, 3):
            o, a = args[0], args[1]
            if getattr(o, "_abs_native", False) and isinstance(a, str):
                if hasattr(o, a):
                    v = getattr(o, a)
                    return ("py", v) if callable(v) else v
                if len(args) == 3:
                    return args[2]
                raise Raised("AttributeError(%s)" % a)
            if isinstance(o, Obj):
                if o is self.self_obj and a in self.getters:
                    return self.getters[a](o)
                if a in o.attrs:
                    return self.getattr(o, a)
                if len(args) == 3:
                    return args[2]
                return self.getattr(o, a)
            if isinstance(o, (list, tuple, dict, str)) and not isinstance(o, (OneShot, NamedTup)) and isinstance(a, str):
                if hasattr(o, a):
                    return self.getattr(o, a)
                if len(args) == 3:
                    return args[2]
                raise Raised("AttributeError(%s object has no attribute %s)" % (type(o).__name__, a))
            if len(args) == 3:
                try:
                    return self.getattr(o, a)
                except Raised:
                    return args[2]
            return self.getattr(o, a)
        if dn == "setattr" and len(args) == 3 and isinstance(args[0], Obj):
            setter = self.summaries.get("set:%s.%s" % (args[0].cls, args[1]))
            if setter is not None:
                setter(args[0], args[2])
            elif args[0] is self.self_obj and self.self_class is not None and self.self_class[0].resolve_method(self.self_class[1], "__setattr__") is not None:
                self._inline(self.self_class[0].resolve_method(self.self_class[1], "__setattr__"), args[0], [args[1], args[2]], {})
            else:
                args[0].attrs[args[1]] = args[2]
            return None
        if dn == "object.__setattr__" and len(args) == 3 and isinstance(args[0], Obj):
            args[0].attrs[args[1]] = args[2]
            return None
        if dn == "callable":
            return isinstance(args[0], tuple) and bool(args[0]) and isinstance(args[0][0], str) and args[0][0] in ("callable", "lambda", "bound", "sampler", "py", "func", "imeth", "closure", "method", "boundclosure", "partial", "ntclass")
        if dn == "print" or (dn is not None and (dn.startswith("logging.") or dn in ("warnings.warn", "logger.debug", "logger.info", "logger.warning"))):
            return None
        if dn in ("int", "float"):
            if not args:
                return 0 if dn == "int" else 0.0
            v = args[0]
            if isinstance(v, (int, float, str)) and "<formatted>" not in str(v):
                try:
                    return (int if dn == "int" else float)(v, *args[1:])
                except (ValueError, TypeError, OverflowError) as ex:
                    raise Raised("%s(%s)" % (type(ex).__name__, ex))
            if v is None or isinstance(v, (list, tuple, dict)):
                raise Raised("TypeError(%s() argument must be a string or a real number, not %s)" % (dn, type(v).__name__))
            return v
        if dn == "map":
            fn = args[0]
            seqs = [self._iter(a) for a in args[1:]]
            return OneShot(self.apply(fn, list(items), {}) for items in zip(*seqs))
        if dn == "functools.reduce" or (dn == "reduce" and "reduce" not in self.env):
            fn, seq = args[0], self._iter(args[1])
            if len(args) > 2:
                seq = [args[2]] + list(seq)
            if not seq:
                raise Raised("TypeError(reduce() of empty iterable with no initial value)")
            acc = seq[0]
            for x in seq[1:]:
                acc = self.apply(fn, [acc, x], {})
            return acc
        if dn in ("all", "any"):
            vals = [self.truth(x) for x in self._iter(args[0])]
            return all(vals) if dn == "all" else any(vals)
        if dn == "filter":
            fn, seq = args
            return OneShot(x for x in self._iter(seq) if (self.truth(x) if fn is None else self.truth(self.apply(fn, [x], {}))))
        if dn == "sorted":
            seq = self._iter(args[0])
            key = kw.get("key")
            try:
                if key is not None:
                    keyed = [(self.apply(key, [x], {}), i, x) for i, x in enumerate(seq)]
                    keyed.sort(key=lambda t: (t[0],), reverse=bool(kw.get("reverse", False)))
                    if bool(kw.get("reverse", False)):
                        # python's sort is stable also when reversed: equal keys keep their original order
                        keyed = sorted([(self.apply(key, [x], {}), i, x) for i, x in enumerate(seq)], key=lambda t: t[0], reverse=True)
                    return [x for _k, _i, x in keyed]
                return sorted(seq, reverse=bool(kw.get("reverse", False)))
            except TypeError:
                raise Undecided("sorting opaque values")
        if dn == "pow" and len(args) in (2, 3) and "pow" not in self.env:
            if all(isinstance(a, (int, float)) and not isinstance(a, bool) for a in args):
                try:
                    return pow(*args)
                except (ZeroDivisionError, ValueError, TypeError) as ex:
                    raise Raised("%s(%s)" % (type(ex).__name__, ex))
            if len(args) == 2:
                return self.binop(ast.Pow(), args[0], args[1])
        if dn == "repr" and len(args) == 1:
            v = args[0]
            if v is None or isinstance(v, (bool, int, float, str)) and "<formatted>" not in str(v):
                return repr(v)
            raise Undecided("repr of %r" % (v,))
        if dn == "round" and 1 <= len(args) <= 2 and "round" not in self.env:
            if all(isinstance(a, (int, float)) and not isinstance(a, bool) for a in args):
                return round(*args)
            raise Undecided("round of %r" % (args,))
        if dn == "reversed":
            return OneShot(reversed(self._iter(args[0])))
        if dn == "set":
            out = []
            for x in self._iter(args[0]) if args else []:
                if not any(self.compare(ast.Eq(), x, y) for y in out):
                    out.append(x)
            try:
                return sorted(out)      # a set has no defined order; model it as sorted (numpy.unique / typical hash order for small ints)
            except TypeError:
                return out
        if dn in ("min", "max") and args:
            vals = self._iter(args[0]) if len(args) == 1 else list(args)
            if any(isinstance(v, Tok) for v in vals):
                raise Undecided("min/max of opaque values")
            return min(vals) if dn == "min" else max(vals)
        if dn == "abs" and args and isinstance(args[0], (int, float)):
            return abs(args[0])
        if dn == "sum":
            tot = args[1] if len(args) > 1 else kw.get("start", 0)
            for x in self._iter(args[0]):
                tot = self.binop(ast.Add(), tot, x)
            return tot
        if dn == "collections.namedtuple" and len(args) >= 2 and isinstance(args[0], str):
            fields = args[1].replace(",", " ").split() if isinstance(args[1], str) else list(self._iter(args[1]))
            if kw and set(kw) - {"defaults"}:
                raise Undecided("namedtuple with %s" % sorted(kw))
            defaults = list(self._iter(kw["defaults"])) if kw.get("defaults") is not None else []
            return ("ntclass", args[0], tuple(fields), tuple(defaults))
        if dn in ("collections.OrderedDict",) and len(args) <= 1:
            if not args:
                return dict(kw)
            return {self._key(k): v for k, v in (args[0].items() if isinstance(args[0], dict) else self._iter(args[0]))}
        if dn == "collections.defaultdict":
            raise Undecided("collections.defaultdict")
        if dn == "collections.deque" and len(args) <= 1 and not kw:
            return list(self._iter(args[0])) if args else []
        if dn == "dict.fromkeys" and len(args) in (1, 2) and "dict" not in self.env:
            return {self._key(k): (args[1] if len(args) == 2 else None) for k in self._iter(args[0])}
        if dn in ("functools.partial",):
            if not args:
                raise Raised("TypeError(partial() needs a callable)")
            return ("partial", args[0], list(args[1:]), dict(kw))
        if dn in ("itertools.chain",):
            out = []
            for a in args:
                out.extend(self._iter(a))
            return out
        if dn in ("itertools.chain.from_iterable",):
            out = []
            for a in self._iter(args[0]):
                out.extend(self._iter(a))
            return out
        if dn == "itertools.repeat":
            if len(args) == 2 and isinstance(args[1], int):
                return [args[0]] * max(args[1], 0)
            if len(args) == 1:
                return BoundedCount(args[0] for _ in range(5000))
        if dn == "itertools.islice" and len(args) in (2, 3, 4):
            import itertools as _it
            return list(_it.islice(self._iter(args[0]), *args[1:]))
        if dn == "itertools.accumulate" and args:
            seq = self._iter(args[0])
            fn = args[1] if len(args) > 1 else kw.get("func")
            out = []
            for x in seq:
                out.append(x if not out else (self.binop(ast.Add(), out[-1], x) if fn is None else self.apply(fn, [out[-1], x], {})))
            return out
        if dn == "itertools.starmap" and len(args) == 2:
            return [self.apply(args[0], list(self._iter(t)), {}) for t in self._iter(args[1])]
        if dn == "itertools.zip_longest":
            import itertools as _it
            return [tuple(t) for t in _it.zip_longest(*[self._iter(a) for a in args], fillvalue=kw.get("fillvalue"))]
        if dn in ("itertools.combinations", "itertools.permutations") and len(args) in (1, 2):
            import itertools as _it
            return [tuple(t) for t in getattr(_it, dn.split(".")[1])(self._iter(args[0]), *args[1:])]
        if dn == "operator.itemgetter" and args:
            keys = list(args)
            return ("py", (lambda o, _k=keys: self._getitem(o, _k[0]) if len(_k) == 1 else tuple(self._getitem(o, k) for k in _k)))
        if dn == "operator.attrgetter" and len(args) == 1 and isinstance(args[0], str):
            return ("py", (lambda o, _a=args[0]: self.getattr(o, _a)))
        if dn == "operator.getitem" and len(args) == 2:
            return self._getitem(args[0], args[1])
        if dn in _OPERATOR_CMP and len(args) == 2:
            return self.compare(_OPERATOR_CMP[dn](), args[0], args[1])
        if dn in ("operator.not_",) and len(args) == 1:
            return not self.truth(args[0])
        if dn in ("operator.truth",) and len(args) == 1:
            return self.truth(args[0])
        if dn in ("operator.pow",) and len(args) == 2:
            return self.binop(ast.Pow(), args[0], args[1])
        if dn in ("operator.matmul",) and len(args) == 2:
            return self.binop(ast.MatMult(), args[0], args[1])
        if dn in ("copy.copy", "copy.deepcopy") and len(args) >= 1 and dn not in self.summaries:
            return _NOTHANDLED
        return _NOTHANDLED

    def _getitem(self, o, k):
        if getattr(o, "_abs_native", False):
            try:
                return o[k]
            except IndexError as ex:
                raise Raised("IndexError(%s)" % ex)
        if isinstance(o, dict):
            kk = self._key(k)
            if kk not in o:
                raise Raised("KeyError(%r)" % (k,))
            return o[kk]
        if isinstance(o, (list, tuple, str)):
            if isinstance(k, bool) or not isinstance(k, (int, slice)):
                raise Raised("TypeError(indices must be integers or slices)")
            try:
                return o[k]
            except IndexError as ex:
                raise Raised("IndexError(%s)" % ex)
        raise Undecided("item %r of %r" % (k, o))

    def apply(self, f, args, kw):
        if isinstance(f, tuple) and f and isinstance(f[0], str):
            tag = f[0]
            if tag == "callable":
                if f[1] in self.summaries:
                    return _lib(self.summaries[f[1]], args, kw)
                r = self._dispatch(f[1], list(args), dict(kw))
                if r is not _NOTHANDLED:
                    return r
                raise Undecided("no summary for %s" % f[1])
            if tag == "ntclass":
                _, typename, fields, defaults = f
                vals = list(args)
                if len(vals) > len(fields):
                    raise Raised("TypeError(%s() takes %d positional arguments but %d were given)" % (typename, len(fields), len(vals)))
                for i, fld in enumerate(fields[len(vals):], start=len(vals)):
                    if fld in kw:
                        vals.append(kw[fld])
                    elif i >= len(fields) - len(defaults):
                        vals.append(defaults[i - (len(fields) - len(defaults))])
                    else:
                        raise Raised("TypeError(%s() missing required argument %s)" % (typename, fld))
                extra = set(kw) - set(fields)
                if extra:
                    raise Raised("TypeError(%s() got an unexpected keyword argument %s)" % (typename, sorted(extra)[0]))
                return NamedTup(typename, fields, vals)
            if tag == "partial":
                kw2 = dict(f[3])
                kw2.update(kw)
                return self.apply(f[1], list(f[2]) + list(args), kw2)
            if tag == "bound":
                return _lib(self.summaries[f[1]], [f[2]] + list(args), kw)
            if tag == "py":
                return _lib(f[1], args, kw)
            if tag == "sampler":
                return Tok("draw(%s)" % f[1])
            if tag == "method" and len(f) == 2 and isinstance(self.self_obj, Obj):
                # an unsummarised method of an open object: interpret the real one if the class defines it
                fi, kind = self._real_member(self.self_obj.cls, f[1])
                if fi is not None and kind == "method":
                    return self._inline(fi, self.self_obj, args, kw)
            if tag == "boundclosure":
                return self.apply(f[1], [f[2]] + list(args), kw)
            if tag == "func":
                return self._inline(f[1], None, args, kw)
            if tag == "imeth":
                return self._inline(f[1], f[2], args, kw)
            if tag == "closure":
                node, env_ref = f[1], f[2]
                sub = self._sub(dict(env_ref), self.self_obj, self.module)
                kind, out = sub._run_bound(node, args, kw, skip_self=False, dvals=f[3] if len(f) > 3 else None)
                self.budget = sub.budget
                if kind == "raise":
                    raise Raised(out)
                return out
            if tag == "lambda":
                lam, env = f[1], f[2]
                dvals = f[3] if len(f) > 3 else {}
                sub = Abs(dict(env), self.types, self.summaries, self.self_obj, self.getters, self.budget, self.eq)
                sub.class_methods = self.class_methods
                sub.module, sub.depth, sub.consts = self.module, self.depth, self.consts
                sub.self_class = self.self_class
                la = lam.args
                names = [x.arg for x in la.posonlyargs + la.args]
                if len(args) > len(names) and la.vararg is None:
                    raise Raised("TypeError(<lambda>() takes %d positional arguments but %d were given)" % (len(names), len(args)))
                bound = dict(zip(names, args))
                if la.vararg is not None:
                    bound[la.vararg.arg] = tuple(args[len(names):])
                konly = [x.arg for x in la.kwonlyargs]
                extra = {}
                for k, v in kw.items():
                    if k in bound:
                        raise Raised("TypeError(<lambda>() got multiple values for argument %s)" % k)
                    if k in names or k in konly:
                        bound[k] = v
                    elif la.kwarg is not None:
                        extra[k] = v
                    else:
                        raise Raised("TypeError(<lambda>() got an unexpected keyword argument %s)" % k)
                if la.kwarg is not None:
                    bound[la.kwarg.arg] = extra
                for n in names + konly:
                    if n not in bound:
                        if n in dvals:
                            bound[n] = dvals[n]
                        else:
                            raise Raised("TypeError(<lambda>() missing required argument %s)" % n)
                sub.env.update(bound)
                v = sub.ev(lam.body)
                self.budget = sub.budget
                return v
            if tag == "dictm":
                _, m, d = f
                if m == "items":
                    return list(d.items())
                if m == "keys":
                    return list(d.keys())
                if m == "values":
                    return list(d.values())
                if m == "get":
                    return d.get(self._key(args[0]), args[1] if len(args) > 1 else None)
                if m == "update":
                    if args:
                        src = args[0]
                        d.update(src if isinstance(src, dict) else {self._key(k_): v_ for k_, v_ in self._iter(src)})
                    d.update(kw)
                    return None
                if m == "setdefault":
                    return d.setdefault(self._key(args[0]), args[1] if len(args) > 1 else None)
                if m == "pop":
                    kk = self._key(args[0])
                    if kk in d:
                        return d.pop(kk)
                    if len(args) > 1:
                        return args[1]
                    raise Raised("KeyError(%r)" % (kk,))
                if m == "copy":
                    return dict(d)
            if tag == "listm":
                _, m, l = f
                if m == "append":
                    l.append(args[0])
                    return None
                if m == "extend":
                    l.extend(args[0])
                    return None
                if m == "index":
                    for i, x in enumerate(l):
                        if self.compare(ast.Eq(), x, args[0]):
                            return i
                    raise Raised("ValueError(index)")
                if m in ("copy", "tolist"):
                    return list(l)
                if m == "pop":
                    try:
                        return l.pop(*args)
                    except IndexError:
                        raise Raised("IndexError(pop)")
                if m == "insert":
                    l.insert(args[0], args[1])
                    return None
                if m == "remove":
                    for i, x in enumerate(l):
                        if self.compare(ast.Eq(), x, args[0]):
                            del l[i]
                            return None
                    raise Raised("ValueError(remove)")
                if m == "reverse":
                    l.reverse()
                    return None
                if m == "clear":
                    del l[:]
                    return None
                if m == "sort":
                    key, rev = kw.get("key"), bool(kw.get("reverse", False))
                    try:
                        if key is not None:
                            keyed = sorted([(self.apply(key, [x], {}), i, x) for i, x in enumerate(l)], key=lambda t: t[0], reverse=rev)
                            l[:] = [x for _k, _i, x in keyed]
                        else:
                            l.sort(reverse=rev)
                    except TypeError:
                        raise Undecided("sorting opaque values")
                    return None
                if m == "count":
                    return sum(1 for x in l if self.compare(ast.Eq(), x, args[0]))
            if tag == "strm":
                _, m, s = f
                if m == "format":
                    plain = lambda v: v is None or (isinstance(v, (bool, int, float, str)) and "<formatted>" not in str(v))
                    if all(plain(v) for v in args) and all(plain(v) for v in kw.values()) and "<formatted>" not in s:
                        try:
                            return s.format(*args, **kw)
                        except (IndexError, KeyError, ValueError, TypeError) as ex:
                            raise Raised("%s(%s)" % (type(ex).__name__, ex))
                    texts = [self._text(v) for v in args]
                    if not kw and all(t is not None for t in texts) and re.fullmatch(r"(?:[^{}]|\{\}|\{\{|\}\})*", s):
                        return s.format(*texts)
                    return "<formatted>"
                if m == "join":
                    return s.join(str(x) for x in self._iter(args[0]))
                return getattr(s, m)(*args)
        if getattr(f, "_abs_native", False) and callable(f) and not isinstance(f, type):
            return _lib(f, args, kw)            # a callable library object (a scipy.stats family called to freeze its parameters)
        raise Undecided("call of %r" % (f,))

    def _exc_is_a(self, raised, handler):
        """is the exception class `raised` a subclass of `handler` (both by name)?  True / False / None (not known)"""
        if raised == handler or handler == "BaseException":
            return True
        rb, hb = _builtin_exc(raised), _builtin_exc(handler)
        if rb is not None and hb is not None:
            return issubclass(rb, hb)
        if rb is not None and hb is None:
            return False if self._repo_exc_bases(handler) is not None else None       # a class of the package does not sit above a builtin
        # an exception class of the package: follow its bases
        seen, todo = set(), [raised]
        while todo:
            c = todo.pop()
            if c in seen:
                continue
            seen.add(c)
            if c == handler:
                return True
            cb = _builtin_exc(c)
            if cb is not None:
                if hb is not None and issubclass(cb, hb):
                    return True
                continue
            bases = self._repo_exc_bases(c)
            if bases is None:
                known = {"LinAlgError": ["ValueError"], "AxisError": ["ValueError", "IndexError"]}
                if c in known:
                    todo += known[c]
                    continue
                return True if handler == "Exception" else None
            todo += bases
        return False

    def _repo_exc_bases(self, name):
        repo = CURRENT_REPO[0]
        if repo is None:
            return None
        for m in repo.modules.values():
            ci = m.classes.get(name)
            if ci is not None:
                return [b.split(".")[-1] for b in ci.bases if b]
        return None

    def _handler_catches(self, tnode, label):
        if tnode is None:
            return True
        hs = [(dotted(t) or "").split(".")[-1] for t in (tnode.elts if isinstance(tnode, ast.Tuple) else [tnode])]
        if any(not h for h in hs):
            raise Undecided("exception class given by an expression")
        verdicts = []
        for r in _exc_names(label):
            v = [self._exc_is_a(r, h) for h in hs]
            verdicts.append(True if any(x is True for x in v) else (None if any(x is None for x in v) else False))
        if all(x is True for x in verdicts):
            return True
        if all(x is False for x in verdicts):
            return False
        raise Undecided("whether `except %s` catches %s" % (", ".join(hs), label))

    def isinstance(self, v, tnode):
        tn = tnode.elts if isinstance(tnode, ast.Tuple) else [tnode]
        names = []
        for t in tn:
            name = dotted(t)
            # a local alias of a class (T = np.random.RandomState; kinds = (int, float))
            if isinstance(t, ast.Name) and name not in self.types and t.id in self.env:
                val = self.env[t.id]
                vals = list(val) if isinstance(val, (list, tuple)) and not (len(val) == 2 and val[0] in ("callable", "py")) else [val]
                vals = [x[1] if isinstance(x, tuple) and len(x) == 2 and isinstance(x[0], str) and x[0] == "py" else x for x in vals]
                vals = [("callable", x._abs_type) if isinstance(getattr(x, "_abs_type", None), str) else x for x in vals]
                if vals and all(isinstance(x, tuple) and len(x) == 2 and isinstance(x[0], str) and x[0] == "callable" and isinstance(x[1], str) for x in vals):
                    names.extend(x[1] for x in vals)
                    continue
            names.append(name)
        for name in names:
            if name in self.types:
                if self.types[name](v):
                    return True
                continue
            builtin = {"list": list, "tuple": tuple, "dict": dict, "str": str, "bool": bool, "int": int, "float": float, "set": (set, frozenset), "object": object}
            if name in builtin:
                if isinstance(v, Tok) and v.kind == "num" and name in ("int", "float"):
                    # an opaque number: it is an int or a float - which one is not known
                    if {"int", "float"} <= set(names):
                        return True
                    raise Undecided("whether an opaque number is an %s" % name)
                if isinstance(v, OneShot) and name in ("list", "tuple"):
                    continue
                if isinstance(v, builtin[name]):
                    return True
                continue
            if name in ("Exception", "BaseException") or _builtin_exc(name) is not None:
                if isinstance(v, ExcVal):
                    r = self._exc_is_a(v.name, name)
                    if r is None:
                        raise Undecided("whether %s is a %s" % (v.name, name))
                    if r:
                        return True
                continue
            if isinstance(name, str) and name in self.env and (self.env[name] is None or isinstance(self.env[name], (int, float, str, list, dict)) or getattr(self.env[name], "_abs_native", False)):
                raise Raised("TypeError(isinstance() arg 2 must be a type, a tuple of types, or a union)")
            raise Undecided("isinstance against unknown type %s" % name)
        return False

    # -------------------------------------------------------------- statements
    def _bind(self, t, v):
        if isinstance(t, ast.Name):
            self.env[t.id] = v
        elif isinstance(t, (ast.Tuple, ast.List)):
            vals = self._iter(v)
            stars = [i for i, x in enumerate(t.elts) if isinstance(x, ast.Starred)]
            if len(stars) == 1:
                k = stars[0]
                after = len(t.elts) - k - 1
                if len(vals) < len(t.elts) - 1:
                    raise Raised("ValueError(unpack)")
                for x, vv in zip(t.elts[:k], vals[:k]):
                    self._bind(x, vv)
                self._bind(t.elts[k].value, list(vals[k:len(vals) - after]))
                for x, vv in zip(t.elts[k + 1:], vals[len(vals) - after:]):
                    self._bind(x, vv)
                return
            if len(vals) != len(t.elts):
                raise Raised("ValueError(unpack)")
            for x, vv in zip(t.elts, vals):
                self._bind(x, vv)
        elif isinstance(t, ast.Attribute):
            base = self.ev(t.value)
            if isinstance(base, Obj):
                setter = self.summaries.get("set:%s.%s" % (base.cls, t.attr))
                if setter is not None:
                    setter(base, v)
                elif base is self.self_obj and self.self_class is not None \
                        and self.self_class[0].resolve_method(self.self_class[1], "__setattr__") is not None:
                    # the class intercepts attribute assignment
                    self._inline(self.self_class[0].resolve_method(self.self_class[1], "__setattr__"), base, [t.attr, v], {})
                elif base is self.self_obj and self.self_class is not None and t.attr not in base.attrs \
                        and self.self_class[0].resolve_setter(self.self_class[1], t.attr) is not None:
                    # a property of the object's own class: the assignment runs its setter
                    self._inline(self.self_class[0].resolve_setter(self.self_class[1], t.attr), base, [v], {})
                else:
                    base.attrs[t.attr] = v
            else:
                raise Undecided("attribute store on %r" % (base,))
        elif isinstance(t, ast.Subscript):
            base = self.ev(t.value)
            if isinstance(t.slice, ast.Slice) and isinstance(base, list) and not getattr(base, "_abs_native", False):
                lo = self.ev(t.slice.lower) if t.slice.lower is not None else None
                hi = self.ev(t.slice.upper) if t.slice.upper is not None else None
                st_ = self.ev(t.slice.step) if t.slice.step is not None else None
                base[lo:hi:st_] = self._iter(v)
                return
            k = None if getattr(base, "_abs_native", False) else self.ev(t.slice)
            if getattr(base, "_abs_native", False):
                try:
                    base[self._native_key(t.slice)] = v
                except IndexError as ex:
                    raise Raised("IndexError(%s)" % ex)
                except ValueError as ex:
                    raise Raised("ValueError(%s)" % ex)          # numpy's own refusals (shape mismatch, a sequence into one element)
                return
            if isinstance(base, dict):
                base[self._key(k)] = v
            elif isinstance(base, list):
                try:
                    base[k] = v
                except (IndexError, TypeError):
                    raise Raised("IndexError")
            else:
                raise Undecided("subscript store on %r" % (base,))
        else:
            raise Undecided("store target %s" % type(t).__name__)

    def run(self, stmts):
        for st in stmts:
            self.budget -= 1
            if self.budget < 0:
                raise Undecided("abstract execution budget exhausted")
            if isinstance(st, ast.Expr):
                if isinstance(st.value, ast.Constant):
                    continue
                self.ev(st.value)
            elif isinstance(st, ast.Assign):
                v = self.ev(st.value)
                for t in st.targets:
                    self._bind(t, v)
            elif isinstance(st, ast.AugAssign):
                cur = self.ev(st.target if not isinstance(st.target, ast.Name) else ast.Name(id=st.target.id, ctx=ast.Load()))
                rhs = self.ev(st.value)
                ip = {ast.Add: "__iadd__", ast.Sub: "__isub__", ast.Mult: "__imul__", ast.Div: "__itruediv__"}.get(type(st.op))
                if isinstance(cur, list) and not isinstance(cur, (OneShot,)) and isinstance(st.op, (ast.Add, ast.Mult)):
                    # list += iterable / list *= n: the list object itself changes (every alias sees it)
                    if isinstance(st.op, ast.Add):
                        cur.extend(self._iter(rhs))
                    else:
                        if isinstance(rhs, bool) or not isinstance(rhs, int):
                            raise Raised("TypeError(can't multiply sequence by non-int)")
                        cur[:] = list(cur) * rhs
                    self._bind(st.target, cur)
                elif getattr(cur, "_abs_native", False) and ip is not None and hasattr(cur, ip) and not isinstance(rhs, Tok):
                    # numpy's augmented assignment updates the array in place: every alias sees the change
                    try:
                        self._bind(st.target, getattr(cur, ip)(rhs))
                    except TypeError as ex:
                        raise Raised("TypeError(%s)" % ex)
                else:
                    self._bind(st.target, self.binop(st.op, cur, rhs))
            elif isinstance(st, ast.If):
                self.run(st.body if self.truth(self.ev(st.test)) else st.orelse)
            elif isinstance(st, ast.For):
                broke = False
                seq_ = self.ev(st.iter)
                for item in self._iter(seq_):
                    self._bind(st.target, item)
                    try:
                        self.run(st.body)
                    except _Break:
                        broke = True
                        break
                    except _Continue:
                        continue
                if not broke and isinstance(seq_, BoundedCount):
                    raise Undecided("loop bound")
                if not broke:
                    self.run(st.orelse)
            elif isinstance(st, ast.While):
                n = 0
                broke = False
                while self.truth(self.ev(st.test)):
                    n += 1
                    if n > 5000:
                        raise Undecided("loop bound")
                    try:
                        self.run(st.body)
                    except _Break:
                        broke = True
                        break
                    except _Continue:
                        continue
                if not broke:
                    self.run(st.orelse)
            elif isinstance(st, ast.Return):
                raise _Ret(self.ev(st.value) if st.value is not None else None)
            elif isinstance(st, ast.Raise):
                if st.exc is None:
                    cur = getattr(self, "_exc_stack", [])
                    if not cur:
                        raise Raised("RuntimeError(No active exception to reraise)")
                    raise cur[-1]                                       # bare raise: the exception being handled
                if isinstance(st.exc, ast.Name) and isinstance(self.env.get(st.exc.id), ExcVal):
                    raise Raised(self.env[st.exc.id].label)             # raise e
                name = dotted(st.exc.func) if isinstance(st.exc, ast.Call) else (dotted(st.exc) or "Exception")
                if isinstance(st.exc, ast.Call) and len(st.exc.args) == 1 and not st.exc.keywords:
                    # keep the message when it is plain text (str(e), e.args of a handler further out)
                    try:
                        msg = self.ev(st.exc.args[0])
                    except (Undecided, Raised):
                        msg = None
                    if isinstance(msg, str) and "<formatted>" not in msg and "(" not in msg and ")" not in msg:
                        raise Raised("%s(%s)" % (name, msg))
                raise Raised(name)
            elif isinstance(st, ast.Pass):
                continue
            elif isinstance(st, ast.Break):
                raise _Break()
            elif isinstance(st, ast.Continue):
                raise _Continue()
            elif isinstance(st, ast.Assert):
                if not self.truth(self.ev(st.test)):
                    raise Raised("AssertionError")
            elif isinstance(st, ast.Try):
                try:
                    try:
                        self.run(st.body)
                    except Raised as r:
                        for h in st.handlers:
                            if not self._handler_catches(h.type, r.exc):
                                continue
                            if h.name:
                                self.env[h.name] = ExcVal(_exc_names(r.exc)[0], r.exc)
                            self._exc_stack = getattr(self, "_exc_stack", []) + [r]
                            try:
                                self.run(h.body)
                            finally:
                                self._exc_stack = self._exc_stack[:-1]
                                if h.name:
                                    self.env.pop(h.name, None)          # python unbinds the name at the end of the handler
                                    self._unbound = getattr(self, "_unbound", set()) | {h.name}
                            break
                        else:
                            raise
                    else:
                        self.run(st.orelse)
                finally:
                    if st.finalbody:
                        self.run(st.finalbody)
            elif isinstance(st, ast.ImportFrom):
                # a local `from itertools import product as prod`: the names stand for the library's callables
                if st.module and st.module.split(".")[0] in _STD_MODULES and not st.level:
                    for al in st.names:
                        self.env[al.asname or al.name] = ("callable", "%s.%s" % (st.module, al.name))
                continue
            elif isinstance(st, ast.Import):
                continue
            elif isinstance(st, ast.FunctionDef):
                a_ = st.args
                names_ = [x.arg for x in a_.posonlyargs + a_.args]
                dvals_ = {n: self.ev(d) for n, d in zip(names_[len(names_) - len(a_.defaults):], a_.defaults)}
                for x_, d_ in zip(a_.kwonlyargs, a_.kw_defaults):
                    if d_ is not None:
                        dvals_[x_.arg] = self.ev(d_)
                self.env[st.name] = ("closure", st, self.env, dvals_)     # the closure sees the live local scope; defaults are evaluated now
            else:
                raise Undecided("statement %s" % type(st).__name__)

    # ------------------------------------------------------------ inlining of repo-local code
    def _const_rooted(self, dn):
        """a dotted name whose prefix is an abstract library object supplied by the rule (st.beta with `st` modelled)"""
        parts = dn.split(".")
        return any(".".join(parts[:k]) in self.consts for k in range(1, len(parts)))

    def _operator(self, dn, args):
        op = _OPERATOR_FUNCS[dn]
        if op == "neg":
            return self.binop(ast.Sub(), 0, args[0])
        if op == "pos":
            return args[0]
        return self.binop(op(), args[0], args[1])

    def _is_library(self, name):
        """a module alias such as np / sympy / st / itertools (an imported name that is not a module of the package)"""
        if name in ("np", "numpy", "sympy", "scipy", "st", "math", "itertools", "copy", "functools", "re", "warnings"):
            return True
        m = self.module
        if m is not None and name in m.imports and not m.imports[name].startswith("pygom"):
            return True
        return False

    def _sub(self, env, self_obj, module):
        sub = Abs(env, self.types, self.summaries, self_obj, self.getters if self_obj is self.self_obj else {}, self.budget, self.eq)
        sub.class_methods = self.class_methods if self_obj is self.self_obj else set()
        sub.module = module
        sub.depth = self.depth + 1
        sub.consts = self.consts
        sub.self_class = self.self_class if self_obj is self.self_obj else None
        return sub

    def _real_member(self, clsname, attr, base=None):
        if self.self_class is not None and (base is None or base is self.self_obj):
            repo, ci = self.self_class
        else:
            info = CLASS_INFOS.get(clsname)
            if info is None or len(info[1]) != 1:
                return None, None
            repo, (ci,) = info
        fi = repo.resolve_method(ci, attr)
        if fi is not None:
            return fi, "method"
        fi = repo.resolve_getter(ci, attr)
        if fi is not None:
            return fi, "getter"
        return None, None

    def _super_call(self, sup, attr, args, kw):
        """super().m(...) / super(C, self).m(...): the method of the next class after the defining one in the concrete class's ancestry"""
        if self.self_class is None or self.self_obj is None:
            raise Undecided("super() without a known concrete class")
        repo, ci = self.self_class
        here = dotted(sup.args[0]) if sup.args else getattr(self, "cur_cls", None)
        if here is None:
            raise Undecided("super() outside a method whose class is known")
        chain = repo.mro(ci)
        names = [c.name for c in chain]
        if here not in names:
            raise Undecided("super(): %s is not an ancestor of %s" % (here, ci.name))
        for c in chain[names.index(here) + 1:]:
            if attr in c.methods:
                return self._inline(c.methods[attr], self.self_obj, args, kw)
        if attr == "__init__":
            return None         # object.__init__
        if attr == "__setattr__" and len(args) == 2:
            self.self_obj.attrs[args[0]] = args[1]      # object.__setattr__
            return None
        raise Raised("AttributeError(super has no %s)" % attr)

    def _inline(self, fi, self_obj, args, kw):
        """interpret a function / method of the package that the rule gave no summary for (extracted helpers)"""
        if self.depth >= INLINE_DEPTH:
            raise Undecided("inlining depth exceeded at %s" % fi.qualname)
        INLINED.add(fi.construct)
        static = any(dotted(d) in ("staticmethod",) for d in fi.node.decorator_list)
        clsm = any(dotted(d) in ("classmethod",) for d in fi.node.decorator_list)
        if clsm:
            raise Undecided("classmethod %s is not modelled" % fi.qualname)
        bound = self_obj if (fi.cls is not None and not static) else None
        sub = self._sub({}, bound, fi.module)
        sub.cur_cls = fi.cls
        kind, out = sub._run_bound(fi.node, args, kw, skip_self=bound is not None)
        self.budget = sub.budget
        if kind == "raise":
            raise Raised(out)
        return out

    def _default(self, fnode, pname, d):
        """default value of a parameter of a module-level function or method: evaluated once, when the function is defined - a
        mutable default (list / dict / array) is one object shared by all calls, as in python"""
        if isinstance(d, ast.Constant) or (isinstance(d, ast.UnaryOp) and isinstance(d.operand, ast.Constant)) \
                or (isinstance(d, ast.Tuple) and not d.elts) or isinstance(d, (ast.Name, ast.Attribute)):
            return self.ev(d)
        repo = CURRENT_REPO[0]
        if repo is None or func_of_node(repo, fnode) is None:
            return self.ev(d)
        store = repo.__dict__.setdefault("_default_store", {})
        key = (id(fnode), pname)
        if key not in store:
            store[key] = self._sub({}, None, self.module).ev(d)
        return store[key]

    def _run_bound(self, fnode, args, kw, skip_self, dvals=None):
        a = fnode.args
        params = [x.arg for x in a.posonlyargs + a.args]
        if skip_self and params:
            params = params[1:]
        extra_pos = []
        if len(args) > len(params):
            if a.vararg is None:
                raise Raised("TypeError(too many arguments for %s)" % fnode.name)
            extra_pos = list(args[len(params):])
            args = list(args[:len(params)])
        bound = dict(zip(params, args))
        extra_kw = {}
        for k, v in kw.items():
            if k not in params and k not in [x.arg for x in a.kwonlyargs]:
                if a.kwarg is None:
                    raise Raised("TypeError(unexpected keyword %s for %s)" % (k, fnode.name))
                extra_kw[k] = v
                continue
            if k in bound:
                raise Raised("TypeError(multiple values for %s)" % k)
            bound[k] = v
        if a.vararg is not None:
            bound[a.vararg.arg] = tuple(extra_pos)
        if a.kwarg is not None:
            bound[a.kwarg.arg] = extra_kw
        for x, d in zip(a.kwonlyargs, a.kw_defaults):
            if x.arg not in bound:
                if d is None:
                    raise Raised("TypeError(missing keyword-only %s)" % x.arg)
                bound[x.arg] = dvals[x.arg] if dvals is not None and x.arg in dvals else self._default(fnode, x.arg, d)
        allp = [x.arg for x in a.posonlyargs + a.args]
        defaults = dict(zip(allp[len(allp) - len(a.defaults):], a.defaults))
        for p_ in params:
            if p_ not in bound:
                if dvals is not None and p_ in dvals:
                    bound[p_] = dvals[p_]
                elif p_ in defaults:
                    bound[p_] = self._default(fnode, p_, defaults[p_])
                else:
                    raise Raised("TypeError(missing argument %s of %s)" % (p_, fnode.name))
        self.env.update(bound)
        if _is_generator_function(fnode):
            # a generator function: its items are produced eagerly (a limit of the interpreter) and handed back as an iterator
            self._yields = []
            try:
                self.run(fnode.body)
            except _Ret:
                pass
            except Raised as r:
                return ("raise", r.exc)
            return ("return", OneShot(self._yields))
        try:
            self.run(fnode.body)
        except _Ret as r:
            return ("return", r.v)
        except Raised as r:
            return ("raise", r.exc)
        return ("return", None)

    def _global(self, name):
        """module-level function, constant or package import visible from the code being interpreted"""
        m = self.module
        repo = CURRENT_REPO[0]
        if m is None or repo is None:
            return _MISSING
        if name in m.functions:
            return ("func", m.functions[name])
        key = (m.modname, name)
        _MODCONST = repo.__dict__.setdefault("_modconst", {})
        if key in _MODCONST:
            v = _MODCONST[key]
            if v is _MISSING:
                raise Undecided("recursive module constant %s" % name)
            return v
        for st in m.tree.body:
            if isinstance(st, ast.Assign) and any(isinstance(t, ast.Name) and t.id == name for t in st.targets):
                _MODCONST[key] = _MISSING
                try:
                    sub = self._sub({}, None, m)
                    v = sub.ev(st.value)
                finally:
                    _MODCONST.pop(key, None)
                _MODCONST[key] = v
                return v
        tgt = m.imports.get(name)
        if tgt and tgt in repo.modules:
            return ("pymodule", repo.modules[tgt])       # `from . import ode_utils`, `import pygom.model.ode_utils as ...`
        if tgt and tgt.startswith("pygom"):
            for _ in range(3):
                modname, _, fname = tgt.rpartition(".")
                mm = repo.modules.get(modname)
                if mm is None:
                    break
                if fname in mm.functions:
                    return ("func", mm.functions[fname])
                t2 = mm.imports.get(fname)
                if not t2:
                    # `from .distn import *`
                    for st in mm.tree.body:
                        if isinstance(st, ast.ImportFrom) and any(al.name == "*" for al in st.names):
                            base = mm.modname + "." + (st.module or "") if st.level else (st.module or "")
                            cand = repo.modules.get(base)
                            if cand is not None and fname in cand.functions:
                                return ("func", cand.functions[fname])
                    break
                tgt = t2
        return _MISSING

    def run_function(self, fnode, args):
        """bind args {name: value} (missing -> defaults evaluated) and run; returns
        ('return', value) | ('raise', name)"""
        if self.module is None and CURRENT_REPO[0] is not None:
            fi_ = func_of_node(CURRENT_REPO[0], fnode)
            if fi_ is not None:
                self.module = fi_.module
        a = fnode.args
        params = [x.arg for x in a.posonlyargs + a.args]
        defaults = dict(zip(params[len(params) - len(a.defaults):], a.defaults))
        if a.vararg is not None and a.vararg.arg not in args:
            self.env[a.vararg.arg] = ()
        if a.kwarg is not None and a.kwarg.arg not in args:
            self.env[a.kwarg.arg] = {}
        for x_, d_ in zip(a.kwonlyargs, a.kw_defaults):
            if x_.arg in args:
                self.env[x_.arg] = args[x_.arg]
            elif d_ is not None:
                self.env[x_.arg] = self._default(fnode, x_.arg, d_)
        for extra_name in (a.vararg.arg if a.vararg is not None else None, a.kwarg.arg if a.kwarg is not None else None):
            if extra_name is not None and extra_name in args:
                self.env[extra_name] = args[extra_name]
        for p in params:
            if p == "self" and self.self_obj is not None:
                continue
            if p in args:
                self.env[p] = args[p]
            elif p in defaults:
                self.env[p] = self._default(fnode, p, defaults[p])
            else:
                raise Undecided("missing argument %s" % p)
        try:
            self.run(fnode.body)
        except _Ret as r:
            return ("return", r.v)
        except Raised as r:
            return ("raise", r.exc)
        return ("return", None)
