"""Concrete 1-d / 2-d arrays of python numbers, booleans or opaque tokens with numpy's
element-wise, masking and fancy-indexing semantics, for interpreting vectorised code over
small concrete index data (times, counts, indices).  Re-implemented from numpy's
documented behaviour; numpy itself is not imported."""
import bisect

from .algebra import Undecided


def _div(a, b):
    """numpy's true division of array elements: x/0 is +-inf (nan for 0/0) with a warning, not an exception"""
    try:
        return a / b
    except ZeroDivisionError:
        if a != a or a == 0:
            return float("nan")
        return float("inf") if a > 0 else float("-inf")


def _is_seq(x):
    return isinstance(x, (list, tuple, NumArr)) or getattr(x, "_abs_native", False) and hasattr(x, "__iter__")


class NumArr:
    _abs_native = True

    def __init__(self, data, fixed=None):
        """`fixed`: 'int' when the array was allocated with an integer dtype (explicitly or *_like an integer array):
        numpy then casts every value stored into it (floats are truncated)"""
        self.fixed = fixed
        self._ver = 0             # bumped by every write into this array (or, for a matrix, into one of its rows)
        self._view = None         # (base, stamp of the base when this array was taken from it): see _as_view
        src = data.data if isinstance(data, NumArr) else list(data)
        # rows are always this array's own objects: a new array never shares storage with the one it was built from
        self._data = [NumArr(list(r.data), fixed or r.fixed) if isinstance(r, NumArr) else (NumArr(r, fixed) if isinstance(r, (list, tuple)) else r) for r in src]
        if fixed:
            for r in self._data:
                if isinstance(r, NumArr):
                    r.fixed = fixed
        self._homogenise()

    # numpy hands out *views* for basic slices, reshape, ravel, transposes: they share memory with their base.  This model keeps
    # nested lists and copies there.  To stay honest it remembers that such an array is a stand-in for a view: writing through it,
    # or reading it after the base was written, is outside the model (Undecided) instead of silently acting on a private copy.
    @property
    def data(self):
        v = self.__dict__.get("_view")
        if v is not None and v[0]._stamp() != v[1]:
            self._settle()
            if self._view is None:
                return self._data
            raise Undecided("an array view is read after its base was written: the concrete array model does not share storage between a base and its slices / reshapes")
        return self._data

    @data.setter
    def data(self, value):
        self._data = value

    def _stamp(self):
        return self._ver + sum(r._ver for r in self._data if isinstance(r, NumArr))

    def _settle(self):
        """drop the link to a base that nobody else holds any more (np.arange(6).reshape(2, 3): the arange is gone) - sharing with
        it cannot be observed, this array owns its data"""
        v = self.__dict__.get("_view")
        if v is not None:
            import sys
            if sys.getrefcount(v[0]) <= 2:          # the tuple in _view and the argument of getrefcount
                self._view = None
        return self

    def _as_view(self, base):
        base._settle()
        root = base if base._view is None else base._view[0]
        if root is not self:
            self._view = (root, root._stamp())
        return self

    def _written(self):
        self._settle()
        v = self.__dict__.get("_view")
        if v is not None:
            raise Undecided("write through an array view (slice / reshape / ravel / transpose): the concrete array model does not share storage with the base")
        self._ver += 1

    def _homogenise(self):
        """numpy arrays have one dtype: integers stored next to reals are reals"""
        flat = [y for x in self._data for y in (x.data if isinstance(x, NumArr) else [x])]
        if any(isinstance(v, float) for v in flat) and all(isinstance(v, (int, float)) and not isinstance(v, bool) for v in flat) \
                and any(isinstance(v, int) for v in flat):
            self._data = [NumArr([float(y) for y in x.data]) if isinstance(x, NumArr) else float(x) for x in self._data]

    def _cast(self, v):
        if self.fixed == "int":
            if isinstance(v, NumArr):
                return NumArr([self._cast(x) for x in v.data], "int")
            if isinstance(v, (list, tuple)):
                return [self._cast(x) for x in v]
            if isinstance(v, float) and v == v and v not in (float("inf"), float("-inf")):
                return int(v)
        return v

    # ------------------------------------------------------------------ basics
    def __len__(self):
        return len(self.data)

    def __iter__(self):
        return iter(self.data)

    @property
    def ndim(self):
        return 2 if self.data and isinstance(self.data[0], NumArr) else 1

    @property
    def shape(self):
        if self.ndim == 2:
            return (len(self.data), len(self.data[0]))
        return (len(self.data),)

    @property
    def size(self):
        return len(self.data) * (len(self.data[0]) if self.ndim == 2 else 1)

    def tolist(self):
        return [x.tolist() if isinstance(x, NumArr) else x for x in self.data]

    def copy(self):
        return NumArr([x.copy() if isinstance(x, NumArr) else x for x in self.data])

    @property
    def dtype(self):
        """'bool' | 'int' | 'float' | 'object' from the element values (numpy's promotion for homogeneous data)"""
        flat = [y for x in self.data for y in (x.data if isinstance(x, NumArr) else [x])]
        if flat and all(isinstance(v, bool) for v in flat):
            return "bool"
        if all(isinstance(v, int) and not isinstance(v, bool) for v in flat):
            return "int"
        if all(isinstance(v, (int, float)) for v in flat):
            return "float"
        return "object"

    def astype(self, t=None, *a, **k):
        name = getattr(t, "__name__", str(t))
        want = "int" if "int" in name else "float" if "float" in name else None
        copy = k.get("copy", True)
        if want is not None and want == self.dtype and copy is False:
            return self            # numpy returns the array itself: the result aliases the input
        conv = int if want == "int" else float if want == "float" else (lambda v: v)
        return NumArr([x.astype(t) if isinstance(x, NumArr) else conv(x) for x in self.data])

    def reshape(self, *shape, order="C"):
        if len(shape) == 1 and not isinstance(shape[0], int):
            shape = tuple(shape[0])
        if shape and isinstance(shape[-1], str):
            order, shape = shape[-1], shape[:-1]
            if len(shape) == 1 and not isinstance(shape[0], int):
                shape = tuple(shape[0])
        f = self.ravel().data if order in ("C", "c") or self.ndim == 1 else [r.data[j] for j in range(len(self.data[0])) for r in self.data]
        if len(shape) == 1:
            n = len(f) if shape[0] == -1 else shape[0]
            if n != len(f):
                raise ValueError("cannot reshape array of size %d into shape %r" % (len(f), shape))
            return NumArr(list(f))._as_view(self) if self.ndim == 2 else self
        if len(shape) != 2:
            raise Undecided("reshape to %d axes" % len(shape))
        r, c = shape
        if r == -1:
            r = len(f) // c
        if c == -1:
            c = len(f) // r
        if r * c != len(f):
            raise ValueError("cannot reshape array of size %d into shape %r" % (len(f), shape))
        if order in ("F", "f"):
            return NumArr([[f[i + j * r] for j in range(c)] for i in range(r)])._as_view(self)
        return NumArr([[f[i * c + j] for j in range(c)] for i in range(r)])._as_view(self)

    def ravel(self, order="C"):
        if order not in ("C", "F", "A", "K"):
            raise ValueError("order not understood")
        if self.ndim == 2:
            if order == "F":
                return NumArr([r.data[j] for j in range(len(self.data[0])) for r in self.data] if self.data else [])     # a copy in numpy too
            return NumArr([y for x in self.data for y in x.data])._as_view(self)
        return self

    def flatten(self, order="C"):
        return NumArr(list(self.ravel(order).data))

    def dot(self, o):
        return dot(self, o)

    @property
    def T(self):
        if self.ndim == 2:
            return NumArr([[r.data[j] for r in self.data] for j in range(len(self.data[0]))])._as_view(self)
        return self

    def fill(self, v):
        """a.fill(v): every element becomes v, in place (cast to the array's dtype)"""
        v = int(v) if self.dtype == "int" and isinstance(v, float) else v
        self._written()
        if self.ndim == 1:
            self._data[:] = [v] * len(self._data)
        else:
            for r in self._data:
                r._written()
                r._data[:] = [v] * len(r._data)
        return None

    def swapaxes(self, i, j):
        n = self.ndim
        if not all(isinstance(a, int) and not isinstance(a, bool) and -n <= a < n for a in (i, j)):
            raise ValueError("axis out of bounds for array of dimension %d" % n)
        if i % n == j % n:
            return self
        if n == 2:
            return self.T
        raise Undecided("swapaxes of a %d-d array" % n)

    def __repr__(self):
        return "NumArr(%r)" % (self.tolist(),)

    def same(self, o):
        return isinstance(o, NumArr) and self.tolist() == o.tolist()

    # ---------------------------------------------------------------- indexing
    def _idx(self, k):
        n = len(self.data)
        if isinstance(k, bool) or not isinstance(k, int):
            if isinstance(k, float) and k == int(k):
                k = int(k)
            else:
                raise Undecided("array index %r" % (k,))
        if k < 0:
            k += n
        if not 0 <= k < n:
            raise IndexError("index %d is out of bounds for axis 0 with size %d" % (k, n))
        return k

    def _no_ellipsis(self, key):
        if not isinstance(key, tuple):
            return slice(None) if key is Ellipsis and self.ndim == 1 else ((slice(None), slice(None)) if key is Ellipsis else key)
        n_e = sum(1 for k in key if k is Ellipsis)
        if n_e > 1:
            raise IndexError("an index can only have a single ellipsis ('...')")
        if n_e:
            used = len(key) - 1
            if used > self.ndim:
                raise IndexError("too many indices for array")
            i = [j for j, k in enumerate(key) if k is Ellipsis][0]
            key = tuple(key[:i]) + (slice(None),) * (self.ndim - used) + tuple(key[i + 1:])
        if len(key) == 1:
            return key[0]           # a[(idx,)] is a[idx] (what np.nonzero hands back for a vector)
        return key

    def __getitem__(self, key):
        key = self._no_ellipsis(key)
        if isinstance(key, tuple):
            if len(key) == 2 and self.ndim == 2:
                basic = all(isinstance(k, slice) or (isinstance(k, int) and not isinstance(k, bool)) for k in key)
                if isinstance(key[0], int) and not isinstance(key[0], bool):
                    row = self.data[self._idx(key[0])]
                    out = row[key[1]]
                    return out._as_view(self) if isinstance(out, NumArr) and isinstance(key[1], slice) else out
                if sum(1 for k in key if _is_seq(k)) == 2:
                    # two index arrays are paired (numpy), not crossed
                    i0 = key[0].tolist() if isinstance(key[0], NumArr) else list(key[0])
                    i1 = key[1].tolist() if isinstance(key[1], NumArr) else list(key[1])
                    if any(isinstance(v, (list, bool)) for v in i0 + i1):
                        raise Undecided("index %r" % (key,))
                    if len(i0) != len(i1):
                        if len(i0) == 1:
                            i0 = i0 * len(i1)
                        elif len(i1) == 1:
                            i1 = i1 * len(i0)
                        else:
                            raise IndexError("shape mismatch: indexing arrays could not be broadcast together")
                    return NumArr([self.data[self._idx(a_)].data[self.data[0]._idx(b_)] for a_, b_ in zip(i0, i1)])
                rows = self[key[0]]
                out = NumArr([r[key[1]] for r in rows.data])
                return out._as_view(self) if basic else out
            raise Undecided("index %r" % (key,))
        if isinstance(key, slice):
            return NumArr(self.data[key])._as_view(self)
        if _is_seq(key):
            ks = list(key)
            if ks and all(isinstance(b, bool) for b in ks):
                if len(ks) != len(self.data):
                    raise IndexError("boolean index did not match")
                return NumArr([x for x, b in zip(self.data, ks) if b])
            return NumArr([self.data[self._idx(k)] for k in ks])
        return self.data[self._idx(key)]

    def __setitem__(self, key, value):
        key = self._no_ellipsis(key)
        value = self._cast(value)
        self._written()
        if isinstance(key, int) and not isinstance(key, bool) and self.ndim == 2:
            row = list(value) if _is_seq(value) else [value] * len(self.data[0])
            if len(row) != len(self.data[0]):
                if len(row) == 1:
                    row = row * len(self.data[0])
                else:
                    raise ValueError("could not broadcast input array from shape (%d,) into shape (%d,)" % (len(row), len(self.data[0])))
            tgt = self.data[self._idx(key)]
            if not isinstance(tgt, NumArr):
                raise Undecided("row assignment into a ragged array")
            tgt._written()
            tgt._data[:] = [tgt._cast(v) for v in row]          # the row keeps its identity: whoever holds it sees the new values
            return
        if isinstance(key, NumArr) and key.ndim == 2 and self.ndim == 2:
            for r, kr in zip(self.data, key.data):
                r[kr] = value
            return
        if isinstance(key, tuple) and len(key) == 2 and self.ndim == 2:
            if isinstance(key[0], int):
                self.data[self._idx(key[0])][key[1]] = value
                return
            if isinstance(key[0], slice) and isinstance(key[1], int):
                rows = self.data[key[0]]
                vals = list(value) if _is_seq(value) else [value] * len(rows)
                for r, v in zip(rows, vals):
                    r[key[1]] = v
                return
            raise Undecided("index store %r" % (key,))
        if isinstance(key, slice):
            idx = list(range(len(self.data)))[key]
        elif _is_seq(key):
            ks = list(key)
            if ks and all(isinstance(b, bool) for b in ks):
                idx = [i for i, b in enumerate(ks) if b]
            else:
                idx = [self._idx(k) for k in ks]
        else:
            if self.ndim == 1 and (isinstance(value, NumArr) or isinstance(value, (list, tuple))):
                flat = value.ravel().data if isinstance(value, NumArr) else list(value)
                if len(flat) != 1 or isinstance(flat[0], (list, tuple, NumArr)):
                    raise ValueError("setting an array element with a sequence.")
                value = flat[0]
            self.data[self._idx(key)] = value
            return
        vals = list(value) if _is_seq(value) else [value] * len(idx)
        if len(vals) != len(idx):
            raise Undecided("shape mismatch in assignment")
        for i, v in zip(idx, vals):
            self.data[i] = v

    # -------------------------------------------------------------- arithmetic
    def _bin(self, o, fn):
        """numpy broadcasting: scalars, (n,), (n,1), (1,n) and (m,n) operands; (n,) with (n,1) gives (n,n)"""
        if _is_seq(o) and not isinstance(o, NumArr):
            o = NumArr(list(o))
        return emap(fn, self, o)

    def _inplace(self, o, fn):
        r = self._bin(o, fn)
        if self.dtype == "int" and r.dtype == "float":
            raise TypeError("numpy: cannot cast the float result of an in-place operation to an integer array")
        if r.shape != self.shape:
            raise ValueError("non-broadcastable output operand with shape %s doesn't match the broadcast shape %s" % (self.shape, r.shape))
        self._written()
        if self.ndim == 2:
            for mine, new_ in zip(self._data, r.data):
                mine._written()
                mine._data[:] = list(new_.data)
        else:
            self._data[:] = list(r.data)
        return self

    def __iadd__(self, o): return self._inplace(o, lambda a, b: a + b)
    def __isub__(self, o): return self._inplace(o, lambda a, b: a - b)
    def __imul__(self, o): return self._inplace(o, lambda a, b: a * b)
    def __itruediv__(self, o): return self._inplace(o, _div)
    def __rtruediv__(self, o): return self._bin(o, lambda a, b: _div(b, a))
    def __pow__(self, o): return self._bin(o, lambda a, b: a ** b)
    def __rpow__(self, o): return self._bin(o, lambda a, b: b ** a)
    def __abs__(self): return NumArr([abs(a) for a in self.data])

    def __add__(self, o): return self._bin(o, lambda a, b: a + b)
    __radd__ = __add__
    def __sub__(self, o): return self._bin(o, lambda a, b: a - b)
    def __rsub__(self, o): return self._bin(o, lambda a, b: b - a)
    def __mul__(self, o): return self._bin(o, lambda a, b: a * b)
    __rmul__ = __mul__
    def __truediv__(self, o): return self._bin(o, _div)
    def __neg__(self): return NumArr([-a for a in self.data])
    def __eq__(self, o): return self._bin(o, lambda a, b: a == b)
    def __ne__(self, o): return self._bin(o, lambda a, b: a != b)
    def __lt__(self, o): return self._bin(o, lambda a, b: a < b)
    def __le__(self, o): return self._bin(o, lambda a, b: a <= b)
    def __gt__(self, o): return self._bin(o, lambda a, b: a > b)
    def __ge__(self, o): return self._bin(o, lambda a, b: a >= b)
    def __and__(self, o): return self._bin(o, lambda a, b: bool(a) and bool(b))
    def __or__(self, o): return self._bin(o, lambda a, b: bool(a) or bool(b))
    def __invert__(self): return NumArr([not a for a in self.data])
    __hash__ = None

    def any(self, *a, **k): return any(bool(x) for x in self.ravel().data)
    def all(self, *a, **k): return all(bool(x) for x in self.ravel().data)
    def __bool__(self):
        if self.size == 0:
            return False
        if self.size == 1:
            return bool(self.ravel().data[0])
        raise ValueError("The truth value of an array with more than one element is ambiguous")
    def sum(self, axis=None):
        if axis is not None:
            if isinstance(axis, bool) or not isinstance(axis, int) or not -self.ndim <= axis < self.ndim:
                raise ValueError("axis %r is out of bounds for array of dimension %d" % (axis, self.ndim))
            axis %= self.ndim
        if self.ndim == 2:
            if axis is None:
                return sum(sum(r.data) for r in self.data)
            if axis == 1:
                return NumArr([sum(r.data) for r in self.data])
            return NumArr([sum(r.data[j] for r in self.data) for j in range(len(self.data[0]))])
        return sum(self.data)
    def mean(self, axis=None, **k): return _mean(self, axis)
    def min(self): return min(self.ravel().data)
    def max(self): return max(self.ravel().data)
    def argmin(self, axis=None):
        if axis is not None:
            raise Undecided("argmin along an axis")
        d = self.ravel().data
        if not d:
            raise ValueError("attempt to get argmin of an empty sequence")
        return d.index(min(d))

    def argmax(self, axis=None):
        if axis is not None:
            raise Undecided("argmax along an axis")
        d = self.ravel().data
        if not d:
            raise ValueError("attempt to get argmax of an empty sequence")
        return d.index(max(d))

    def cumsum(self, axis=None):
        if axis is not None:
            raise Undecided("cumsum along an axis")
        out, t = [], 0
        for x in self.ravel().data:
            t = t + x
            out.append(t)
        return NumArr(out)


class Stack3:
    """a stack of equally shaped 2-d arrays along one axis (np.dstack -> axis 2, np.stack(axis=k), np.array(list) -> axis 0);
    only reductions along the stacking axis are modelled"""
    _abs_native = True

    def __init__(self, members, axis):
        self.members = [m if isinstance(m, NumArr) else NumArr(m) for m in members]
        self.axis = axis
        if not self.members:
            raise ValueError("need at least one array to stack")
        sh = self.members[0].shape
        if any(m.shape != sh for m in self.members):
            raise ValueError("all input arrays must have the same shape")

    @property
    def shape(self):
        sh = list(self.members[0].shape)
        sh.insert(self.axis if self.axis >= 0 else len(sh) + 1 + self.axis, len(self.members))
        return tuple(sh)

    def _reduce(self, axis, fn):
        nd = len(self.members[0].shape) + 1
        if axis is None or axis % nd != self.axis % nd:
            raise Undecided("reduction of a stacked array along axis %r (stacked along %r)" % (axis, self.axis))
        out = self.members[0]
        for m in self.members[1:]:
            out = out + m
        return fn(out, len(self.members))

    def mean(self, axis=None, **k):
        return self._reduce(axis, lambda tot, n: tot / n)

    def sum(self, axis=None, **k):
        return self._reduce(axis, lambda tot, n: tot)


def dot(a, b):
    a = a if isinstance(a, NumArr) else NumArr(a)
    b = b if isinstance(b, NumArr) else NumArr(b)
    if a.ndim == 2 and b.ndim == 1:
        if len(a.data[0]) != len(b.data):
            raise Undecided("shapes not aligned in dot")
        return NumArr([sum(x * y for x, y in zip(r.data, b.data)) for r in a.data])
    if a.ndim == 1 and b.ndim == 1:
        if len(a.data) != len(b.data):
            raise Undecided("shapes not aligned in dot")
        return sum(x * y for x, y in zip(a.data, b.data))
    if a.ndim == 1 and b.ndim == 2:
        return dot(b.T, a)
    if a.ndim == 2 and b.ndim == 2:
        bt = b.T
        return NumArr([[sum(x * y for x, y in zip(r.data, c.data)) for c in bt.data] for r in a.data])
    raise Undecided("dot of these shapes")


def _dtype_name(dt):
    if dt is None:
        return None
    name = dt if isinstance(dt, str) else getattr(dt, "__name__", str(dt))
    return "int" if "int" in name else "float" if "float" in name else "bool" if "bool" in name else None


def _alloc(shape, fill, fixed):
    if isinstance(shape, int):
        shape = (shape,)
    shape = tuple(shape)
    if len(shape) == 1:
        return NumArr([fill] * shape[0], fixed)
    if len(shape) == 2:
        return NumArr([[fill] * shape[1] for _ in range(shape[0])], fixed)
    raise Undecided("allocation of shape %r" % (shape,))


def _alloc_like(a, dtype, shape, fill):
    a = a if isinstance(a, NumArr) else NumArr(a)
    dn = _dtype_name(dtype) or a.dtype
    fixed = "int" if dn == "int" else None
    out = _alloc(shape if shape is not None else a.shape, fill, fixed)
    if fixed == "int" and isinstance(fill, float):
        out = NumArr([[int(x) for x in r] if isinstance(r, NumArr) else int(r) for r in out.data], fixed)
    return out


def histogram(a, bins=10, range=None, density=None, weights=None, **k):
    """numpy.histogram for 1-d data: explicit edges give half-open bins [e_k, e_k+1) with the last one closed; an integer number of
    bins gives that many equal-width bins over `range` (default: min..max of the data)"""
    data = list(a)
    w = list(weights) if weights is not None else [1] * len(data)
    if len(w) != len(data):
        raise ValueError("weights should have the same shape as a")
    if isinstance(bins, int) and not isinstance(bins, bool):
        lo, hi = (range if range is not None else ((min(data), max(data)) if data else (0.0, 1.0)))
        if lo == hi:
            lo, hi = lo - 0.5, hi + 0.5
        edges = [lo + (hi - lo) * i / bins for i in __import__("builtins").range(bins + 1)]
    else:
        edges = list(bins)
        if any(y < x for x, y in zip(edges[:-1], edges[1:])):
            raise ValueError("bins must increase monotonically")
    out = [0] * (len(edges) - 1)
    for x, wi in zip(data, w):
        if x < edges[0] or x > edges[-1]:
            continue
        idx = bisect.bisect_right(edges, x) - 1
        if idx == len(edges) - 1:
            idx -= 1
        out[idx] = out[idx] + wi
    return (NumArr(out), NumArr(edges))


def _mean(a, axis=None):
    a = a if isinstance(a, NumArr) else NumArr(a)
    if a.ndim == 1 or axis is None:
        flat = a.ravel().data
        return sum(flat) / len(flat)
    if isinstance(axis, bool) or not isinstance(axis, int) or not -a.ndim <= axis < a.ndim:
        raise ValueError("axis %r is out of bounds for array of dimension %d" % (axis, a.ndim))
    axis %= a.ndim
    tot = a.sum(axis)
    n = a.shape[axis]
    return tot / n


def _hstack(seq):
    parts = [p if isinstance(p, NumArr) else NumArr(list(p) if _is_seq(p) else [p]) for p in seq]
    if all(p.ndim == 1 for p in parts):
        return NumArr([x for p in parts for x in p.data])
    if all(p.ndim == 2 for p in parts):
        if len({p.shape[0] for p in parts}) != 1:
            raise ValueError("all the input array dimensions except for the concatenation axis must match exactly")
        return NumArr([[x for p in parts for x in p.data[i].data] for i in range(parts[0].shape[0])])
    raise ValueError("all the input arrays must have same number of dimensions")


def _vstack(seq):
    parts = [p if isinstance(p, NumArr) else NumArr(list(p) if _is_seq(p) else [p]) for p in seq]
    rows = []
    for p in parts:
        rows += [list(p.data)] if p.ndim == 1 else [list(r.data) for r in p.data]
    if len({len(r) for r in rows}) != 1:
        raise ValueError("all the input array dimensions except for the concatenation axis must match exactly")
    return NumArr(rows)


def _np_sort(a, axis=-1, kind=None, order=None):
    """np.sort: a sorted copy; along the last axis by default, along the given one, or of the flattened array for axis=None"""
    if kind is not None or order is not None:
        raise Undecided("np.sort with kind / order")
    a = a if isinstance(a, NumArr) else NumArr(list(a))
    if axis is None:
        return NumArr(sorted(a.ravel().data))
    if isinstance(axis, bool) or not isinstance(axis, int) or not -a.ndim <= axis < a.ndim:
        raise ValueError("axis %r is out of bounds for array of dimension %d" % (axis, a.ndim))
    axis %= a.ndim
    if a.ndim == 1:
        return NumArr(sorted(a.data), a.fixed)
    if axis == 1:
        return NumArr([sorted(r.data) for r in a.data], a.fixed)
    cols = [sorted(r.data[j] for r in a.data) for j in range(a.shape[1])]
    return NumArr([[cols[j][i] for j in range(a.shape[1])] for i in range(a.shape[0])], a.fixed)


def _np_arange(*a, dtype=None):
    """np.arange(stop) / (start, stop[, step]): integers give an integer array, any real argument a real one"""
    if not 1 <= len(a) <= 3 or any(isinstance(x, bool) or not isinstance(x, (int, float)) for x in a):
        raise Undecided("np.arange%r" % (a,))
    start, stop, step = (0, a[0], 1) if len(a) == 1 else (a[0], a[1], 1) if len(a) == 2 else a
    if step == 0:
        raise ZeroDivisionError("Maximum allowed size exceeded")
    if all(isinstance(x, int) for x in (start, stop, step)) and _dtype_name(dtype) in (None, "int"):
        return NumArr(list(range(start, stop, step)), "int")
    import math
    n = max(int(math.ceil((stop - start) / step)), 0)
    vals = [start + k * step for k in range(n)]
    if _dtype_name(dtype) == "int":
        return NumArr([int(v) for v in vals], "int")
    return NumArr([float(v) for v in vals])


def _arrify_(v):
    return v if isinstance(v, NumArr) else NumArr(list(v) if _is_seq(v) else [v])


def _raise_und(msg):
    raise Undecided(msg)


def _np_take(a, indices, axis=None, out=None, mode="raise"):
    """np.take: along an axis it is a[:, idx] / a[idx, :]; without an axis the array is flattened first"""
    if out is not None or mode != "raise":
        raise Undecided("np.take with out= / mode=")
    a = a if isinstance(a, NumArr) else NumArr(a)
    idx = indices.tolist() if isinstance(indices, NumArr) else (list(indices) if _is_seq(indices) else indices)
    if axis is None:
        return a.ravel()[idx] if a.ndim > 1 else a[idx]
    if not isinstance(axis, int) or isinstance(axis, bool) or not -a.ndim <= axis < a.ndim:
        raise ValueError("axis %r is out of bounds for array of dimension %d" % (axis, a.ndim))
    axis %= a.ndim
    if a.ndim == 1 or axis == 0:
        return a[idx]
    return a[(slice(None), idx)]


def _np_ndindex(*shape):
    import itertools
    if len(shape) == 1 and isinstance(shape[0], (tuple, list)):
        shape = tuple(shape[0])
    if not all(isinstance(n, int) and not isinstance(n, bool) and n >= 0 for n in shape):
        raise Undecided("np.ndindex%r" % (shape,))
    return [tuple(t) for t in itertools.product(*[range(n) for n in shape])]


def _np_mean(a, axis=None, dtype=None, out=None, **k):
    """np.mean, with `out`: the result is written into that array (in place - whoever else holds it sees the mean) and returned"""
    if k or dtype is not None:
        raise Undecided("np.mean with %s" % sorted(list(k) + (["dtype"] if dtype is not None else [])))
    if isinstance(a, Stack3):
        r = a.mean(axis)
    elif isinstance(a, (list, tuple)) and a and isinstance(a[0], NumArr) and a[0].ndim == 2:
        r = Stack3(list(a), 0).mean(axis)
    else:
        r = _mean(a, axis)
    return write_into(out, r)


def write_into(out, r):
    """numpy's out= argument: copy the result into `out` element by element and hand `out` back"""
    if out is None:
        return r
    if not isinstance(out, NumArr):
        raise TypeError("return arrays must be of ArrayType")
    rr = r if isinstance(r, NumArr) else NumArr([r])
    if tuple(out.shape) != tuple(rr.shape):
        raise ValueError("output parameter has the wrong shape %s, expected %s" % (tuple(out.shape), tuple(rr.shape)))
    out._written()
    if out.ndim == 1:
        out._data[:] = [_cast_like(out, v) for v in rr.data]
    else:
        for ro, rn in zip(out._data, rr.data):
            ro._written()
            ro._data[:] = [_cast_like(out, v) for v in rn.data]
    return out


def _cast_like(arr, v):
    if getattr(arr, "dtype", "float") == "int" and isinstance(v, float):
        return int(v)          # numpy would refuse (same-kind casting) for ufuncs; reductions cast - keep the value visible as truncated
    return v


def emap(fn, *xs):
    """element-wise application with numpy broadcasting of scalars, (n,), (n,1)/(1,n) and (m,n) operands"""
    arrs = [x for x in xs if isinstance(x, NumArr)]
    if not arrs:
        return fn(*xs)
    if any(a.ndim == 2 for a in arrs):
        rows = max(a.shape[0] if a.ndim == 2 else 1 for a in arrs)
        cols = max(a.shape[1] if a.ndim == 2 else a.shape[0] for a in arrs)

        def at(x, i, j):
            if not isinstance(x, NumArr):
                return x
            if x.ndim == 1:
                if x.shape[0] not in (1, cols):
                    raise ValueError("operands could not be broadcast together")
                return x.data[j if x.shape[0] > 1 else 0]
            r, c = x.shape
            if r not in (1, rows) or c not in (1, cols):
                raise ValueError("operands could not be broadcast together")
            return x.data[i if r > 1 else 0].data[j if c > 1 else 0]
        return NumArr([[fn(*[at(x, i, j) for x in xs]) for j in range(cols)] for i in range(rows)])
    n = max(a.shape[0] for a in arrs)
    if any(a.shape[0] not in (1, n) for a in arrs):
        raise ValueError("operands could not be broadcast together")
    return NumArr([fn(*[(x.data[i if x.shape[0] > 1 else 0] if isinstance(x, NumArr) else x) for x in xs]) for i in range(n)])


def _math_summaries():
    import math
    inf, nan = float("inf"), float("nan")

    def log(v):
        return math.log(v) if v > 0 else (-inf if v == 0 else nan)

    def exp(v):
        try:
            return math.exp(v)
        except OverflowError:
            return inf

    def sqrt(v):
        return math.sqrt(v) if v >= 0 else nan

    def lgamma(v):
        return math.lgamma(v) if v > 0 or v != int(v) else inf

    def recip(v):
        # integer arrays keep their dtype: C integer division truncates (1/2 -> 0)
        if isinstance(v, int) and not isinstance(v, bool):
            return int(1 / v) if v != 0 else 0
        return 1.0 / v if v != 0 else inf

    def power(a, b):
        try:
            r = a ** b
        except ZeroDivisionError:
            return inf                      # numpy (floats): 0.0 ** negative is inf, with a warning
        except OverflowError:
            return inf
        if isinstance(r, complex):
            return nan                      # numpy (floats): negative base, fractional exponent
        return r

    def modulo(x, y):
        if y == 0:
            if isinstance(x, float) or isinstance(y, float):
                return nan                  # numpy (floats): x % 0.0 is nan, with a warning
            raise Undecided("integer remainder by zero")
        return x % y
    un = lambda f: (lambda x, *a, **k: emap(f, x))

    def uf2(f):
        """a binary ufunc: element-wise with broadcasting; out= receives the result in place"""
        def g(a, b, out=None):
            aa = a if isinstance(a, NumArr) or not _is_seq(a) else NumArr(list(a))
            bb = b if isinstance(b, NumArr) or not _is_seq(b) else NumArr(list(b))
            return write_into(out, emap(f, aa, bb))
        return g
    out = {"np.log": un(log), "np.exp": un(exp), "np.sqrt": un(sqrt), "np.log1p": un(lambda v: log(1 + v)), "np.expm1": un(lambda v: exp(v) - 1),
           "np.reciprocal": un(recip), "np.square": un(lambda v: v * v), "np.negative": un(lambda v: -v), "np.float_power": lambda a, b: emap(lambda x, y: float(x) ** y, a, b),
           "np.power": uf2(power), "np.divide": uf2(_div), "np.true_divide": uf2(_div),
           "np.subtract": uf2(lambda x, y: x - y), "np.add": uf2(lambda x, y: x + y), "np.multiply": uf2(lambda x, y: x * y),
           "np.mod": lambda a, b: emap(modulo, a, b), "np.remainder": lambda a, b: emap(modulo, a, b),
           "np.floor": un(lambda v: float(math.floor(v))), "np.ceil": un(lambda v: float(math.ceil(v))), "np.round": un(lambda v: float(round(v))),
           "np.rint": un(lambda v: float(round(v))), "np.isnan": un(lambda v: v != v), "np.sign": un(lambda v: (v > 0) - (v < 0)),
           "np.pi": math.pi, "np.e": math.e, "math.pi": math.pi, "math.log": log, "math.exp": exp, "math.sqrt": sqrt, "math.lgamma": lgamma}
    for nm in ("gammaln", "sc.gammaln", "scipy.special.gammaln", "special.gammaln", "sp.gammaln", "sps.gammaln"):
        out[nm] = un(lgamma)
    return out


def interp(x, xp, fp, left=None, right=None, **k):
    """numpy.interp: piecewise linear through (xp, fp), clamped to the end values outside"""
    xs, ys = list(xp), list(fp)
    if len(xs) != len(ys):
        raise ValueError("fp and xp are not of the same length")

    def one(v):
        if v <= xs[0]:
            return float(ys[0]) if (left is None or v == xs[0]) else left
        if v >= xs[-1]:
            return float(ys[-1]) if (right is None or v == xs[-1]) else right
        j = bisect.bisect_right(xs, v) - 1
        w = (v - xs[j]) / (xs[j + 1] - xs[j])
        return ys[j] + w * (ys[j + 1] - ys[j])
    return NumArr([one(v) for v in x]) if _is_seq(x) else one(x)


def _arr_equal(a, b, tol):
    a = a if isinstance(a, NumArr) else NumArr(list(a)) if _is_seq(a) else NumArr([a])
    b = b if isinstance(b, NumArr) else NumArr(list(b)) if _is_seq(b) else NumArr([b])
    if a.shape != b.shape:
        if tol == 0.0:
            return False
        try:
            return bool(emap(lambda x, y: abs(x - y) <= tol[1] + tol[0] * abs(y), a, b).all())
        except ValueError:
            return False
    fa, fb = a.ravel().data, b.ravel().data
    if tol == 0.0:
        return all(x == y for x, y in zip(fa, fb))
    return all(abs(x - y) <= tol[1] + tol[0] * abs(y) for x, y in zip(fa, fb))


def _insert(a, i, v, axis=None):
    """numpy.insert on 1-d data: the values are cast to the dtype of the array (a real inserted into an integer array is truncated)"""
    arr_ = a if isinstance(a, NumArr) else NumArr(list(a))
    vals = list(v) if _is_seq(v) else [v]
    dt = arr_.dtype
    if dt == "int":
        vals = [int(x) if isinstance(x, float) and x == x and x not in (float("inf"), float("-inf")) else x for x in vals]
    elif dt == "float":
        vals = [float(x) if isinstance(x, int) and not isinstance(x, bool) else x for x in vals]
    items = list(arr_.data)
    if isinstance(i, int):
        k_ = i if i >= 0 else len(items) + i
        return NumArr(items[:k_] + vals + items[k_:], arr_.fixed)
    raise Undecided("np.insert at %r" % (i,))


def num_summaries():
    def arr(x, *a, **k):
        if isinstance(x, (list, tuple)) and x and all(isinstance(m, NumArr) and m.ndim == 2 for m in x):
            return Stack3(list(x), 0)
        out = x.copy() if isinstance(x, NumArr) else NumArr(list(x)) if _is_seq(x) else x
        dt = k.get("dtype", a[0] if a else None)
        if dt is not None and isinstance(out, NumArr):
            name = dt if isinstance(dt, str) else getattr(dt, "__name__", str(dt))
            if "int" in name or "float" in name:
                out = out.astype(name)
        return out

    def searchsorted(a, v, side="left"):
        data = list(a)
        f = bisect.bisect_left if side == "left" else bisect.bisect_right
        if _is_seq(v):
            return NumArr([f(data, x) for x in v])
        return f(data, v)

    def _arrify(v):
        return v if isinstance(v, NumArr) or not _is_seq(v) else NumArr(list(v))

    def where(cond, x=None, y=None):
        cond = _arrify(cond)
        if (x is None) != (y is None):
            raise ValueError("either both or neither of x and y should be given")
        if x is None:
            if isinstance(cond, NumArr) and cond.ndim == 2:
                hits = [(i, j) for i, r in enumerate(cond.data) for j, b in enumerate(r.data) if b]
                return (NumArr([i for i, _ in hits]), NumArr([j for _, j in hits]))
            return (NumArr([i for i, b in enumerate(list(cond)) if b]),)
        return emap(lambda c, a, d: a if c else d, cond, _arrify(x), _arrify(y))       # element-wise, with numpy's broadcasting

    def only1d(fn, name):
        """a model written for vectors: anything with two axes is a gap of the model, not a property of the program"""
        def g(*a, **k):
            for v in a:
                if (isinstance(v, NumArr) and v.ndim != 1) or (isinstance(v, (list, tuple)) and v and isinstance(v[0], (list, tuple, NumArr)) and name not in ("np.concatenate", "np.hstack")):
                    raise Undecided("%s of an array with %s axes" % (name, v.ndim if isinstance(v, NumArr) else "several"))
            return fn(*a, **k)
        g.__name__ = name
        return g

    def pair(fn):
        def g(a, b):
            return emap(fn, _arrify(a), _arrify(b))
        return g

    def clip(a, lo, hi):
        def one(x, l_, h_):
            x = max(x, l_) if l_ is not None else x
            return min(x, h_) if h_ is not None else x
        return emap(one, _arrify(a), _arrify(lo), _arrify(hi))

    def elementwise(fn):
        return lambda a: emap(fn, _arrify(a))
    return {
        "np.array": lambda x, *a, **k: (x if (k.get("copy") is False and isinstance(x, NumArr) and _dtype_name(k.get("dtype", a[0] if a else None)) in (None, x.dtype)) else arr(x, *a, **k)),
        "np.asarray": lambda x, *a, **k: (x if (isinstance(x, NumArr) and _dtype_name(k.get("dtype", a[0] if a else None)) in (None, x.dtype)) else arr(x, *a, **k)),
        "np.asanyarray": lambda x, *a, **k: (x if isinstance(x, NumArr) else arr(x, *a, **k)), "np.copy": arr, "np.searchsorted": searchsorted, "np.where": where,
        "np.minimum": pair(min), "np.maximum": pair(max), "np.clip": clip,
        "np.any": lambda a, axis=None: (any(bool(x) for x in (_arrify(a).ravel() if isinstance(_arrify(a), NumArr) else [a])) if axis is None else _raise_und("np.any along an axis")),
        "np.all": lambda a, axis=None: (all(bool(x) for x in (_arrify(a).ravel() if isinstance(_arrify(a), NumArr) else [a])) if axis is None else _raise_und("np.all along an axis")),
        "np.zeros": lambda shape=None, dtype=None, *a, **k: _alloc(shape, 0 if _dtype_name(dtype) == "int" else False if _dtype_name(dtype) == "bool" else 0.0, "int" if _dtype_name(dtype) == "int" else None),
        "np.histogram": histogram,
        "np.arange": _np_arange, "np.isin": lambda a, b: emap(lambda x: x in list(_arrify(b).ravel() if isinstance(_arrify(b), NumArr) else [b]), _arrify(a)),
        "np.diff": only1d(lambda a: NumArr([y - x for x, y in zip(list(a)[:-1], list(a)[1:])]), "np.diff"),
        "np.cumsum": lambda a, axis=None: _arrify_(a).cumsum(axis), "np.argmin": lambda a, axis=None: _arrify_(a).argmin(axis), "np.argmax": lambda a, axis=None: _arrify_(a).argmax(axis),
        "np.flatnonzero": lambda a: NumArr([i for i, b in enumerate(_arrify(a).ravel() if isinstance(_arrify(a), NumArr) else [a]) if b]),
        "np.nonzero": lambda a: where(a),
        "np.count_nonzero": lambda a, axis=None: (sum(1 for b in (_arrify(a).ravel() if isinstance(_arrify(a), NumArr) else [a]) if b) if axis is None else _raise_und("np.count_nonzero along an axis")),
        "np.logical_and": pair(lambda x, y: bool(x) and bool(y)), "np.logical_or": pair(lambda x, y: bool(x) or bool(y)), "np.logical_not": elementwise(lambda x: not x),
        "np.digitize": only1d(lambda x, bins, right=False: NumArr([(bisect.bisect_left if right else bisect.bisect_right)(list(bins), v) for v in x]), "np.digitize"),
        "np.unique": only1d(lambda a: NumArr(sorted(set(a))), "np.unique"), "np.sort": _np_sort,
        "np.take": _np_take, "np.ndindex": _np_ndindex,
        "np.isposinf": elementwise(lambda x: x == float("inf")), "np.isneginf": elementwise(lambda x: x == float("-inf")),
        "np.concatenate": only1d(lambda seq, axis=0: NumArr([x for s in seq for x in (s if _is_seq(s) else [s])]) if axis in (0, None) else _raise_und("np.concatenate along axis %r" % (axis,)), "np.concatenate"),
        "np.append": lambda a, b, axis=None: NumArr((list(NumArr(a).ravel()) if _is_seq(a) else [a]) + (list(NumArr(b).ravel()) if _is_seq(b) else [b])),
        "np.insert": _insert,
        "np.hstack": _hstack,
        "np.union1d": lambda a, b: NumArr(sorted(set((list(NumArr(a).ravel()) if _is_seq(a) else [a]) + (list(NumArr(b).ravel()) if _is_seq(b) else [b])))),
        "np.atleast_1d": lambda a: a if isinstance(a, NumArr) else NumArr(list(a) if _is_seq(a) else [a]),
        "np.ones": lambda shape=None, dtype=None, *a, **k: _alloc(shape, 1 if _dtype_name(dtype) == "int" else True if _dtype_name(dtype) == "bool" else 1.0, "int" if _dtype_name(dtype) == "int" else None),
        "np.full": lambda n, v, *a, **k: NumArr([v] * n) if isinstance(n, int) else (NumArr([v] * n[0]) if len(n) == 1 else NumArr([[v] * n[1] for _ in range(n[0])])),
        "np.empty": lambda shape=None, dtype=None, *a, **k: _alloc(shape, 0 if _dtype_name(dtype) == "int" else 0.0, "int" if _dtype_name(dtype) == "int" else None),
        **_math_summaries(),
        "np.array_equal": lambda a, b, **k: _arr_equal(a, b, 0.0), "np.allclose": lambda a, b, rtol=1e-05, atol=1e-08, **k: _arr_equal(a, b, (rtol, atol)),
        "np.array_equiv": lambda a, b, **k: _arr_equal(a, b, 0.0),
        "np.interp": interp,
        "np.inf": float("inf"), "np.dot": dot, "np.matmul": dot,
        "np.dstack": lambda seq: Stack3(list(seq), 2),
        "np.mean": _np_mean,
        "np.average": lambda a, axis=None: a.mean(axis) if isinstance(a, Stack3) else _mean(a, axis),
        "np.size": lambda a, axis=None: (a.size if axis is None else a.shape[axis]) if isinstance(a, NumArr) else (len(a) if _is_seq(a) else 1),
        "np.shape": lambda a: a.shape if isinstance(a, NumArr) else (len(a),) if _is_seq(a) else (),
        "np.ndim": lambda a: a.ndim if isinstance(a, NumArr) else (1 if _is_seq(a) else 0),
        "np.empty_like": lambda a, dtype=None, shape=None, **k: _alloc_like(a, dtype, shape, 0),
        "np.zeros_like": lambda a, dtype=None, shape=None, **k: _alloc_like(a, dtype, shape, 0),
        "np.ones_like": lambda a, dtype=None, shape=None, **k: _alloc_like(a, dtype, shape, 1),
        "np.full_like": lambda a, v, dtype=None, shape=None, **k: _alloc_like(a, dtype, shape, v),
        "np.reshape": lambda a, shape, order="C": (a if isinstance(a, NumArr) else NumArr(a)).reshape(shape, order=order),
        "np.ravel": lambda a, *x, **k: (a if isinstance(a, NumArr) else NumArr(a if _is_seq(a) else [a])).flatten(),
        "np.column_stack": lambda t: NumArr([list(c) for c in t]).T, "np.vstack": _vstack,
        "np.stack": lambda t, axis=0: (Stack3(list(t), axis) if (len(t) and isinstance(t[0], NumArr) and t[0].ndim == 2) else (NumArr([list(r) for r in t]) if axis == 0 else NumArr([list(c) for c in t]).T)),
        "np.transpose": lambda a: (a if isinstance(a, NumArr) else NumArr(a)).T,
        "np.swapaxes": lambda a, i, j: (a if isinstance(a, NumArr) else NumArr(a)).swapaxes(i, j),
        "np.sum": lambda a, axis=None: (a if isinstance(a, NumArr) else NumArr(a)).sum(axis), "np.abs": lambda a: abs(a), "np.absolute": lambda a: abs(a),
        "np.min": lambda a: NumArr(a).min() if _is_seq(a) else a, "np.max": lambda a: NumArr(a).max() if _is_seq(a) else a,
        "np.amin": lambda a: NumArr(a).min(), "np.amax": lambda a: NumArr(a).max(),
        "np.float64": float, "np.int64": int, "np.isinf": elementwise(lambda x: x in (float("inf"), float("-inf"))),
        "np.isfinite": elementwise(lambda x: x not in (float("inf"), float("-inf")) and x == x),
        "max": lambda *a: max(a) if len(a) > 1 else max(a[0]), "min": lambda *a: min(a) if len(a) > 1 else min(a[0]),
    }
