"""E2 - statement-level control-flow graph for one function, with explicit edge
nodes for branch outcomes so that ordinary node dominance answers "is this
statement only reachable through the true edge of that test?".

Statement kinds covered: simple statements, if/elif/else, while(/else),
for(/else), break, continue, return, raise, try/except/else/finally (conservative
edges from every statement of the body to every handler), with, assert, match.
"""
import ast

from .source import AnalysisError, norm


class Node:
    __slots__ = ("id", "kind", "ast", "succ", "pred", "label", "lineno")

    def __init__(self, nid, kind, node=None, label=None):
        self.id = nid
        self.kind = kind      # entry exit raise stmt test iter edge handler
        self.ast = node
        self.succ = []
        self.pred = []
        self.label = label    # for 'edge': (owner node id, outcome)
        self.lineno = getattr(node, "lineno", 0)

    def __repr__(self):
        return "<%d %s %s>" % (self.id, self.kind, norm(self.ast)[:50] if self.ast is not None else self.label)


class CFG:
    def __init__(self, func_node):
        self.func = func_node
        self.nodes = []
        self.entry = self._new("entry")
        self.exit = self._new("exit")          # normal exits (return / fall off)
        self.raise_exit = self._new("raise")   # exceptional exits
        self._loops = []     # (continue_target, break_collector list)
        self._handlers = []  # stack of lists of handler entry nodes
        self.by_ast = {}     # id(ast stmt) -> Node
        out = self._block(func_node.body, [self.entry])
        for n in out:
            self._edge(n, self.exit)
        self._dom = None

    # ------------------------------------------------------------ construction
    def _new(self, kind, node=None, label=None):
        n = Node(len(self.nodes), kind, node, label)
        self.nodes.append(n)
        if node is not None and kind in ("stmt", "test", "iter"):
            self.by_ast[id(node)] = n
        return n

    def _edge(self, a, b):
        if b not in a.succ:
            a.succ.append(b)
            b.pred.append(a)

    def _join(self, frontier, n):
        for f in frontier:
            self._edge(f, n)

    def _may_raise(self, n):
        # inside a try body every statement may jump to every handler
        if self._handlers:
            for h in self._handlers[-1]:
                self._edge(n, h)

    def _block(self, stmts, frontier):
        for st in stmts:
            frontier = self._stmt(st, frontier)
        return frontier

    def _branch(self, owner, outcome):
        e = self._new("edge", None, (owner.id, outcome))
        self._edge(owner, e)
        return e

    def _stmt(self, st, frontier):
        if isinstance(st, ast.If):
            t = self._new("test", st)
            self._join(frontier, t)
            self._may_raise(t)
            out = self._block(st.body, [self._branch(t, True)])
            out += self._block(st.orelse, [self._branch(t, False)])
            return out
        if isinstance(st, ast.While):
            t = self._new("test", st)
            self._join(frontier, t)
            self._may_raise(t)
            brk = []
            self._loops.append((t, brk))
            body_out = self._block(st.body, [self._branch(t, True)])
            self._loops.pop()
            self._join(body_out, t)
            const_true = isinstance(st.test, ast.Constant) and bool(st.test.value)
            out = []
            if not const_true:
                out = self._block(st.orelse, [self._branch(t, False)])
            return out + brk
        if isinstance(st, (ast.For, ast.AsyncFor)):
            t = self._new("iter", st)
            self._join(frontier, t)
            self._may_raise(t)
            brk = []
            self._loops.append((t, brk))
            body_out = self._block(st.body, [self._branch(t, "body")])
            self._loops.pop()
            self._join(body_out, t)
            out = self._block(st.orelse, [self._branch(t, "done")])
            return out + brk
        if isinstance(st, ast.Break):
            n = self._new("stmt", st)
            self._join(frontier, n)
            if not self._loops:
                raise AnalysisError("break outside loop")
            self._loops[-1][1].append(n)
            return []
        if isinstance(st, ast.Continue):
            n = self._new("stmt", st)
            self._join(frontier, n)
            self._edge(n, self._loops[-1][0])
            return []
        if isinstance(st, ast.Return):
            n = self._new("stmt", st)
            self._join(frontier, n)
            self._may_raise(n)
            self._edge(n, self.exit)
            return []
        if isinstance(st, ast.Raise):
            n = self._new("stmt", st)
            self._join(frontier, n)
            if self._handlers:
                for h in self._handlers[-1]:
                    self._edge(n, h)
            else:
                self._edge(n, self.raise_exit)
            return []
        if isinstance(st, ast.Try) or st.__class__.__name__ == "TryStar":
            hnodes = [self._new("handler", h) for h in st.handlers]
            self._handlers.append(hnodes)
            # the statement before the try may not raise into it; the body can
            head = self._new("stmt", ast.Pass())
            self._join(frontier, head)
            body_out = self._block(st.body, [head])
            self._handlers.pop()
            out = self._block(st.orelse, body_out)
            for h, hn in zip(st.handlers, hnodes):
                out += self._block(h.body, [hn])
            if st.finalbody:
                out = self._block(st.finalbody, out)
            return out
        if isinstance(st, (ast.With, ast.AsyncWith)):
            n = self._new("stmt", st)
            self._join(frontier, n)
            self._may_raise(n)
            return self._block(st.body, [n])
        if isinstance(st, ast.Match):
            t = self._new("test", st)
            self._join(frontier, t)
            out = []
            for i, case in enumerate(st.cases):
                out += self._block(case.body, [self._branch(t, i)])
            out.append(self._branch(t, "nomatch"))
            return out
        if isinstance(st, (ast.FunctionDef, ast.AsyncFunctionDef, ast.ClassDef)):
            n = self._new("stmt", st)
            self._join(frontier, n)
            return [n]
        # simple statement
        n = self._new("stmt", st)
        self._join(frontier, n)
        self._may_raise(n)
        return [n]

    # ----------------------------------------------------------------- queries
    def node_of(self, stmt):
        n = self.by_ast.get(id(stmt))
        if n is None:
            raise AnalysisError("statement not in CFG: %s" % norm(stmt))
        return n

    def stmt_nodes(self):
        return [n for n in self.nodes if n.kind in ("stmt", "test", "iter")]

    def reachable(self, start=None, avoid=()):
        start = start or self.entry
        avoid = {a.id for a in avoid}
        seen = set()
        todo = [start]
        while todo:
            n = todo.pop()
            if n.id in seen or n.id in avoid:
                continue
            seen.add(n.id)
            todo.extend(n.succ)
        return seen

    def reaches(self, a, b, avoid=()):
        """b reachable from a (following successors of a; a itself not counted
        unless on a cycle) without passing through any node in avoid"""
        avoid = {x.id for x in avoid}
        seen = set()
        todo = list(a.succ)
        while todo:
            n = todo.pop()
            if n.id in seen or n.id in avoid:
                continue
            if n.id == b.id:
                return True
            seen.add(n.id)
            todo.extend(n.succ)
        return False

    def dominators(self):
        if self._dom is not None:
            return self._dom
        reach = self.reachable()
        ids = sorted(reach)
        full = set(ids)
        dom = {i: set(full) for i in ids}
        dom[self.entry.id] = {self.entry.id}
        changed = True
        order = ids
        while changed:
            changed = False
            for i in order:
                if i == self.entry.id:
                    continue
                preds = [p.id for p in self.nodes[i].pred if p.id in reach]
                if preds:
                    new = set.intersection(*(dom[p] for p in preds)) | {i}
                else:
                    new = {i}
                if new != dom[i]:
                    dom[i] = new
                    changed = True
        self._dom = dom
        return dom

    def dominates(self, a, b):
        d = self.dominators()
        return b.id in d and a.id in d[b.id]

    def edge_node(self, owner, outcome):
        for s in owner.succ:
            if s.kind == "edge" and s.label == (owner.id, outcome):
                return s
        return None

    def guards_of(self, n):
        """[(test node, outcome)] of all branch edges that dominate n"""
        d = self.dominators().get(n.id, set())
        out = []
        for i in d:
            m = self.nodes[i]
            if m.kind == "edge":
                out.append((self.nodes[m.label[0]], m.label[1]))
        return out

    def must_pass_after(self, start, via, target=None):
        """every path from `start` to `target` (default: the normal exit) passes
        through at least one node of `via` (after start)."""
        target = target or self.exit
        if any(v.id == start.id for v in via):
            return True
        return not self.reaches(start, target, avoid=via)


def cfg_of(funcinfo):
    # kept on the parsed module, so that it goes away with the Repo it belongs to (a process analyses many scratch copies)
    _cache = funcinfo.module.__dict__.setdefault("_cfg_cache", {})
    key = id(funcinfo.node)
    c = _cache.get(key)
    if c is None or c.func is not funcinfo.node:
        c = CFG(funcinfo.node)
        _cache[key] = c
    return c
