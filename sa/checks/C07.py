"""C07 - the gradient handed to optimisers is the derivative of cost.

By the chain rule  d cost / d theta_o = sum_t sum_s  dloss/dyhat[t,s] * w[t,s] * dx_{state s}(t)/dtheta_o.
The integration supplies dx/dtheta in the layout decided under C13; what this check
decides is that the loss object picks *the right columns in the right order*:

 S1 R-GRADSEL  _sensToGradWithoutIndex / sens_to_grad interpreted over arrays of symbols:
               grad[o] = sum_t sum_s D[t,s] W[t,s] X[t, nS + p_o*nS + st_s] for every order of
               target_param and of the observed states (so the gradient follows the order in
               which the free parameters were supplied); same for the initial-value block
 S2 R-SLOT     sensitivity / sensitivityIV: diff_loss is evaluated on the observed-state
               columns of the same integration; result = [grad_params; grad_initial_values]
 S3 R-INIT     initial conditions of the sensitivity systems: zeros for dx/dtheta, identity for
               dx/dx0; correct (func, jac) pairs; integration over t[0], t[1:]
"""
import ast
import itertools

from ..core import algebra as A
from ..core.absint import Abs, Obj, Tok, Raised
from ..core.symarr import SymArr, np_summaries, append
from ..core.source import AnalysisError, norm, dotted, is_self_attr, const_value
from ..core.dataflow import dataflow_of
from ..rules import model as M
from ..rules import common as C

TECHNIQUE = ("static analysis: interpretation of the column-selection and chain-rule routines of BaseLoss over arrays of "
             "symbols for every order of target parameters / observed states / target states of a 3-state 3-parameter "
             "abstract model; argument binding of the sensitivity integrations")

STATES = ["S", "I", "R"]
PARAMS = ["a", "b", "c"]


def loss_self(state_names, target_param, target_state, n_t=2):
    nS, nP = len(STATES), len(PARAMS)
    num_s = len(state_names)
    me = Obj("Loss", _num_state=nS, _num_param=nP, _stateName=list(state_names), _targetParam=target_param, _targetState=target_state)
    me.attrs["_stateIndex"] = [STATES.index(s) for s in state_names]
    me.attrs["_weight"] = SymArr.symbols("W", (n_t, num_s))
    me.attrs["_ode"] = Obj("Model")
    return me


def summaries(bl, repo, chain):
    npsum = np_summaries()
    summ = dict(npsum)

    def gsi(m, s):
        if isinstance(s, str):
            return [STATES.index(s)]
        return [STATES.index(x) for x in s]
    summ["Model.get_state_index"] = gsi
    summ["Model.get_param_index"] = lambda m, s: PARAMS.index(s)
    types = {"np.ndarray": lambda v: isinstance(v, SymArr)}

    def chained(name):
        fn = bl.methods[name]

        def call(me, *a, **kw):
            ab = Abs({}, types, summ, me)
            b = dict(zip(fn.params[1:], a))
            b.update(kw)
            kind, v = ab.run_function(fn.node, b)
            if kind == "raise":
                raise Raised(v)
            return v
        return call
    for name in chain:
        summ["Loss." + name] = chained(name)
    return summ, types


def expected_grad(X, D, W, cols, state_idx_count):
    n_t = X.shape[0]
    num_s = state_idx_count
    out = []
    for block in cols:       # one block of num_s columns per free variable
        t_ = A.Rat.const(0)
        for t in range(n_t):
            for s in range(num_s):
                d = D.at((t, s)) if D.ndim == 2 else D.at((t,))
                t_ = t_ + d * W.at((t, s)) * X.at((t, block[s]))
        out.append(t_)
    return SymArr((len(out),), out)


def check(repo, res, tier):
    res.rule("R-GRADSEL", "gradient component o = chain rule over the columns of free variable o, for every order of names")
    res.rule("R-SLOT", "diff_loss evaluated on the observed columns of the same integration; gradient = [params; initial values]")
    res.rule("R-INIT", "sensitivity integrations start from zeros / identity and use matching (func, jac)")
    res.s_clauses = ["S1 R-GRADSEL", "S2 R-SLOT", "S3 R-INIT"]
    res.n_clauses = ["numerical value of the integrated sensitivities (solver numerics; layout decided under C13)",
                     "the adjoint gradient (interpolation-based approximation)"]
    # the derivative paths integrate over the grid stored at construction: it must be the caller's (t0, t), as the cost path's is
    res.rule("R-TIMEGRID", "the sensitivity / Jacobian paths integrate from the caller's start time over the caller's observation times (same trajectory as the cost)")
    from .C06 import check_time_grid
    check_time_grid(repo, res, rule="R-TIMEGRID", paths=("derivatives",))
    bl = repo.cls(M.M_LOSS, "BaseLoss")
    nS, nP = len(STATES), len(PARAMS)
    n_t = 2
    total = nS + nS * nP + nS * nS
    X = SymArr.symbols("X", (n_t, total))
    chain = ("_getTargetParamSensIndex", "_getTargetParamIndex", "_getTargetStateSensIndex", "_getTargetStateIndex", "sens_to_grad")
    summ, types = summaries(bl, repo, chain)
    fP = bl.methods.get("_sensToGradWithoutIndex")
    fS = bl.methods.get("_sensToGradIVWithoutIndex")
    if fP is None or fS is None or fP.params[1:3] != ["sens", "diffLoss"] or fS.params[1:3] != ["sens", "diffLoss"]:
        # private helpers: when they are gone or reorganised their old contract says nothing about the property; the gradient is
        # decided end to end, through sensitivity / sensitivityIV, by R-SLOT below
        res.holds("R-GRADSEL", bl.methods["sensitivity"], "name-order-cases",
                  "the private selection helpers (_sensToGradWithoutIndex / _sensToGradIVWithoutIndex) no longer have the interface this refinement was written for; "
                  "the gradient is decided through the public sensitivity / sensitivityIV (R-SLOT)")
        fP = fS = None
    n_cases = 0
    bad_p, bad_s, und = [], [], []
    state_sets = [["I"], ["R"], ["S", "I"], ["I", "S"], ["R", "S"], ["S", "I", "R"], ["R", "I", "S"]]
    param_sets = [None, ["a"], ["c"], ["a", "b"], ["b", "a"], ["c", "a"], ["a", "b", "c"], ["c", "b", "a"], ["b", "c", "a"]]
    for sn in (state_sets if fP is not None else []):
        st_idx = [STATES.index(s) for s in sn]
        D = SymArr.symbols("D", (n_t, len(sn))) if len(sn) > 1 else SymArr.symbols("D", (n_t,))
        for tp in param_sets:
            n_cases += 1
            me = loss_self(sn, tp, None, n_t)
            ab = Abs({}, types, summ, me)
            p_idx = list(range(nP)) if tp is None else [PARAMS.index(p) for p in tp]
            want = expected_grad(X, D, me.attrs["_weight"], [[nS + p * nS + s for s in st_idx] for p in p_idx], len(sn))
            try:
                kind, out = ab.run_function(fP.node, {"sens": X.copy(), "diffLoss": D})
            except A.Undecided as e:
                und.append(str(e))
                continue
            if kind != "return" or not isinstance(out, SymArr) or out.size != want.size or any(a != b for a, b in zip(out.flat, want.flat)):
                k = next((i for i, (a, b) in enumerate(zip(out.flat, want.flat)) if a != b), None) if isinstance(out, SymArr) and out.size == want.size else None
                bad_p.append("observed %s, target_param %s -> %s" % (sn, tp, ("component %d uses %r, expected %r" % (k, out.flat[k], want.flat[k])) if k is not None else (out if kind == "raise" else "wrong length")))
        for ts in (None, ["S"], ["R"], ["I", "R"], ["R", "S"], ["R", "I", "S"]):
            n_cases += 1
            me = loss_self(sn, None, ts, n_t)
            ab = Abs({}, types, summ, me)
            q_idx = list(range(nS)) if ts is None else [STATES.index(s) for s in ts]
            want = expected_grad(X, D, me.attrs["_weight"], [[nS + nS * nP + q * nS + s for s in st_idx] for q in q_idx], len(sn))
            try:
                kind, out = ab.run_function(fS.node, {"sens": X.copy(), "diffLoss": D})
            except A.Undecided as e:
                und.append(str(e))
                continue
            if kind != "return" or not isinstance(out, SymArr) or out.size != want.size or any(a != b for a, b in zip(out.flat, want.flat)):
                k = next((i for i, (a, b) in enumerate(zip(out.flat, want.flat)) if a != b), None) if isinstance(out, SymArr) and out.size == want.size else None
                bad_s.append("observed %s, target_state %s -> %s" % (sn, ts, ("component %d uses %r, expected %r" % (k, out.flat[k], want.flat[k])) if k is not None else (out if kind == "raise" else "wrong length")))
    if und:
        res.undecided("R-GRADSEL", fP, "abstract-execution", "outside the modelled subset: %s" % und[0])
    if fP is not None:
        res.floor("name-order cases interpreted", n_cases, 100)
    if fP is not None:
      res.check(not bad_p, "R-GRADSEL", fP, "parameter-gradient(%d orders)" % (len(state_sets) * len(param_sets)),
              "for every order of observed states and target parameters, gradient component o is the chain rule over free parameter o's own sensitivity columns",
              "the parameter gradient is assembled from the wrong sensitivity columns (%d of %d cases), e.g. %s" % (len(bad_p), len(state_sets) * len(param_sets), "; ".join(bad_p[:2])),
              node=fP.node)
    if fS is not None:
      res.check(not bad_s, "R-GRADSEL", fS, "initial-value-gradient(%d orders)" % (len(state_sets) * 6),
              "for every order of observed states and target states, component o uses free initial value o's own sensitivity columns",
              "the initial-value gradient is wrong (%d of %d cases), e.g. %s" % (len(bad_s), len(state_sets) * 6, "; ".join(bad_s[:2])), node=fS.node)

    # ------------------------------------------------------------------ S2 R-SLOT
    for name, ivflag in (("sensitivity", False), ("sensitivityIV", True)):
        f = bl.methods[name]
        for full in (False, True):
            sn = ["R", "S"]
            me = loss_self(sn, ["b", "a"], ["I"] if ivflag else None, n_t)
            D = SymArr.symbols("D", (n_t, 2))
            seen = {}

            # the integrations behind the gradient are interpreted from their own source (jac / jacIV); only the library boundary - the
            # integrator - and the loss kernel are replaced
            x0 = SymArr.symbols("x0", (nS,))
            me.attrs.update({"_x0": x0, "_t": [0.0, 1.0, 2.5][:n_t + 1] if n_t + 1 <= 3 else [0.0] + [1.0 + 0.5 * k_ for k_ in range(n_t)], "_theta": Tok("theta-installed")})
            me.attrs["_ode"].attrs.update({"__open__": True, "_intName": None})
            lossobj = Obj("Kernel")
            me.attrs["_lossObj"] = lossobj

            def integ(func, jac, x0, t0, t, args=(), includeOrigin=False, full_output=False, method=None, nsteps=10000, _seen=seen):
                _seen["integ"] = _seen.get("integ", 0) + 1
                return (X.copy(), {"info": Tok("info")}) if full_output else X.copy()

            def set_param(m_, th, _seen=seen):
                _seen["theta"] = th

            def diff_loss(k_, yhat, *a, _seen=seen, **kw):
                _seen["diff_loss_arg"] = yhat
                return D
            summ2, types2 = summaries(bl, repo, chain + ("_sensToGradWithoutIndex", "_sensToGradIVWithoutIndex", "_sensToJTJWithoutIndex", "sens_to_jtj"))
            summ2.update({"ode_utils.integrateFuncJac": integ, "Loss._setParam": set_param, "Loss._setParamStateInput": set_param,
                          "set:Model.parameters": lambda o, v: None, "Kernel.residual": lambda k_, y_, *a, **kw: Tok("resid"), "Kernel.diff_loss": diff_loss})
            ab = Abs({}, types2, summ2, me)
            tag = "%s(full_output=%s)" % (name, full)
            try:
                kind, out = ab.run_function(f.node, {"theta": Tok("theta"), "full_output": full, "method": None})
            except A.Undecided as e:
                res.undecided("R-SLOT", f, tag, "outside the modelled subset: %s" % e)
                continue
            g = out[0] if (full and isinstance(out, tuple)) else out
            st_idx = [STATES.index(s) for s in sn]
            want = expected_grad(X, D, me.attrs["_weight"], [[nS + PARAMS.index(p) * nS + s for s in st_idx] for p in ("b", "a")], 2)
            if ivflag:
                want = append(want, expected_grad(X, D, me.attrs["_weight"], [[nS + nS * nP + STATES.index("I") * nS + s for s in st_idx]], 2))
            problems = []
            if kind != "return" or not isinstance(g, SymArr) or g.size != want.size or any(a != b for a, b in zip(g.flat, want.flat)):
                problems.append("returned gradient is %s, expected [grad w.r.t. b, a%s]" % (g if not isinstance(g, SymArr) else "different", ", x0_I" if ivflag else ""))
            if not full:
                arg = seen.get("diff_loss_arg")
                wantcols = X[:, st_idx]
                if not (isinstance(arg, SymArr) and arg.same(wantcols)):
                    problems.append("diff_loss is evaluated on %s, not on the observed-state columns of the integration" % (arg,))
            if seen.get("theta") != Tok("theta"):
                problems.append("theta is not installed before the sensitivity integration")
            if seen.get("integ") != 1:
                problems.append("the gradient is assembled from %s integrations, expected one" % seen.get("integ"))
            res.check(not problems, "R-SLOT", f, tag, "gradient = chain rule on the same integration's states and sensitivities, parameters first then initial values",
                      "; ".join(problems), node=f.node)

    # ------------------------------------------------------------------ S3 R-INIT
    # jac / jacIV interpreted with the integrator replaced by a recorder: what is integrated, from where, over which times
    for name, pair, iv in (("jac", ("ode_and_sensitivity_T", "ode_and_sensitivity_jacobian_T"), False),
                           ("jacIV", ("ode_and_sensitivityIV_T", "ode_and_sensitivityIV_jacobian_T"), True)):
        f = bl.methods[name]
        for full in (False, True):
            for sens_output in ((False, True) if not full else (False,)):
                sn = ["R", "S"]
                me = loss_self(sn, ["b", "a"], ["I"] if iv else None, n_t)
                x0 = SymArr.symbols("x0", (nS,))
                me.attrs.update({"_x0": x0, "_t": [0.0, 1.0, 2.5], "_theta": Tok("theta")})
                me.attrs["_ode"].attrs.update({"__open__": True, "_intName": None})
                me.attrs["_lossObj"] = Obj("Kernel")
                rec = {}

                def integ(func, jac, x0, t0, t, args=(), **kw):
                    rec["args"] = (func, jac, x0, t0, list(t), dict(kw))
                    return (X.copy(), {"info": Tok("info")}) if kw.get("full_output") else X.copy()
                summ3, types3 = summaries(bl, repo, chain)
                summ3.update({"ode_utils.integrateFuncJac": integ, "Loss._setParam": lambda m_, th: None, "Loss._setParamStateInput": lambda m_, th: None,
                              "set:Model.parameters": lambda o, v: rec.__setitem__("params", v),
                              "Kernel.residual": lambda k_, y_, *a, **kw: Tok("resid"), "Kernel.diff_loss": lambda k_, y_, *a, **kw: Tok("dl")})
                tag = "%s(full_output=%s,sens_output=%s)" % (name, full, sens_output)
                try:
                    kind, out = Abs({}, types3, summ3, me).run_function(f.node, {"theta": Tok("th"), "sens_output": sens_output, "full_output": full, "method": None})
                except A.Undecided as e:
                    res.undecided("R-INIT", f, tag, "outside the modelled subset: %s" % e)
                    continue
                problems = []
                a = rec.get("args")
                if kind != "return" or a is None:
                    problems.append("%s %s without integrating" % (kind, out))
                else:
                    if a[0] != ("method", pair[0]) or a[1] != ("method", pair[1]):
                        problems.append("integrates (%s, %s), expected (%s, %s)" % (a[0], a[1], pair[0], pair[1]))
                    want0 = append(x0, SymArr.zeros((nS * nP,)))
                    if iv:
                        want0 = append(want0, SymArr.eye(nS).flatten())
                    if not (isinstance(a[2], SymArr) and a[2].size == want0.size and all(p_ == q_ for p_, q_ in zip(a[2].flat, want0.flat))):
                        problems.append("initial condition is %s, expected [x0; zeros(nS*nP)%s]" % (a[2], "; vec(identity)" if iv else ""))
                    if a[3] != 0.0 or a[4] != [1.0, 2.5]:
                        problems.append("integrates from %r over %r, expected t[0] and t[1:]" % (a[3], a[4]))
                    if a[5].get("includeOrigin") not in (None, False):
                        problems.append("includeOrigin=%r shifts the rows against the observations" % a[5].get("includeOrigin"))
                    if rec.get("params") != Tok("theta"):
                        problems.append("the model's parameters are not set to self._theta before integrating")
                    # what is handed back: the selected sensitivity columns (parameters first, then initial values)
                    st_idx = [STATES.index(s_) for s_ in sn]
                    cols = [nS + PARAMS.index(p_) * nS + s_ for p_ in ("b", "a") for s_ in st_idx]
                    if iv:
                        cols += [nS + nS * nP + STATES.index("I") * nS + s_ for s_ in st_idx]
                    first = out[0] if isinstance(out, tuple) else out
                    if not (isinstance(first, SymArr) and first.same(X[:, cols])):
                        problems.append("the Jacobian handed back is not the target sensitivity columns in supplied order")
                    if sens_output and not full and not (isinstance(out, tuple) and isinstance(out[1], SymArr) and out[1].same(X)):
                        problems.append("sens_output does not return the full integration result")
                    if full and not (isinstance(out, tuple) and isinstance(out[1], dict) and isinstance(out[1].get("sens"), SymArr) and out[1]["sens"].same(X)):
                        problems.append("full_output['sens'] is not the integration result")
                res.check(not problems, "R-INIT", f, tag,
                          "integrates (%s, %s) from [x0; zeros%s] over (t[0], t[1:]) at self._theta and hands back the target columns" % (pair[0], pair[1], "; identity" if iv else ""),
                          "; ".join(problems), node=f.node)
    from ..rules.sweep import gate_call_arity
    gate_call_arity(repo, res, {"pygom/loss/base_loss.py", "pygom/loss/ode_loss.py"})
    # chain rule through the kernel: diff_loss of every kernel is the derivative of its own loss (shared with C14)
    from . import C14
    res.rule("R-KERNEL", "each kernel's diff_loss is d loss / d prediction, so the chain rule differentiates the cost that is reported")
    nk = sum(C14.check_derivatives(repo, res, name, r1="R-KERNEL", r2=None) for name in C14.KERNELS)
    res.floor("kernels whose first derivative was brought to canonical form", nk // 2, 5)
