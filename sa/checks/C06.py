"""C06 - cost is the stated loss of the model trajectory against the data.

 S1 R-ROWMATCH  _getSolution integrates from (x0, t0) exactly at the observation times
                (a copy of the constructor's t, no origin row), so solution row i belongs to
                observation i; len(t) == len(y) is asserted
 S2 R-COLUMNS   columns = solution[:, state indices] with the indices of the named states in
                the order supplied (abstract execution of the name->index helpers: no sort,
                no de-duplication)
 S3 R-WIRE      the five loss classes forward their constructor arguments to BaseLoss with the
                spread value in the spread slot; each _setLossType builds the same-named kernel
                from (y, weights[, spread]); cost = kernel.loss(trajectory columns)
 S4 R-KV        _setParam binds theta[i] to target_param[i]; _setParamStateInput slices
                parameters from the front and states from the back in all of its cases;
                _unrollState writes x0 at the index of the named state
"""
import ast
import itertools

from ..core.source import AnalysisError, norm, dotted, is_self_attr, walk_no_nested, const_value, kwarg
from ..core.cfg import cfg_of
from ..core.dataflow import dataflow_of
from ..core.absint import Abs, Obj, Tok, AList, Raised
from ..core.algebra import Undecided
from ..rules import model as M
from ..rules import common as C
from .C09 import eq_hook, var

TECHNIQUE = ("static analysis: argument binding of the integrator call in _getSolution, abstract execution of the "
             "name->index helpers and of _setParam/_setParamStateInput/_unrollState over enumerated target subsets, "
             "constructor/kernel wiring by parameter binding")

KERNELS = {"SquareLoss": ("Square", None), "NormalLoss": ("Normal", "sigma"), "GammaLoss": ("Gamma", "shape"),
           "PoissonLoss": ("Poisson", None), "NegBinomLoss": ("NegBinom", "k")}


def check(repo, res, tier):
    res.rule("R-ROWMATCH", "solution row i is the model state at observation time i")
    res.rule("R-COLUMNS", "observed columns are the named states in the supplied order")
    res.rule("R-WIRE", "loss class -> BaseLoss -> kernel argument wiring")
    res.rule("R-KV", "theta / target names / state values are bound by matching positions and names")
    res.s_clauses = ["S1 R-ROWMATCH", "S2 R-COLUMNS", "S3 R-WIRE", "S4 R-KV"]
    res.n_clauses = ["value of the loss formula at the true solution / zero cost at the generating parameters (solver numerics)",
                     "the kernels' formulas themselves (decided under C14)"]
    bl = repo.cls(M.M_LOSS, "BaseLoss")
    _rows(repo, res, bl)
    _columns(repo, res, bl)
    _wire(repo, res, bl)
    _ctor(repo, res, bl)
    check_time_grid(repo, res, paths=("cost", "derivatives"))
    _broadcast(repo, res, bl)
    _kv(repo, res, bl)


def constructed_attrs(repo, bl):
    """attribute bag left by an abstract run of BaseLoss.__init__ (names only matter: rules that build their own abstract
    loss object start from it so that an attribute a maintainer adds to the constructor exists in the abstract object too)"""
    from ..core.symarr import SymArr, np_summaries
    from ..core import algebra as A
    init = bl.methods["__init__"]
    summ = np_summaries()
    states = ["S", "I", "R"]
    summ.update({
        "ode_utils.check_array_type": lambda x, *a, **k: x if isinstance(x, SymArr) else SymArr.of(x),
        "ode_utils.str_or_list": lambda x: [x] if isinstance(x, str) else list(x),
        "Model.integrate2": lambda m_, tt: SymArr.symbols("sol", (3, 3)), "Model._iterStateList": lambda m_: list(states),
        "Model.get_state_index": lambda m_, s_: ([states.index(s_)] if isinstance(s_, str) else [states.index(str(q)) for q in list(s_)]),
        "Loss._setWeight_or_spread": lambda m_, *a, **k: Tok("W"), "Loss._setParam": lambda m_, th: None, "Loss._setX0": lambda m_, x: None,
        "Loss._setLossType": lambda m_: Tok("lossObj"),
        "InputError": lambda *a: Tok("InputError"), "RuntimeError": lambda *a: Tok("RuntimeError"), "AssertionError": lambda *a: Tok("AssertionError"),
    })
    me = Obj("Loss")
    ode = Obj("Model", parameters=Tok("params"), num_param=3, num_state=3)
    args = {"theta": SymArr.symbols("theta", (3,)), "ode": ode, "x0": SymArr.symbols("x0", (3,)), "t0": A.sym("t0"), "t": SymArr.symbols("t", (3,)),
            "y": SymArr.symbols("y", (3, 2)), "state_name": ["R", "S"], "state_weight": None, "spread_param": None, "target_param": None, "target_state": None}
    try:
        kind, _ = Abs({}, {}, summ, me).run_function(init.node, args)
    except Undecided:
        return {}
    return dict(me.attrs) if kind == "return" else {}


def _rows(repo, res, bl):
    """_getSolution / cost interpreted with the integrator replaced by a recorder: what is integrated, from where, at which
    times, under which parameters, and what is handed to the kernel.  Each scenario is two consecutive calls on the same
    object with the model's parameters changed from outside in between (the model object is shared), so that a call which
    relies on what an earlier call left in the model is seen."""
    from ..core.symarr import SymArr
    from ..core import algebra as A
    f = bl.methods["_getSolution"]
    n_t, nS = 3, 3
    X = SymArr.symbols("X", (n_t, nS))
    obs = SymArr.symbols("tobs", (n_t,))
    t0 = A.sym("t0")
    # the stored solver grid holds the caller's start time followed by the observation times (decided on the constructor by the
    # time-grid obligation, also for integer-typed observation times), so either source gives the same values
    t_all = SymArr((n_t + 1,), [t0] + list(obs.flat))
    x0 = SymArr.symbols("x0", (nS,))
    st_idx = [2, 0]
    base_attrs = constructed_attrs(repo, bl)
    problems = {"integrate-at-observations": [], "parameters-installed": [], "theta-applied": [], "returns-observed-columns": []}
    und = None
    n_runs = 0
    for first_theta, second_theta in ((None, None), ("th1", None), (None, "th2"), ("th1", "th2")):
        for all_solution in (False, True):
            me = Obj("Loss")
            me.attrs.update(base_attrs)
            me.attrs.update(dict(_theta=Tok("theta@ctor"), _x0=x0, _t0=t0, _observeT=obs, _t=t_all, _stateIndex=list(st_idx), _num_state=nS))
            ode = Obj("Model")
            ode.attrs.update({"__open__": True, "_intName": None})
            me.attrs["_ode"] = ode
            world = {"params": Tok("theta@ctor")}
            rec = []

            def integ(func, jac, x0, t0, t, *a, **kw):
                rec.append({"func": func, "jac": jac, "x0": x0, "t0": t0, "t": t, "kw": dict(kw), "extra": a, "params": world["params"]})
                return (X.copy(), {"info": Tok("info")}) if kw.get("full_output") else X.copy()

            def set_param(m_, th):
                m_.attrs["_theta"] = Tok("theta<-%s" % (th.label if isinstance(th, Tok) else th))
            from ..core.symarr import np_summaries as _nps
            summ = dict(_nps())
            summ.update({"ode_utils.integrateFuncJac": integ, "Loss._setParam": set_param,
                         "set:Model.parameters": lambda o, v: world.__setitem__("params", v)})
            for step, th in enumerate((first_theta, second_theta)):
                if step == 1:
                    world["params"] = Tok("changed-from-outside")
                del rec[:]
                try:
                    kind, out = Abs({}, {}, summ, me).run_function(f.node, {"theta": Tok(th) if th else None, "all_solution": all_solution})
                except Undecided as e:
                    und = str(e)
                    break
                n_runs += 1
                tag = "call %d (theta %s, all_solution=%s)" % (step + 1, "given" if th else "None", all_solution)
                if kind != "return" or len(rec) != 1:
                    problems["integrate-at-observations"].append("%s: %s after %d integrations" % (tag, kind, len(rec)))
                    continue
                r = rec[0]
                if r["func"] != ("method", "ode_T") or r["jac"] != ("method", "jacobian_T"):
                    problems["integrate-at-observations"].append("%s: integrates (%s, %s), expected the model's (ode_T, jacobian_T)" % (tag, r["func"], r["jac"]))
                if not (isinstance(r["x0"], SymArr) and r["x0"].same(x0)):
                    problems["integrate-at-observations"].append("%s: starts from %s, expected self._x0" % (tag, r["x0"]))
                if not (A.lift(r["t0"]) == t0 if not isinstance(r["t0"], (SymArr, Tok, tuple, list)) else False):
                    problems["integrate-at-observations"].append("%s: start time is %s, expected the caller's start time t0" % (tag, r["t0"]))
                if not (isinstance(r["t"], SymArr) and r["t"].same(obs)):
                    problems["integrate-at-observations"].append("%s: output times are %s, expected the observation times" % (tag, r["t"]))
                if r["kw"].get("includeOrigin") not in (None, False, 0):
                    problems["integrate-at-observations"].append("%s: includeOrigin=%r adds a row that has no observation" % (tag, r["kw"].get("includeOrigin")))
                if r["kw"].get("full_output") not in (None, False, 0):
                    problems["integrate-at-observations"].append("%s: full_output=%r returns a tuple" % (tag, r["kw"].get("full_output")))
                want_theta = Tok("theta<-%s" % th) if th else (me.attrs.get("_theta"))
                if th and me.attrs.get("_theta") != want_theta:
                    problems["theta-applied"].append("%s: the supplied theta is not applied through _setParam before integrating" % tag)
                if r["params"] != me.attrs.get("_theta"):
                    problems["parameters-installed"].append("%s: the model is integrated with parameters %s although the loss object holds %s" % (tag, r["params"], me.attrs.get("_theta")))
                want = X if all_solution else X[:, st_idx]
                if not (isinstance(out, SymArr) and out.same(want)):
                    problems["returns-observed-columns"].append("%s: returns %s, expected %s" % (tag, out, "the whole solution" if all_solution else "the observed columns in supplied order"))
            if und:
                break
        if und:
            break
    if und:
        res.undecided("R-ROWMATCH", f, "abstract-execution", "outside the modelled subset: %s" % und)
    else:
        msgs = {"integrate-at-observations": "integrates the model's (ode, jacobian) from (x0, t0) at the observation times, one row per observation, exactly once per call",
                "parameters-installed": "on every call the model's parameters are set to self._theta before integrating, whatever an earlier call or another user of the model left there",
                "theta-applied": "a supplied theta is applied through _setParam first",
                "returns-observed-columns": "hands back the observed columns of that integration (or all of it on request)"}
        for k_, bad in problems.items():
            res.check(not bad, "R-ROWMATCH", f, k_, msgs[k_] + " (%d abstract calls)" % n_runs, "; ".join(bad[:2]), node=f.node)
    # cost / costIV = kernel loss of that trajectory
    for name in ("cost", "costIV"):
        g = bl.methods.get(name)
        if g is None:
            res.violated("R-ROWMATCH", bl.methods["_getSolution"], name, "%s vanished" % name)
            continue
        for aw in (True, False):
            me = Obj("Loss")
            me.attrs["_lossObj"] = Obj("Kernel")
            calls = []

            def get_solution(m_, theta=None, all_solution=False):
                calls.append(("solve", theta))
                return Tok("trajectory")

            def loss(k_, yhat, apply_weighting=True):
                calls.append(("loss", yhat, apply_weighting))
                return 7.25
            summ = {"Loss._getSolution": get_solution, "Kernel.loss": loss, "Loss._setParamStateInput": lambda m_, th: calls.append(("setPSI", th)),
                    "Loss._setParam": lambda m_, th: calls.append(("setParam", th)), "np.nan_to_num": lambda x, *a, **k: x, "np.inf": float("inf")}
            th = Tok("theta")
            try:
                kind, out = Abs({}, {}, summ, me).run_function(g.node, {"theta": th, "apply_weighting": aw})
            except Undecided as e:
                res.undecided("R-ROWMATCH", g, "%s-is-loss-of-trajectory" % name, "outside the modelled subset: %s" % e)
                break
            if name == "cost":
                want = [("solve", th), ("loss", Tok("trajectory"), aw)]
            else:
                want = [("setPSI", th), ("solve", None), ("loss", Tok("trajectory"), aw)]
            ok = kind == "return" and out == 7.25 and calls == want
            res.check(ok, "R-ROWMATCH", g, "%s-is-loss-of-trajectory(apply_weighting=%s)" % (name, aw),
                      "%s(theta) = kernel.loss(_getSolution at theta) with the caller's weighting flag" % name,
                      "%s(theta) does %s and returns %s (%s); expected %s" % (name, calls, out, kind, want), node=g.node)


def _columns(repo, res, bl):
    f = bl.methods["_getSolution"]
    # (which columns _getSolution hands back is decided by interpretation: R-ROWMATCH returns-observed-columns; how the index list
    #  is built from the names by interpretation of the constructor: R-KV ctor(...))
    # the helpers keep the supplied order (abstract execution on a 3-state model)
    cls = M.sim_class(repo)
    names = ["S", "I", "R"]
    me = Obj("Model")
    me.attrs["_stateList"] = [var(n) for n in names]
    me.attrs["_stateDict"] = {n: Tok(n, "sym") for n in names}
    me.attrs["_vectorStateDict"] = {}
    types = {"sympy.Symbol": lambda v: isinstance(v, Tok) and v.kind == "sym", "ODEVariable": lambda v: isinstance(v, Obj) and v.cls == "ODEVariable"}
    gsi = repo.resolve_method(cls, "get_state_index")
    esi = repo.resolve_method(cls, "_extractStateIndex")
    ess = repo.resolve_method(cls, "_extractStateIndexSingle")
    esy = repo.resolve_method(cls, "_extractStateSymbol")

    import re as _re
    base = repo.module(M.M_BASE)
    regex = {}
    for st_ in base.tree.body:
        if isinstance(st_, ast.Assign) and isinstance(st_.targets[0], ast.Name) and isinstance(st_.value, ast.Call) and dotted(st_.value.func) == "re.compile":
            regex[st_.targets[0].id] = _re.compile(const_value(st_.value.args[0]))
    rsumm = {}
    for rn, rx in regex.items():
        rsumm[rn + ".search"] = (lambda s_, _rx=rx: (lambda m_: Obj("Match", _g=m_.group()) if m_ else None)(_rx.search(s_)))
        rsumm[rn + ".findall"] = (lambda s_, _rx=rx: _rx.findall(s_))
    rsumm["Match.group"] = lambda m_: m_.attrs["_g"]
    undecided = []

    def run(fn, arg, summ):
        sm = dict(rsumm)
        sm.update(summ)
        ab = Abs({}, types, sm, me, {}, eq=eq_hook)
        try:
            return ab.run_function(fn.node, {fn.params[1]: arg})
        except Undecided as e:
            undecided.append((fn, str(e)))
            return ("undecided", str(e))
    # bottom-up: symbol, single index, list, public entry
    k, v = run(esy, "I", {})
    res.check(k == "return" and v == Tok("I", "sym"), "R-COLUMNS", esy, "symbol", "_extractStateSymbol('I') is the symbol I", "_extractStateSymbol('I') -> %s %s" % (k, v))
    k, v = run(esy, "Q", {})
    res.check(k == "raise", "R-COLUMNS", esy, "unknown-state", "an unknown state name raises", "_extractStateSymbol('Q') -> %s" % (v,))
    s1 = {"Model._extractStateSymbol": lambda me_, s: me_.attrs["_stateDict"][s] if s in me_.attrs["_stateDict"] else (_ for _ in ()).throw(Raised("InputError"))}
    for i, nme in enumerate(names):
        k, v = run(ess, nme, s1)
        res.check(k == "return" and v == i, "R-COLUMNS", ess, "index(%s)" % nme, "index of %s is %d" % (nme, i), "_extractStateIndexSingle('%s') -> %s %s" % (nme, k, v))
    s2 = {"Model._extractStateIndexSingle": lambda me_, s: names.index(s if isinstance(s, str) else s.label)}
    bad = []
    for perm in list(itertools.permutations(names, 2)) + list(itertools.permutations(names, 3)) + [("R", "R")]:
        k, v = run(esi, list(perm), s2)
        if not (k == "return" and v == [names.index(p) for p in perm]):
            bad.append("%s -> %s" % (list(perm), v))
    k, v = run(esi, "I", s2)
    if not (k == "return" and v == [1]):
        bad.append("'I' -> %s" % (v,))
    res.check(not bad, "R-COLUMNS", esi, "order-kept", "name lists map to index lists in the same order (14 orders, with repetition)",
              "the indices do not follow the order of the names: %s" % "; ".join(bad[:3]), node=esi.node)
    s3 = {"Model._extractStateIndex": lambda me_, s: ("called", s)}
    k, v = run(gsi, ["R", "S"], s3)
    res.check(k == "return" and v == ("called", ["R", "S"]), "R-COLUMNS", gsi, "delegates", "get_state_index hands a list of names on unchanged",
              "get_state_index(['R','S']) -> %s" % (v,))
    if undecided:
        # a modelling gap is never a verdict: withdraw the verdicts of this clause and report the gap
        res.obs = [o for o in res.obs if not (o.rule == "R-COLUMNS" and o.status == "violated" and any(fn.construct in o.construct for fn, _ in undecided))]
        for fn, why in undecided[:1]:
            res.undecided("R-COLUMNS", fn, "abstract-execution", "outside the modelled subset: %s" % why)


def _wire(repo, res, bl):
    """every loss class is *constructed* by interpreting its own __init__ (through super() into BaseLoss.__init__ and back into its
    _setLossType); the broadcasting helper and the kernel classes are recorders.  What must come out: the kernel named after the class,
    holding the observations, the weights derived from the caller's state_weight and (where the class has one) the spread derived from
    the caller's spread argument - and nothing else of the caller's arguments mixed up on the way."""
    from ..core.symarr import SymArr, np_summaries
    from ..core import algebra as A
    mod = repo.module(M.M_ODELOSS)
    sol_fn = repo.func(M.M_UTILS + ".checks_and_conversions", "str_or_list")
    model_states = ["S", "I", "R"]
    n, names = 3, ["R", "I"]
    n_cls = 0
    for cname, (kernel, spread) in KERNELS.items():
        c = mod.classes.get(cname)
        if c is None:
            res.violated("R-WIRE", "%s::%s" % (mod.rel, cname), None, "loss class %s vanished" % cname)
            continue
        init = repo.resolve_method(c, "__init__")
        n_cls += 1
        kcls = repo.cls(M.M_LOSSTYPE, kernel)
        kparams = repo.resolve_method(kcls, "__init__").params[1:]
        spread_kw = [p_ for p_ in init.params if p_ not in ("self", "theta", "ode", "x0", "t0", "t", "y", "state_name", "state_weight", "target_param", "target_state")]
        for use_kw in (False, True):
            y = SymArr((n, 2), [A.sym("y_%s[%d]" % (names[j], i)) for i in range(n) for j in range(2)])
            t = SymArr.symbols("t", (n,))
            t0, x0, theta = A.sym("t0"), SymArr.symbols("x0", (3,)), SymArr.symbols("theta", (3,))
            SW, SP = SymArr.symbols("sw", (n, 2)), SymArr.symbols("sp", (n, 2))
            built = []
            summ = np_summaries()

            def bcast(me_, nn, pp, x, is_weights=True, **k):
                return ("broadcast", x, bool(is_weights))

            def mk_kernel(kname, params):
                def ctor(*a, **k):
                    b = dict(zip(params, a))
                    b.update(k)
                    built.append((kname, b))
                    return Obj("Kernel", kind=kname, **{"arg_" + k_: v for k_, v in b.items()})
                return ctor
            for kn in ("Square", "Normal", "Gamma", "Poisson", "NegBinom"):
                kp = repo.resolve_method(repo.cls(M.M_LOSSTYPE, kn), "__init__").params[1:]
                summ[kn] = mk_kernel(kn, kp)
                summ["loss_type." + kn] = summ[kn]
            summ.update({
                "ode_utils.check_array_type": lambda x, *a, **k: x if isinstance(x, SymArr) else SymArr.of(x),
                "Model.integrate2": lambda m_, tt: SymArr.symbols("sol", (n, 3)),
                "Model._iterStateList": lambda m_: list(model_states),
                "Model.get_state_index": lambda m_, s_: ([model_states.index(s_)] if isinstance(s_, str) else [model_states.index(str(q)) for q in list(s_)]),
                "Model.get_param_index": lambda m_, s_: (["a", "b", "c"].index(str(s_)) if isinstance(s_, str) else [["a", "b", "c"].index(str(q)) for q in s_]),
                "Model._iterParamList": lambda m_: ["a", "b", "c"], "Model.param_list": lambda m_: ["a", "b", "c"],
                "Loss._setWeight_or_spread": bcast, "Loss._setParam": lambda me_, v=None, *a, **k: built.append(("setParam", v)), "Loss._setX0": lambda me_, v=None, *a, **k: built.append(("setX0", v)),
                "InputError": lambda *a: Tok("InputError"), "RuntimeError": lambda *a: Tok("RuntimeError"), "AssertionError": lambda *a: Tok("AssertionError"),
            })

            def str_or_list(x, _f=sol_fn):
                kind_, v = Abs({}, {}, {}, None).run_function(_f.node, {_f.params[0]: x})
                if kind_ == "raise":
                    raise Raised(v)
                return v
            summ["ode_utils.str_or_list"] = str_or_list
            ode = Obj("Model", parameters=Tok("params"), num_param=3, num_state=3)
            me = Obj("Loss")
            args = {"theta": theta, "ode": ode, "x0": x0, "t0": t0, "t": t, "y": y, "state_name": list(names), "state_weight": SW}
            if spread_kw:
                args[spread_kw[0]] = SP
            tag = "constructed(%s)" % ("keywords" if use_kw else "positional")
            ab = Abs({}, {}, summ, me)
            ab.self_class = (repo, c)
            ab.class_methods = set(repo.all_methods(c))
            ab.module = init.module
            ab.cur_cls = init.cls
            try:
                if use_kw:
                    kind, out = ab.run_function(init.node, dict(args))
                else:
                    order = [p_ for p_ in init.params[1:] if p_ in args]
                    kind, out = ab.run_function(init.node, {p_: args[p_] for p_ in order})
            except Undecided as e:
                res.undecided("R-WIRE", init, tag, "outside the modelled subset: %s" % e)
                continue
            problems = []
            lo = me.attrs.get("_lossObj")
            if kind != "return":
                problems.append("a valid construction raises %s" % (out,))
            elif not (isinstance(lo, Obj) and lo.cls == "Kernel"):
                problems.append("no loss kernel is stored (self._lossObj = %r)" % (lo,))
            else:
                if lo.attrs["kind"] != kernel:
                    problems.append("the kernel is %s, the class is named after %s" % (lo.attrs["kind"], kernel))
                kb = {k_[4:]: v for k_, v in lo.attrs.items() if k_.startswith("arg_")}
                ky = kb.get(kparams[0])
                if not (isinstance(ky, SymArr) and ky.size == y.size and all(a_ == b_ for a_, b_ in zip(ky.flat, y.flat))):
                    problems.append("the kernel's observations are %r, not the caller's y" % (ky,))
                kw_ = kb.get(kparams[1])
                if not (isinstance(kw_, tuple) and kw_[0] == "broadcast" and kw_[1] is SW and kw_[2] is True):
                    problems.append("the kernel's weights are %r, expected the broadcast of the caller's state_weight" % (kw_,))
                tt = me.attrs.get("_t")
                if not (isinstance(tt, SymArr) and tt.size == n + 1 and tt.flat[0] == t0 and all(a_ == b_ for a_, b_ in zip(tt.flat[1:], t.flat))):
                    problems.append("the solver grid is %r, expected the caller's t0 followed by t" % (tt,))
                if not any(k_ == "setParam" and v is theta for k_, v in built) or not any(k_ == "setX0" and v is x0 for k_, v in built):
                    problems.append("theta / x0 do not reach the parameter and initial-state setters unchanged (%s)" % [(k_, v) for k_, v in built if k_ in ("setParam", "setX0")])
                if me.attrs.get("_ode") is not ode:
                    problems.append("the model object stored is not the caller's")
                if spread:
                    ks = kb.get(kparams[2])
                    if not (isinstance(ks, tuple) and ks[0] == "broadcast" and ks[1] is SP and ks[2] is False):
                        problems.append("the kernel's %s is %r, expected the broadcast of the caller's %s" % (kparams[2], ks, spread_kw[0] if spread_kw else "spread"))
            res.check(not problems, "R-WIRE", init, tag, "%s builds %s on the observations with weights from state_weight%s" % (cname, kernel, " and %s from the caller's spread" % spread if spread else ""),
                      "%s: %s" % (cname, "; ".join(problems[:2])), node=init.node)
    res.floor("loss classes constructed", n_cls, 5)


def check_time_grid(repo, res, rule="R-ROWMATCH", paths=("cost",)):
    """BaseLoss.__init__ interpreted on concrete arrays: the start time and the observation times the cost path uses (_t0, _observeT)
    and the grid the sensitivity / Jacobian / Hessian paths use (_t) must both be the caller's (t0, t) - also when the observation
    times are integer-typed and t0 is not a whole number (numpy casts a value inserted into an integer array)"""
    from ..core.numarr import NumArr, num_summaries
    bl = repo.cls(M.M_LOSS, "BaseLoss")
    init = bl.methods["__init__"]
    sol_fn = repo.func(M.M_UTILS + ".checks_and_conversions", "str_or_list")
    model_states = ["S", "I", "R"]
    problems, n = [], 0
    for tlabel, tvals in (("real observation times", [1.0, 2.0, 3.5]), ("integer observation times", [1, 2, 4])):
        for t0 in (0.5, 0, 0.25):
            t = NumArr(list(tvals))
            y = NumArr([[0.1 * (i + 1), 0.2 * (i + 1)] for i in range(3)])
            summ = dict(num_summaries())
            summ.update({
                "ode_utils.check_array_type": lambda x, *a, **k: x if isinstance(x, NumArr) else NumArr(list(x)),
                "Model.integrate2": lambda m_, tt: NumArr([[0.0] * 3 for _ in range(3)]),
                "Model._iterStateList": lambda m_: list(model_states),
                "Model.get_state_index": lambda m_, s_: ([model_states.index(s_)] if isinstance(s_, str) else [model_states.index(str(q)) for q in list(s_)]),
                "Model.get_param_index": lambda m_, s_: (["a", "b", "c"].index(str(s_)) if isinstance(s_, str) else [["a", "b", "c"].index(str(q)) for q in s_]),
                "Model._iterParamList": lambda m_: ["a", "b", "c"], "Model.param_list": lambda m_: ["a", "b", "c"],
                "Loss._setWeight_or_spread": lambda me_, *a, **k: Tok("W"), "Loss._setParam": lambda me_, *a, **k: None, "Loss._setX0": lambda me_, *a, **k: None,
                "Loss._setLossType": lambda me_, *a, **k: Tok("lossObj"),
                "InputError": lambda *a: Tok("InputError"), "RuntimeError": lambda *a: Tok("RuntimeError"), "AssertionError": lambda *a: Tok("AssertionError"),
            })

            def str_or_list(x, _f=sol_fn):
                kind_, v = Abs({}, {}, {}, None).run_function(_f.node, {_f.params[0]: x})
                if kind_ == "raise":
                    raise Raised(v)
                return v
            summ["ode_utils.str_or_list"] = str_or_list
            ode = Obj("Model", parameters=Tok("params"), num_param=3, num_state=3)
            me = Obj("Loss")
            args = {"theta": NumArr([0.4, 0.3, 0.2]), "ode": ode, "x0": NumArr([1.0, 2.0, 3.0]), "t0": t0, "t": t, "y": y, "state_name": ["R", "I"], "state_weight": None,
                    "spread_param": None, "target_param": None, "target_state": None}
            try:
                kind, out = Abs({}, {"np.ndarray": lambda v: isinstance(v, NumArr)}, summ, me).run_function(init.node, args)
            except Undecided as e:
                res.undecided(rule, init, "time-grid", "outside the modelled subset: %s" % e)
                return
            n += 1
            if kind != "return":
                problems.append("%s, t0=%r: construction raises %s" % (tlabel, t0, out))
                continue
            g0, ot, tt = me.attrs.get("_t0"), me.attrs.get("_observeT"), me.attrs.get("_t")
            want = [t0] + list(tvals)
            if "cost" in paths and (g0 != t0 or not (isinstance(ot, NumArr) and ot.tolist() == list(tvals))):
                problems.append("%s, t0=%r: the cost path integrates from %r over %r" % (tlabel, t0, g0, ot.tolist() if isinstance(ot, NumArr) else ot))
            if "derivatives" in paths and not (isinstance(tt, NumArr) and tt.tolist() == want):
                problems.append("%s, t0=%r: the grid the sensitivity paths integrate over is %r, the caller's start time and observation times are %r "
                                "(the cost and its derivatives are then computed on different trajectories)" % (tlabel, t0, tt.tolist() if isinstance(tt, NumArr) else tt, want))
    res.check(not problems, rule, init, "time-grid", "%d constructions (real and integer observation times, whole and fractional start time): the %s path%s the caller's start time and observation times" % (n, " and ".join(paths), "s use" if len(paths) > 1 else " uses"), "; ".join(problems[:2]), node=init.node)


def _ctor(repo, res, bl, rule="R-KV"):
    """abstract execution of BaseLoss.__init__: whatever order the caller names observed states, target parameters and
    target states in is the order stored, and data column j stays paired with the j-th observed name"""
    from ..core.symarr import SymArr, np_summaries
    from ..core import algebra as A
    init = bl.methods["__init__"]
    model_states = ["S", "I", "R"]
    n = 3
    sol_fn = repo.func(M.M_UTILS + ".checks_and_conversions", "str_or_list")
    cases = []
    for sn in (["R", "I"], ["I", "R"], ("R", "S"), "I", ["S", "I", "R"], ["R", "S", "I"], None):
        cases.append((sn, None, None))
    cases += [(["R", "I"], ["c", "a"], None), (["I", "R"], ["a", "c"], ["R", "S"]), ("R", "b", "I"), (["R", "I"], ["b"], ["I", "S"])]
    n_ok = 0
    for sn, tp, ts in cases:
        names = model_states if sn is None else [sn] if isinstance(sn, str) else list(sn)
        p_ = len(names)
        tag = "ctor(state_name=%r,target_param=%r,target_state=%r)" % (sn, tp, ts)
        y = SymArr((n, p_), [A.sym("y_%s[%d]" % (names[j], i)) for i in range(n) for j in range(p_)])
        if p_ == 1:
            y = y.reshape((n,))
        t = SymArr.symbols("t", (n,))
        t0, x0, theta = A.sym("t0"), SymArr.symbols("x0", (3,)), SymArr.symbols("theta", (3,))
        calls = {}
        summ = np_summaries()

        def rec(name, ret=None):
            def fn(me_, *a, **k):
                calls.setdefault(name, []).append(a)
                return ret
            return fn
        summ.update({
            "ode_utils.check_array_type": lambda x, *a, **k: x if isinstance(x, SymArr) else SymArr.of(x),
            "Model.integrate2": lambda m_, tt: SymArr.symbols("sol", (n, 3)),
            "Model._iterStateList": lambda m_: list(model_states),
            "Model.get_state_index": lambda m_, s_: ([model_states.index(s_)] if isinstance(s_, str) else [model_states.index(str(q)) for q in list(s_)]),
            "Model.get_param_index": lambda m_, s_: (["a", "b", "c"].index(str(s_)) if isinstance(s_, str) else [["a", "b", "c"].index(str(q)) for q in s_]),
            "Model._iterParamList": lambda m_: ["a", "b", "c"], "Model.param_list": lambda m_: ["a", "b", "c"],
            "Loss._setWeight_or_spread": rec("weight", Tok("W")), "Loss._setParam": rec("setParam"), "Loss._setX0": rec("setX0"),
            "Loss._setLossType": rec("lossType", Tok("lossObj")),
            "InputError": lambda *a: Tok("InputError"), "RuntimeError": lambda *a: Tok("RuntimeError"), "AssertionError": lambda *a: Tok("AssertionError"),
        })

        def str_or_list(x, _f=sol_fn):
            kind, v = Abs({}, {}, {}, None).run_function(_f.node, {_f.params[0]: x})
            if kind == "raise":
                raise Raised(v)
            return v
        summ["ode_utils.str_or_list"] = str_or_list
        ode = Obj("Model", parameters=Tok("params"), num_param=3, num_state=3)
        me = Obj("Loss")
        args = {"theta": theta, "ode": ode, "x0": x0, "t0": t0, "t": t, "y": y, "state_name": sn, "state_weight": None, "spread_param": None,
                "target_param": tp, "target_state": ts}
        try:
            kind, out = Abs({}, {}, summ, me).run_function(init.node, args)
        except Undecided as e:
            res.undecided(rule, init, tag, "outside the modelled subset: %s" % e)
            continue
        if kind == "raise":
            res.violated(rule, init, tag, "a valid construction raises %s" % (out,), node=init.node)
            continue
        problems = []
        got = me.attrs.get("_stateName")
        if list(got if isinstance(got, (list, tuple)) else [got]) != names:
            problems.append("_stateName is %r, the caller's order is %r" % (got, names))
        gi = me.attrs.get("_stateIndex")
        want_i = [model_states.index(q) for q in names]
        if list(gi if isinstance(gi, (list, tuple)) else [gi]) != want_i:
            problems.append("_stateIndex is %r, expected %r" % (gi, want_i))
        ydat = me.attrs.get("_y")
        if not isinstance(ydat, SymArr) or ydat.size != n * p_:
            problems.append("_y is %r" % (ydat,))
        else:
            y2 = ydat.reshape((n, p_)) if ydat.ndim == 1 else ydat
            for i in range(n):
                for j in range(p_):
                    w_ = A.sym("y_%s[%d]" % (names[j], i))
                    if not (y2.at((i, j)) == w_):
                        problems.append("data entry [%d,%d] is %r: column %d is no longer the data of %r" % (i, j, y2.at((i, j)), j, names[j]))
                        break
                else:
                    continue
                break
        for attr, given in (("_targetParam", tp), ("_targetState", ts)):
            g = me.attrs.get(attr)
            w_ = None if given is None else [given] if isinstance(given, str) else list(given)
            if (g is None) != (w_ is None) or (w_ is not None and list(g) != w_):
                problems.append("%s is %r, the caller gave %r" % (attr, g, given))
        tt = me.attrs.get("_t")
        if not (isinstance(tt, SymArr) and tt.size == n + 1 and tt.flat[0] == t0 and all(a_ == b_ for a_, b_ in zip(tt.flat[1:], t.flat))):
            problems.append("_t is %r, expected [t0, t...]" % (tt,))
        ot = me.attrs.get("_observeT")
        if not (isinstance(ot, SymArr) and ot.same(t)):
            problems.append("_observeT is %r" % (ot,))
        if [a_[0] for a_ in calls.get("setParam", [])] != [theta] and not (calls.get("setParam") and calls["setParam"][0][0] is theta):
            problems.append("_setParam called with %r" % (calls.get("setParam"),))
        if not (calls.get("setX0") and calls["setX0"][0][0] is x0):
            problems.append("_setX0 called with %r" % (calls.get("setX0"),))
        n_ok += not problems
        res.check(not problems, rule, init, tag, "names, indices and data columns are stored in the caller's order",
                  "; ".join(problems[:2]) + ": values and data are matched to these names by position, so the loss compares the wrong quantities", node=init.node)
    return n_ok


def _broadcast(repo, res, bl):
    """_setWeight_or_spread: every accepted weight / spread form becomes an (observations x states) array whose
    entry [t, s] is the value meant for observation t of state s"""
    from ..core.symarr import SymArr, np_summaries
    from ..core import algebra as A
    f = bl.methods["_setWeight_or_spread"]
    summ = np_summaries()

    def cat(x, accept_booleans=False):
        return x if isinstance(x, SymArr) else SymArr.of(x if isinstance(x, (list, tuple)) else [x])
    summ["ode_utils.check_array_type"] = cat
    summ["AssertionError"] = lambda *a: Tok("AssertionError")
    n, p = 3, 2
    c = A.sym("c")
    per_state = SymArr.symbols("ws", (p,))
    per_obs = SymArr.symbols("wt", (n,))
    full = SymArr.symbols("wf", (n, p))
    cases = [
        ("scalar", (n, p, [c]), SymArr((n, p), [c] * (n * p))),
        ("per-state vector", (n, p, per_state), SymArr((n, p), [per_state.flat[s_] for _t in range(n) for s_ in range(p)])),
        ("full matrix", (n, p, full), full),
        ("scalar, one state", (n, 1, [c]), SymArr((n, 1), [c] * n)),
        ("per-observation vector, one state", (n, 1, per_obs), per_obs),
    ]
    for tag, (nn, pp, x), want in cases:
        for is_w in (True, False):
            try:
                kind, out = Abs({}, {}, summ, Obj("Loss")).run_function(f.node, {"n": nn, "p": pp, "x": x if isinstance(x, SymArr) else list(x), "is_weights": is_w})
            except Undecided as e:
                res.undecided("R-WIRE", f, "broadcast(%s)" % tag, "outside the modelled subset: %s" % e)
                continue
            ok = kind == "return" and isinstance(out, SymArr) and out.size == want.size and all(a_ == b_ for a_, b_ in zip(out.flat, want.flat)) \
                and (out.shape == want.shape or out.ndim == 1)
            res.check(ok, "R-WIRE", f, "broadcast(%s,%s)" % (tag, "weights" if is_w else "spread"),
                      "%s -> entry [t, s] is the value for observation t of state s" % tag,
                      "%s is expanded to %s (%s), expected %s" % (tag, out.tolist() if isinstance(out, SymArr) else out, kind, want.tolist()), node=f.node)
    # wrong sizes are rejected
    for tag, (nn, pp, x) in (("wrong length", (n, p, SymArr.symbols("w", (4,)))), ("wrong matrix", (n, p, SymArr.symbols("w", (2, 3))))):
        try:
            kind, out = Abs({}, {}, summ, Obj("Loss")).run_function(f.node, {"n": nn, "p": pp, "x": x, "is_weights": True})
            res.check(kind == "raise", "R-WIRE", f, "broadcast-rejects(%s)" % tag, "a %s weight array is rejected" % tag,
                      "a %s weight array is accepted and becomes %s" % (tag, out), node=f.node)
        except Undecided as e:
            res.undecided("R-WIRE", f, "broadcast-rejects(%s)" % tag, str(e))


def _kv(repo, res, bl):
    try:
        _kv_body(repo, res, bl)
    except Undecided as e:
        res.undecided("R-KV", bl.methods["_setParam"], "abstract-execution", "outside the modelled subset: %s" % e)


def _kv_body(repo, res, bl):
    sp = bl.methods["_setParam"]
    types = {"Number": lambda v: isinstance(v, (int, float)) and not isinstance(v, bool), "ODEVariable": lambda v: isinstance(v, Obj) and v.cls == "ODEVariable"}
    summ = {"ode_utils.check_array_type": lambda x: list(x) if isinstance(x, (list, tuple)) else [x], "np.copy": lambda x: ("copy", tuple(x))}
    vals = [Tok("v%d" % i) for i in range(3)]
    bad = []
    n_cases = 0
    for k in (2, 3):
        for perm in itertools.permutations(["a", "b", "c"], k):
            n_cases += 1
            me = Obj("Loss", _num_param=3, _targetParam=list(perm))
            ab = Abs({}, types, summ, me)
            try:
                kind, _ = ab.run_function(sp.node, {"theta": list(vals[:k])})
            except Undecided as e:
                res.undecided("R-KV", sp, "abstract-execution", str(e))
                return
            want = {perm[i]: vals[i] for i in range(k)}
            if not (kind == "return" and me.attrs.get("_theta") == want):
                bad.append("target %s -> %s" % (list(perm), me.attrs.get("_theta")))
    me = Obj("Loss", _num_param=3, _targetParam=["b"])
    kind, _ = Abs({}, types, summ, me).run_function(sp.node, {"theta": [vals[0]]})
    n_cases += 1
    if not (kind == "return" and me.attrs.get("_theta") == {"b": vals[0]}):
        bad.append("single target ['b'] -> %s" % me.attrs.get("_theta"))
    # a single target given as a variable object is bound under its name; two values for one target are refused
    summ1 = dict(summ)
    summ1["str"] = lambda v: v.attrs["ID"] if isinstance(v, Obj) and v.cls == "ODEVariable" else str(v)
    me = Obj("Loss", _num_param=3, _targetParam=[Obj("ODEVariable", ID="b", name="b", __str__="b")])
    kind, _ = Abs({}, types, summ1, me).run_function(sp.node, {"theta": [vals[1]]})
    n_cases += 1
    got1 = me.attrs.get("_theta")
    if not (kind == "return" and isinstance(got1, dict) and len(got1) == 1 and list(got1.values()) == [vals[1]]
            and (list(got1)[0] == "b" or (isinstance(list(got1)[0], Obj) and list(got1)[0].attrs.get("ID") == "b"))):
        bad.append("single target given as a variable object -> %s" % (got1,))
    me = Obj("Loss", _num_param=3, _targetParam=["b"])
    kind, _ = Abs({}, types, summ, me).run_function(sp.node, {"theta": [vals[0], vals[1]]})
    n_cases += 1
    if kind != "raise":
        bad.append("2 values for the single target ['b'] accepted -> %s" % me.attrs.get("_theta"))
    # no target: the loss object keeps the values of theta in an array of its own (however the copy is spelt)
    from ..core.numarr import NumArr as _NA, num_summaries as _ns
    me = Obj("Loss", _num_param=3, _targetParam=None)
    th_in = _NA([0.5, 1.5, 2.5])
    summ_n = dict(_ns())
    summ_n["ode_utils.check_array_type"] = lambda x: x if isinstance(x, _NA) else _NA(list(x))
    types_n = dict(types)
    types_n["np.ndarray"] = lambda v: isinstance(v, _NA)
    kind, _ = Abs({}, types_n, summ_n, me).run_function(sp.node, {"theta": th_in})
    n_cases += 1
    kept = me.attrs.get("_theta")
    if not (kind == "return" and isinstance(kept, _NA) and kept.tolist() == [0.5, 1.5, 2.5]):
        bad.append("no target -> %s" % (kept,))
    else:
        th_in[0] = 9.0
        if kept.tolist() != [0.5, 1.5, 2.5]:
            bad.append("no target: the loss object keeps the caller's array itself - a later change of the caller's theta changes the stored parameters")
    me = Obj("Loss", _num_param=3, _targetParam=["a", "b"])
    kind, _ = Abs({}, types, summ, me).run_function(sp.node, {"theta": list(vals)})
    n_cases += 1
    if kind != "raise":
        bad.append("3 values for 2 targets accepted -> %s" % me.attrs.get("_theta"))
    res.check(not bad, "R-KV", sp, "theta-by-target-order(%d cases)" % n_cases, "theta[i] is bound to target_param[i] for every subset and order; wrong lengths raise",
              "theta is bound wrongly: %s" % "; ".join(bad[:3]), node=sp.node)
    # _setParamStateInput: which slice goes where
    f = bl.methods["_setParamStateInput"]
    nS, nP = 3, 2
    th = [Tok("p0"), Tok("p1"), Tok("s0"), Tok("s1"), Tok("s2")]
    cases = [
        ("all,all", None, None, th, {"setParam": [th[:2]], "setX0": [th[2:]]}),
        ("all params, 2 target states", None, ["S", "R"], th[:2] + th[2:4], {"setParam": [th[:2]], "unrollState": [th[2:4]]}),
        ("no params given, 2 target states", None, ["S", "R"], th[2:4], {"unrollState": [th[2:4]]}),
        # as many target states as there are parameters would make a slice counted from the front look like one counted from the back
        ("all params, 1 target state", None, ["R"], th[:2] + [th[2]], {"setParam": [th[:2]], "unrollState": [[th[2]]]}),
        ("all params, 3 target states", None, ["R", "S", "I"], th[:2] + th[2:5], {"setParam": [th[:2]], "unrollState": [th[2:5]]}),
        ("2 target params, 1 target state", ["b", "a"], ["I"], [th[1], th[0], th[3]], {"unrollParam": [[th[1], th[0]]], "unrollState": [[th[3]]]}),
        ("1 target param, all states", ["b"], None, [th[0]] + th[2:], {"unrollParam": [[th[0]]], "setX0": [th[2:]]}),
        ("target param subset = all params length, all states", ["a", "b"], None, th, {"setParam": [th[:2]], "setX0": [th[2:]]}),
        ("1 target param, 2 target states", ["b"], ["R", "S"], [th[1], th[2], th[3]], {"unrollParam": [[th[1]]], "unrollState": [[th[2], th[3]]]}),
    ]
    for tag, tp, ts, theta, want in cases:
        calls = {}

        def rec(name):
            def fn(me_, v, _n=name):
                calls.setdefault(_n, []).append(list(v))
            return fn
        summ2 = {"Loss._setParam": rec("setParam"), "Loss._setX0": rec("setX0"), "Loss._unrollState": rec("unrollState"), "Loss._unrollParam": rec("unrollParam")}
        me = Obj("Loss", _num_param=nP, _num_state=nS, _targetParam=tp, _targetState=ts)
        try:
            kind, _ = Abs({}, {}, summ2, me).run_function(f.node, {"theta": list(theta)})
        except Undecided as e:
            res.undecided("R-KV", f, "case(%s)" % tag, str(e))
            continue
        res.check(kind == "return" and calls == want, "R-KV", f, "case(%s)" % tag, "parameters taken from the front, states from the back: %s" % sorted(want),
                  "theta=%s is split as %s (%s), expected %s" % (theta, calls, kind, want), node=f.node)
    # _unrollState writes x0[index of the named state]
    us = bl.methods["_unrollState"]
    x0 = {}
    me = Obj("Loss", _targetState=["R", "S"], _x0=x0)
    me.attrs["_ode"] = Obj("Model")
    summ3 = {"Model.get_state_index": lambda m_, s: [["S", "I", "R"].index(s)]}
    try:
        kind, _ = Abs({}, {}, summ3, me).run_function(us.node, {"x0": [Tok("r"), Tok("s")]})
        res.check(kind == "return" and x0 == {(2,): Tok("r"), (0,): Tok("s")}, "R-KV", us, "state-by-name",
                  "target state values are written at the indices of their own names", "_unrollState(['R','S'] <- [r, s]) writes %s" % x0, node=us.node)
    except Undecided as e:
        res.undecided("R-KV", us, "state-by-name", str(e))
    # _setX0 stores the values it is given in an array of its own: interpreted on array / list / tuple input; writing into the caller's
    # array afterwards, or into the stored one, must not show in the other
    from ..core.numarr import NumArr, num_summaries
    sx = bl.methods["_setX0"]
    problems = []
    try:
        for form, mk in (("array", lambda: NumArr([3.0, 1.5, 0.25])), ("integer array", lambda: NumArr([3, 1, 0])), ("list", lambda: [3.0, 1.5, 0.25]), ("tuple", lambda: (3.0, 1.5, 0.25))):
            given = mk()
            me = Obj("Loss")
            ab = Abs({}, {"np.ndarray": lambda v: isinstance(v, NumArr), "int": lambda v: isinstance(v, int), "float": lambda v: isinstance(v, float),
                          "complex": lambda v: isinstance(v, complex), "bool": lambda v: isinstance(v, bool)}, dict(num_summaries()), me)
            ab.module = sx.module
            kind, out = ab.run_function(sx.node, {sx.params[1]: given})
            stored = me.attrs.get("_x0")
            if kind != "return":
                problems.append("%s input: raises %s" % (form, out))
            elif not (isinstance(stored, NumArr) and stored.tolist() == list(given)):
                problems.append("%s input %r is stored as %r" % (form, list(given), stored.tolist() if isinstance(stored, NumArr) else stored))
            elif isinstance(given, NumArr):
                given[0] = 99.0
                if stored.tolist()[0] == 99.0:
                    problems.append("%s input: the stored initial state shares memory with the caller's array (a later write by either side shows in the other)" % form)
    except Undecided as e:
        res.undecided("R-KV", sx, "copies", "outside the modelled subset: %s" % e)
        problems = None
    if problems is not None:
        res.check(not problems, "R-KV", sx, "copies", "_setX0 stores the given values in an array of its own (array, integer array, list, tuple input)", "; ".join(problems[:2]), node=sx.node)
