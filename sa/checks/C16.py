"""C16 - seeded serial simulations are reproducible.

 S1 R-RNG   call-graph closure of the serial entry points with seed=None / parallel=False
            propagated as constants: every random draw that is reachable goes through
            numpy's *global* generator (np.random.<dist>, scipy .rvs without random_state);
            no locally constructed generator (RandomState(), default_rng, stdlib random,
            os.urandom, time-derived seeds) is reachable.  Positive control: the same
            query with parallel=True must find the unseeded RandomState().
 S2 R-PURE  the walk starts from a copy of the initial state and no stepper modifies its
            input state in place
 S3 R-MEAN  the mean returned by the random-parameter runs is the mean over exactly the
            list returned beside it, along the stacking axis
"""
import ast

from ..core.source import AnalysisError, norm, dotted, is_self_attr, walk_no_nested, const_value, kwarg
from ..core.cfg import cfg_of
from ..core.dataflow import dataflow_of
from ..rules import model as M
from ..rules import common as C
from ..rules import step as S

TECHNIQUE = ("static analysis: interprocedural reachability with constant propagation of seed/parallel and branch "
             "pruning, against a catalogue of generator constructors (R-RNG); in-place mutation scan of stepper "
             "parameters (R-PURE); same-object data flow between mean and returned list (R-MEAN)")

LOCAL_GENERATORS = ("np.random.RandomState", "numpy.random.RandomState", "np.random.default_rng", "np.random.Generator",
                    "np.random.SeedSequence", "random.Random", "random.random", "random.uniform", "random.gauss", "random.randint",
                    "random.choice", "random.expovariate", "secrets.", "os.urandom", "np.random.seed", "random.seed", "time.time",
                    "np.random.PCG64", "np.random.MT19937")
UNKNOWN = object()


def _const_test(test, consts):
    """True/False when decidable from the constant parameters, else None"""
    if isinstance(test, ast.Name):
        v = consts.get(test.id, UNKNOWN)
        return None if v is UNKNOWN else bool(v)
    if isinstance(test, ast.Constant):
        return bool(test.value)
    if isinstance(test, ast.UnaryOp) and isinstance(test.op, ast.Not):
        v = _const_test(test.operand, consts)
        return None if v is None else not v
    if isinstance(test, ast.BoolOp):
        vs = [_const_test(v, consts) for v in test.values]
        if isinstance(test.op, ast.And):
            if any(v is False for v in vs):
                return False
            return True if all(v is True for v in vs) else None
        if any(v is True for v in vs):
            return True
        return False if all(v is False for v in vs) else None
    if isinstance(test, ast.Compare) and len(test.ops) == 1:
        def val(e):
            if isinstance(e, ast.Constant):
                return e.value
            if isinstance(e, ast.Name):
                return consts.get(e.id, UNKNOWN)
            return UNKNOWN
        a, b = val(test.left), val(test.comparators[0])
        if a is UNKNOWN or b is UNKNOWN:
            return None
        op = test.ops[0]
        if isinstance(op, ast.Is):
            return a is b
        if isinstance(op, ast.IsNot):
            return a is not b
        if isinstance(op, ast.Eq):
            return a == b
        if isinstance(op, ast.NotEq):
            return a != b
    if isinstance(test, ast.Call) and dotted(test.func) == "isinstance" and len(test.args) == 2 and isinstance(test.args[0], ast.Name):
        v = consts.get(test.args[0].id, UNKNOWN)
        if v is None:
            return False
    return None


def reachable_nodes(func, consts):
    """CFG nodes reachable from entry when branches decidable from consts are pruned"""
    cfg = cfg_of(func)
    seen = set()
    todo = [cfg.entry]
    while todo:
        n = todo.pop()
        if n.id in seen:
            continue
        seen.add(n.id)
        if n.kind == "test" and isinstance(n.ast, (ast.If, ast.While)):
            v = _const_test(n.ast.test, consts)
            for s in n.succ:
                if s.kind == "edge" and v is not None and s.label[1] in (True, False) and s.label[1] != v:
                    continue
                todo.append(s)
        else:
            todo.extend(n.succ)
    return [cfg.nodes[i] for i in seen]


class Closure:
    def __init__(self, repo):
        self.repo = repo
        self.cls = M.sim_class(repo)
        self.visited = {}
        self.draws = []      # (func, call, callee text, path)
        self.local = []      # local generator constructions reachable
        self.unresolved = set()

    def resolve(self, func, call, callee):
        """FuncInfo of an in-package callee, or None"""
        repo = self.repo
        if is_self_attr(call.func):
            m = repo.resolve_method(self.cls, call.func.attr)
            if m is not None:
                return m
        if isinstance(call.func, ast.Name) or "." in callee:
            head = callee.split(".")[0]
            tgt = func.module.imports.get(head)
            name = callee.split(".")[-1]
            if callee in func.module.functions:
                return func.module.functions[callee]
            if tgt:
                full = tgt + callee[len(head):]
                modname, _, fname = full.rpartition(".")
                for mn in (modname, full):
                    mm = repo.modules.get(mn)
                    if mm and fname in mm.functions:
                        return mm.functions[fname]
                    if mm:
                        t2 = mm.imports.get(fname)
                        if t2:
                            m2, _, f2 = t2.rpartition(".")
                            if m2 in repo.modules and f2 in repo.modules[m2].functions:
                                return repo.modules[m2].functions[f2]
        return None

    def visit(self, func, consts, path):
        key = (func.construct, tuple(sorted((k, repr(v)) for k, v in consts.items() if v is not UNKNOWN)))
        if key in self.visited or len(path) > 12:
            return
        self.visited[key] = True
        df = dataflow_of(func)
        nodes = reachable_nodes(func, consts)
        node_ids = {x.id for x in nodes}
        for n in nodes:
            # property-setter assignment:  self.parameters = ...
            st = n.ast
            if n.kind == "stmt" and isinstance(st, ast.Assign):
                for t in st.targets:
                    if is_self_attr(t):
                        s = self.repo.resolve_setter(self.cls, t.attr)
                        if s is not None:
                            self.visit(s, {}, path + [func.qualname])
            exprs = [(e, False) for e in df.node_exprs(n)]
            if n.kind == "stmt" and isinstance(st, (ast.FunctionDef, ast.Lambda)):
                # a nested function defined on a reachable path may be called (e.g. mapped over a dask bag)
                exprs += [(b, True) for b in st.body]
            for e, nested in exprs:
                for c in (ast.walk(e) if nested else walk_no_nested(e)):
                    if not isinstance(c, ast.Call):
                        continue
                    fx = c.func
                    if isinstance(fx, ast.Name) and not nested:
                        # an alias assigned on several branches: keep the definitions that survive the pruning
                        live = [d for d in df.strong_defs(n, fx.id) if d.node.id in node_ids and d.kind == "assign" and d.value is not None]
                        if len(live) == 1 and not live[0].slot:
                            fx = live[0].value
                        else:
                            fx = df.expand(fx, n)
                    callee = dotted(fx) or norm(fx)
                    if any(callee == g or (g.endswith(".") and callee.startswith(g)) for g in LOCAL_GENERATORS):
                        self.local.append((func, c, callee, path + [func.qualname]))
                        continue
                    if callee.startswith("np.random.") or callee.endswith(".rvs"):
                        rs = kwarg(c, "random_state")
                        self.draws.append((func, c, callee, path + [func.qualname], rs))
                        continue
                    g = self.resolve(func, c, callee)
                    if g is None:
                        continue
                    # constants for the callee
                    params = g.params[1:] if g.cls else g.params
                    a = g.node.args
                    allp = [x.arg for x in a.posonlyargs + a.args]
                    dflt = dict(zip(allp[len(allp) - len(a.defaults):], a.defaults))
                    cc = {}
                    bound = C.bind_args(c, params)
                    for p in params:
                        if p in bound:
                            v = bound[p]
                            if isinstance(v, ast.Constant):
                                cc[p] = v.value
                            elif isinstance(v, ast.Name) and v.id in consts and consts[v.id] is not UNKNOWN:
                                cc[p] = consts[v.id]
                        elif p in dflt and isinstance(dflt[p], ast.Constant):
                            cc[p] = dflt[p].value
                    self.visit(g, cc, path + [func.qualname])


def _check_param_draws(repo, res, cls):
    from . import C09
    from ..core.absint import Obj
    from ..core.algebra import Undecided
    ps = repo.resolve_setter(cls, "parameters")
    if ps is None:
        raise AnalysisError("parameters setter vanished")
    names = C09.NAMES
    n = 0
    for form in ("frozen", "sampler-args", "sampler-kwargs"):
        me = C09.model(names)
        calls = []
        draws = [0.5, -0.75, 0.25, -1.5]

        def rvs(o, *a, **k):
            calls.append(("rvs", a, dict(k)))
            return [draws[len(calls) - 1]] * (a[0] if a and isinstance(a[0], int) else k.get("size", 1) or 1)

        def sampler(*a, **k):
            calls.append(("sampler", a, dict(k)))
            return draws[len(calls) - 1]
        if form == "frozen":
            value = {"b": Obj("rv_frozen", tag="B"), "a": 1.25, "c": 3.75}
        elif form == "sampler-args":
            value = {"b": (("py", sampler), (2.0, 3.0)), "a": 1.25, "c": 3.75}
        else:
            value = {"b": (("py", sampler), {"shape": 2.0, "rate": 3.0}), "a": 1.25, "c": 3.75}
        tag = "parameter-draws(%s)" % form
        bad = None
        try:
            for rep in range(3):        # the serial loops assign the remembered dict once per run
                kind, out = C09.run_setter(ps, me, value, names, extra={"rv_frozen.rvs": rvs})
                got = list(me.attrs.get("_paramValue") or [])
                if kind != "return":
                    bad = "assignment %d raises %s" % (rep + 1, out)
                elif len(calls) != rep + 1:
                    bad = "assignment %d made %d draw(s) in total, expected one draw per assignment" % (rep + 1, len(calls))
                elif got != [1.25, draws[rep], 3.75]:
                    bad = "assignment %d drew %s but the evaluation values are %s: the run does not use the value drawn for it" % (rep + 1, draws[rep], got)
                else:
                    c = calls[-1]
                    if c[2].get("random_state") is not None:
                        bad = "the draw is given a private random_state=%r" % (c[2]["random_state"],)
                    elif form == "frozen" and not (c[1] == (1,) or c[2].get("size") == 1):
                        bad = "rvs called with %r %r, expected one value" % (c[1], c[2])
                    elif form == "sampler-args" and not (c[1] == (1, 2.0, 3.0) and not c[2]):
                        bad = "sampler called with %r %r, expected (1, *args)" % (c[1], c[2])
                    elif form == "sampler-kwargs" and not (c[1] == (1,) and c[2] == {"shape": 2.0, "rate": 3.0}):
                        bad = "sampler called with %r %r, expected (1, **kwargs)" % (c[1], c[2])
                if bad:
                    break
        except Undecided as e:
            res.undecided("R-RNG", ps, tag, "outside the modelled subset: %s" % e)
            continue
        n += 1
        res.check(bad is None, "R-RNG", ps, tag, "each assignment draws one fresh value from the supplied distribution (global stream) and installs it",
                  "%s form: %s" % (form, bad), node=ps.node)
    res.floor("random-parameter input forms interpreted", n, 3)


def check(repo, res, tier):
    res.rule("R-RNG", "with seed=None / parallel=False only numpy's global generator is reachable; no local generator")
    res.rule("R-PURE", "initial state copied; steppers do not modify their input state in place")
    res.rule("R-MEAN", "mean taken over the very list that is returned, along the stacking axis")
    res.s_clauses = ["S1 R-RNG", "S2 R-PURE", "S3 R-MEAN"]
    res.n_clauses = ["that different seeds change the output (a statement about numpy's generator)",
                     "bit-reproducibility of scipy's integrators (deterministic algorithms)"]
    cls = M.sim_class(repo)
    entries = [("solve_stochast", {"parallel": False}), ("simulate_param", {"parallel": False}), ("solve_determ", {"parallel": False})]
    total_draws = 0
    for name, consts in entries:
        f = repo.resolve_method(cls, name)
        if f is None:
            raise AnalysisError("%s vanished" % name)
        cl = Closure(repo)
        cl.visit(f, dict(consts), [])
        res.functions.update(k[0] for k in cl.visited)
        for func, c, callee, path in cl.local:
            res.violated("R-RNG", func, "local-generator@%s<-%s" % (callee, name),
                         "serial %s reaches %s via %s: draws no longer come from numpy's global generator, so np.random.seed(s) "
                         "does not make the run repeatable" % (name, norm(c), " -> ".join(path)), node=c)
        if not cl.local:
            res.holds("R-RNG", f, "no-local-generator", "no locally constructed generator reachable from serial %s (%d functions visited)" % (name, len(cl.visited)))
        for func, c, callee, path, rs in cl.draws:
            total_draws += 1
            ok = rs is None or const_value(rs, 1) is None
            res.check(ok, "R-RNG", func, "draw(%s)<-%s" % (callee, name), "%s draws from numpy's global generator" % callee,
                      "%s is given random_state=%s" % (callee, norm(rs)), node=c)
    res.floor("random draws reachable from the serial entry points", total_draws, 3)
    f = repo.resolve_method(cls, "solve_stochast")
    # positive control: the parallel branch must be seen to construct an unseeded RandomState
    cl = Closure(repo)
    cl.visit(f, {"parallel": True}, [])
    found = [c for c in cl.local if c[2].endswith("RandomState")]
    if not found:
        res.undecided("R-RNG", f, "positive-control", "the query no longer finds the RandomState() of the parallel branch: the rule would pass vacuously")
    else:
        res.holds("R-RNG", f, "positive-control", "the same query finds %s on the parallel branch (%s)" % (norm(found[0][1]), " -> ".join(found[0][3])))
    # random parameters: every assignment of a distribution-valued dict draws exactly one fresh value per random parameter through
    # the distribution's own rvs / the supplied sampler (numpy's global stream: no private random_state) and installs that value
    _check_param_draws(repo, res, cls)
    res.rule("R-REPRO", "random-parameter runs repeated on the same object after re-seeding return the same output")
    _check_repro(repo, res, cls)

    # ---------------------------------------------------------------- R-PURE
    # a repeated seeded run reproduces the first one only if a run leaves nothing behind: two consecutive runs of _jump on one model
    # object, interpreted with one scripted random stream, must both be the walk defined by the model (in particular the second run
    # starts from the unchanged initial state and no counter / buffer kept on the instance alters it)
    from ..rules import stepx as X
    res.rule("R-WALK", "two consecutive runs on one model object (one random stream) are both the walk defined by the model: a run leaves nothing behind that changes the next")
    nw = X.check_walks(repo, res, rule="R-PURE", tier=tier)
    res.floor("walk scenarios interpreted (two runs each)", nw, 15)
    X.check_update(repo, res, rule="R-PURE")
    jf = repo.resolve_method(cls, "_jump")
    # nothing written by a run may be read by the next run before being re-initialised (hidden state between runs)
    for fn_ in (repo.resolve_method(cls, "solve_stochast"),):
        fcfg, fdf = cfg_of(fn_), dataflow_of(fn_)
        written = {}
        for n in fcfg.stmt_nodes():
            st = n.ast
            if n.kind == "stmt" and isinstance(st, (ast.Assign, ast.AugAssign)):
                for t in (st.targets if isinstance(st, ast.Assign) else [st.target]):
                    if is_self_attr(t) and repo.resolve_setter(cls, t.attr) is None:
                        written.setdefault(t.attr, []).append(n)
        for attr, wnodes in sorted(written.items()):
            plain = [w for w in wnodes if isinstance(w.ast, ast.Assign)]
            # lazy initialisation (`if self.x is None: self.x = <built from the model>`) is a cache, not simulation state:
            # the guard itself counts as the point after which the attribute is initialised
            lazy = []
            for n in fcfg.stmt_nodes():
                t = getattr(n.ast, "test", None) if n.kind in ("if", "test", "branch") or isinstance(n.ast, ast.If) else None
                if isinstance(t, ast.Compare) and len(t.ops) == 1 and isinstance(t.ops[0], ast.Is) and is_self_attr(t.left, attr) \
                        and isinstance(t.comparators[0], ast.Constant) and t.comparators[0].value is None:
                    body = n.ast.body if isinstance(n.ast, ast.If) else []
                    if any(isinstance(b, ast.Assign) and any(is_self_attr(tt, attr) for tt in b.targets) for b in body):
                        lazy.append(n)
            plain = plain + lazy
            carried = []
            for n in fcfg.stmt_nodes():
                reads = [x for e in fdf.node_exprs(n) for x in walk_no_nested(e) if is_self_attr(x, attr) and isinstance(x.ctx, ast.Load)]
                if isinstance(n.ast, ast.AugAssign) and is_self_attr(n.ast.target, attr):
                    reads.append(n.ast.target)
                if n in lazy:
                    continue
                if reads and not any(fcfg.dominates(w, n) and w.id != n.id for w in plain):
                    carried.append(n)
            res.check(not carried, "R-PURE", fn_, "no-carried-state(%s)" % attr, "self.%s is (re)initialised in every run before it is read" % attr,
                      "%s reads self.%s (e.g. `%s`) before assigning it in the same call although it also writes it: what one run leaves behind "
                      "changes the next run, so repeating a seeded call does not reproduce it" % (fn_.name, attr, norm(carried[0].ast)[:60] if carried else ""),
                      node=carried[0].ast if carried else None)
    writes = [n for n in walk_no_nested(jf.node) if isinstance(n, (ast.Assign, ast.AugAssign)) and any(
        is_self_attr(t, a) for t in (n.targets if isinstance(n, ast.Assign) else [n.target]) for a in ("_x0", "_t0"))]
    res.check(not writes, "R-PURE", jf, "initial-values-untouched", "_jump never rebinds the initial state/time", "_jump rebinds the initial values: %s" % [norm(w) for w in writes])

    # ---------------------------------------------------------------- R-MEAN
    _check_mean(repo, res, cls)


def _check_repro(repo, res, cls):
    """random-parameter deterministic runs end to end: simulate_param / solve_determ with the real integrate and the real parameters
    setter behind them; the numerical integration is replaced by a function of the parameter values current when it is called, the
    random stream by a script that `seeding` rewinds.  A call repeated after rewinding the stream must return the same output, on
    the same model object, whatever was run before."""
    from . import C09
    from ..core.absint import Abs, Obj, Tok, Raised
    from ..core.algebra import Undecided
    from ..core.numarr import NumArr, num_summaries
    names = C09.NAMES
    ps = repo.resolve_setter(cls, "parameters")
    for name in ("simulate_param", "solve_determ"):
        f = repo.resolve_method(cls, name)
        if f is None:
            raise AnalysisError("%s vanished" % name)
        for form in ("frozen", "sampler-args"):
            for iteration in (1, 3):
                tag = "repeat-after-reseeding(%s,iteration=%d)" % (form, iteration)
                stream = {"k": 0}

                def draw():
                    stream["k"] += 1
                    return 0.125 * stream["k"] + 0.5

                def rvs(o, *a, **k):
                    return [draw()]

                def sampler(*a, **k):
                    return draw()
                me = C09.model(names)
                me.attrs.update(dict(_x0=NumArr([10.0, 20.0]), _t0=0.5, _odeSolution=None, _odeTime=None, _odeOutput=None, _intName=None))

                made = []

                def odeint_wrapper(me_, x0, tt, full_output=False, **k):
                    # ode_utils.integrate (the odeint wrapper, decided by C02): a new array per call, a function of the parameter
                    # values current at the call; the model's own _integrate / integrate around it are interpreted from their source
                    pv = [float(v) for v in me_.attrs["_paramValue"]]
                    sol = NumArr([[pv[1] * float(tk), pv[0] + pv[2]] for tk in tt])
                    made.append(sol.tolist())
                    return (sol, {"message": "ok"}) if full_output else sol

                def integ2(me_, tt, full_output=True, **k):
                    sol = odeint_wrapper(me_, None, tt)
                    me_.attrs["_odeSolution"], me_.attrs["_odeOutput"] = sol, {"message": "ok"}
                    return (sol, {"message": "ok"}) if full_output else sol
                summ = dict(num_summaries())
                summ.update(C09.helper_summaries(names))
                summ.update({"rv_frozen.rvs": rvs, "ode_utils.integrate": odeint_wrapper, "Model._integrate2": integ2})
                types = {"Number": lambda v: isinstance(v, (int, float)) and not isinstance(v, bool), "np.ndarray": lambda v: isinstance(v, NumArr)}
                types.update(C09.TYPES)
                types["np.ndarray"] = lambda v: isinstance(v, NumArr)
                types["scipy.stats._distn_infrastructure.rv_frozen"] = lambda v: isinstance(v, Obj) and v.cls == "rv_frozen"

                def fresh(mod):
                    ab = Abs({}, types, summ, me, dict(C09.GETTERS), eq=C09.eq_hook, budget=400000)
                    ab.class_methods = set(repo.all_methods(cls)) | {g for c in repo.mro(cls) for g in c.getters}
                    ab.self_class = (repo, cls)
                    ab.module = mod
                    return ab
                value = {"b": Obj("rv_frozen", tag="B"), "a": 1.25, "c": 3.75} if form == "frozen" else {"b": (("py", sampler), (2.0, 3.0)), "a": 1.25, "c": 3.75}
                outs = []
                try:
                    kind, out = fresh(ps.module).run_function(ps.node, {ps.params[1]: value})
                    if kind != "return":
                        res.violated("R-REPRO", f, tag, "assigning random parameters raises %s" % (out,), node=f.node)
                        continue
                    mean_problem = None
                    for rep, seed_pos in enumerate((100, 100, 100)):
                        stream["k"] = seed_pos                      # np.random.seed(same): the global stream is back at the same point
                        del made[:]
                        kind, out = fresh(f.module).run_function(f.node, {"t": NumArr([1.0, 2.0, 3.0]), "iteration": iteration, "parallel": False, "full_output": True})
                        if kind != "return":
                            outs.append(("raise", out))
                            break
                        Y, runs = out if isinstance(out, tuple) and len(out) == 2 else (out, None)
                        outs.append((Y.tolist() if isinstance(Y, NumArr) else Y, [r.tolist() if isinstance(r, NumArr) else r for r in runs] if runs is not None else None))
                        # the runs handed back are integrations as the integrator produced them, and the mean is their mean
                        got_runs = outs[-1][1]
                        if mean_problem is None and isinstance(got_runs, list) and len(got_runs) == iteration and len(made) >= iteration:
                            cands = [made[len(made) - iteration:], made[:iteration]]
                            if not any(got_runs == c_ for c_ in cands):
                                k_ = next((i for i, (a_, b_) in enumerate(zip(got_runs, cands[0])) if a_ != b_), 0)
                                mean_problem = "run %d of %d handed back is %s, the integration produced %s: a returned run was overwritten after it was computed" % (
                                    k_ + 1, iteration, got_runs[k_], cands[0][k_])
                            else:
                                c_ = next(c_ for c_ in cands if got_runs == c_)
                                want = [[sum(m[r][cc] for m in c_) / len(c_) for cc in range(len(c_[0][0]))] for r in range(len(c_[0]))]
                                gotY = outs[-1][0]
                                if not (isinstance(gotY, list) and len(gotY) == len(want) and all(isinstance(a_, list) and len(a_) == len(b_) and all(abs(x_ - y_) < 1e-9 for x_, y_ in zip(a_, b_)) for a_, b_ in zip(gotY, want))):
                                    mean_problem = "the mean reported is %s, the element-wise mean of the returned runs is %s" % (gotY, want)
                except Undecided as e:
                    res.undecided("R-REPRO", f, tag, "outside the modelled subset: %s" % e)
                    continue
                problems = []
                if outs and outs[-1][0] == "raise":
                    problems.append("call %d raises %s" % (len(outs), outs[-1][1]))
                elif any(o != outs[0] for o in outs[1:]):
                    k_ = [i for i, o in enumerate(outs) if o != outs[0]][0]
                    problems.append("call %d after rewinding the random stream returns %s, the first call returned %s" % (k_ + 1, outs[k_][1], outs[0][1]))
                elif outs[0][1] is not None and len(outs[0][1]) == iteration:
                    # every returned run uses a value drawn after the seed point (nothing left over from before the call)
                    for r_ in outs[0][1]:
                        slope = (r_[-1][0] - r_[-2][0]) / 1.0            # the grid ends ..., 2.0, 3.0
                        if not (0.125 * 101 + 0.5 - 1e-9 <= slope <= 0.125 * (101 + 2 * iteration + 2) + 0.5 + 1e-9):
                            problems.append("a returned run was integrated with the parameter value %s, which was not drawn after the seed point" % slope)
                            break
                if not (outs and outs[-1][0] == "raise"):
                    res.check(mean_problem is None, "R-MEAN", f, "end-to-end(%s,iteration=%d)" % (form, iteration),
                              "with the model's own integrate / _integrate interpreted: the runs handed back are the integrations as produced and the mean is their element-wise mean",
                              mean_problem or "", node=f.node)
                res.check(not problems, "R-REPRO", f, tag, "the call repeated after rewinding the random stream returns the same mean and the same runs, each run from a value drawn inside the call",
                          "; ".join(problems[:2]), node=f.node)


def _check_mean(repo, res, cls):
    """simulate_param / solve_determ interpreted with the integration replaced by a recorder that returns a different array on
    every call: the list returned holds exactly `iteration` runs, untouched, and the mean reported is their element-wise mean"""
    from ..core.absint import Abs, Obj, Tok, Raised
    from ..core.algebra import Undecided
    from ..core.numarr import NumArr, num_summaries
    for name in ("simulate_param", "solve_determ"):
        f = repo.resolve_method(cls, name)
        if f is None:
            raise AnalysisError("%s vanished" % name)
        for iteration in (1, 2, 5, 130, 257):
            for full in (True, False):
                tag = "mean-of-returned-runs(iteration=%d,full_output=%s)" % (iteration, full)
                calls = []

                def integrate(me_, t, *a, **k):
                    kk = len(calls)
                    calls.append(t)
                    return NumArr([[10.0 * kk + 1.0 + r + 0.25 * c * (kk + 1) for c in range(2)] for r in range(3)])
                me = Obj("Model", _stochasticParam={"beta": Obj("rv_frozen", tag="B")}, _odeSolution=None)
                summ = dict(num_summaries())
                summ["Model.integrate"] = integrate
                grid = NumArr([1.0, 2.0, 3.0])
                try:
                    ab = Abs({}, {}, summ, me, {}, budget=50000)
                    ab.class_methods = set(repo.all_methods(cls))
                    ab.module = f.module
                    kind, out = ab.run_function(f.node, {"t": grid, "iteration": iteration, "parallel": False, "full_output": full})
                except Undecided as e:
                    res.undecided("R-MEAN", f, tag, "outside the modelled subset: %s" % e)
                    continue
                problems = []
                if kind != "return":
                    problems.append("raises %s" % out)
                else:
                    Y = out[0] if (full and isinstance(out, tuple)) else out
                    runs = out[1] if (full and isinstance(out, tuple) and len(out) == 2) else None
                    if full and runs is None:
                        problems.append("full_output does not return (mean, runs)")
                    # which recorded integrations are runs: the last `iteration` ones (an extra warm-up integration before them is allowed)
                    fresh = [NumArr([[10.0 * kk + 1.0 + r + 0.25 * c * (kk + 1) for c in range(2)] for r in range(3)]) for kk in range(len(calls))]
                    cand = [fresh[len(calls) - iteration:], fresh[:iteration]] if len(calls) >= iteration else []
                    ok_mean = False
                    for c_ in cand:
                        want = [[sum(m.data[r].data[cc] for m in c_) / len(c_) for cc in range(2)] for r in range(3)]
                        got = Y.tolist() if isinstance(Y, NumArr) else Y
                        if isinstance(got, list) and len(got) == 3 and all(isinstance(rw, list) and len(rw) == 2 and all(abs(a_ - b_) < 1e-9 for a_, b_ in zip(rw, wr)) for rw, wr in zip(got, want)):
                            ok_mean = True
                            if runs is not None:
                                rl = list(runs) if isinstance(runs, (list, tuple)) else None
                                if rl is None or len(rl) != iteration:
                                    problems.append("%r runs are returned for iteration=%d" % (len(rl) if rl is not None else runs, iteration))
                                elif not all(isinstance(a_, NumArr) and a_.tolist() == b_.tolist() for a_, b_ in zip(rl, c_)):
                                    problems.append("the runs returned are not the integrations the mean was taken over (or were modified afterwards): %s" % [a_.tolist() if isinstance(a_, NumArr) else a_ for a_ in rl][:2])
                            break
                    if not ok_mean:
                        problems.append("the mean reported is %s, not the element-wise mean of the %d runs" % (Y.tolist() if isinstance(Y, NumArr) else Y, iteration))
                    if any(not (isinstance(t_, NumArr) and t_.tolist() == [1.0, 2.0, 3.0]) for t_ in calls):
                        problems.append("a run is integrated over a different grid than requested")
                res.check(not problems, "R-MEAN", f, tag, "the mean is the element-wise mean of exactly the runs returned beside it, each an integration of the requested grid",
                          "; ".join(problems[:2]), node=f.node)
