"""C13 - sensitivity systems are the variational equations of the model.

The augmented right-hand sides and their Jacobians are interpreted over arrays of symbols
(J, G, H, GJ, S, IV ...) at the shapes (nS, nP) in {(2,3), (3,2), (1,2), (2,1), (3,3)} and
compared entry by entry with the variational equations written in the documented layout.

 S1 R-VAR     sensitivity / eval_sensitivity: output = vec(J S + G) in the layout of its
              input, for both arrangements; ode_and_sensitivity = [f; that]
 S2 R-VARIV   sensitivityIV / ode_and_sensitivityIV = [f; vec(J S + G); vec_F(J IV)]
 S3 R-LAYOUT  vecToMatSens / matToVecSens are mutually inverse and implement the
              by-parameter layout sens[k*nS + i] = S[i,k]
 S4 R-JAC     ode_and_sensitivity_jacobian and ode_and_sensitivityIV_jacobian equal the
              derivative of those right-hand sides w.r.t. the augmented state (blocks
              J, d(JS+G)/dx = H.S + GJ, I (x) J) in the same layout, both arrangements
 S5 R-SHAPE   the four matrix evaluators stay 2-D for one-state models
 S6 R-DERIV/R-REFRESH  the symbolic builders behind jacobian, grad, diff_jacobian and grad_jacobian store the
              right derivative in the row/column layout S1-S4 assume, and re-derive it on every call
"""
import ast

from ..core import algebra as A
from ..core.absint import Raised
from ..core.symarr import SymArr, append
from ..core.source import AnalysisError, norm
from ..rules import layout as L
from ..rules import model as M
from ..rules.shape import check_shapes

TECHNIQUE = ("static analysis: interpretation of the sensitivity routines over arrays of symbols at five small shapes "
             "with numpy reshape/kron/dot/bmat semantics re-implemented in the checker; entry-wise polynomial identity "
             "against the variational equations in the documented layout; shape inference of the evaluators")


def _run(res, rule, w, name, args, tag, chain=()):
    fn = w.method(name)
    try:
        kind, out = w.run(name, args, chain)
    except A.Undecided as e:
        res.undecided(rule, fn, tag, "outside the modelled subset: %s" % e)
        return fn, None
    if kind == "raise":
        res.violated(rule, fn, tag, "%s raises %s for shapes nS=%d nP=%d" % (name, out, w.nS, w.nP), node=fn.node)
        return fn, None
    return fn, out


def _cmp(res, rule, fn, tag, got, want, ok_msg, what):
    if got is None:
        return
    try:
        g = got if isinstance(got, SymArr) else SymArr.of(list(got) if isinstance(got, (list, tuple)) else got)
        d = L.first_diff(g.reshape(want.shape) if g.size == want.size and g.ndim != want.ndim else g, want)
    except A.Undecided as e:
        res.undecided(rule, fn, tag, str(e))
        return
    res.check(d is None, rule, fn, tag, ok_msg, "%s: %s" % (what, d), node=fn.node)


def check(repo, res, tier):
    res.rule("R-VAR", "sensitivity right-hand side = vec(J S + G) in the layout of its input (both arrangements)")
    res.rule("R-VARIV", "initial-value variant = [f; vec(J S + G); vec_F(J IV)]")
    res.rule("R-LAYOUT", "vec/unvec helpers are mutually inverse and implement sens[k*nS+i] = S[i,k]")
    res.rule("R-JAC", "supplied Jacobians = derivative of the augmented right-hand sides in the same layout")
    res.rule("R-SHAPE", "matrix evaluators registered as matrices")
    res.s_clauses = ["S1 R-VAR", "S2 R-VARIV", "S3 R-LAYOUT", "S4 R-JAC", "S5 R-SHAPE"]
    res.n_clauses = ["integrating the systems matches finite differences of solutions (solver numerics)",
                     "that the compiled jacobian/grad/diff_jacobian/grad_jacobian evaluate the right derivatives (C03 + sympy)"]
    n_inst = 0
    shapes = list(L.SHAPES) + ([(4, 2), (2, 4), (4, 3), (1, 1)] if tier == "thorough" else [])
    for nS, nP in shapes:
        w = L.World(repo, nS, nP)
        sh = "(nS=%d,nP=%d)" % (nS, nP)
        n_inst += 1
        # ---------------------------------------------------------- S3 helpers
        for by_state in (False,):
            v = w.sens_vec(False)
            summ = w.summaries()
            try:
                S = summ["vecToMatSens"](v, nS, nP)
                back = summ["matToVecSens"](S, nS, nP)
                fnv = repo.func(M.M_UTILS, "vecToMatSens")
                _cmp(res, "R-LAYOUT", fnv, "unvec" + sh, S, w.S, "vecToMatSens gives S[i,k] = sens[k*nS+i]", "vecToMatSens does not implement the by-parameter layout")
                fnm = repo.func(M.M_UTILS, "matToVecSens")
                _cmp(res, "R-LAYOUT", fnm, "roundtrip" + sh, back, v, "matToVecSens inverts vecToMatSens", "matToVecSens(vecToMatSens(v)) != v")
            except (A.Undecided, Raised) as e:
                res.undecided("R-LAYOUT", repo.func(M.M_UTILS, "vecToMatSens"), "helpers" + sh, str(e))
        # ------------------------------------------------------------ S1 R-VAR
        for by_state in (False, True):
            lab = "by_state=%s%s" % (by_state, sh)
            fn, out = _run(res, "R-VAR", w, "sensitivity", {"sens": w.sens_vec(by_state), "t": A.sym("t"), "state": w.x, "by_state": by_state},
                           "sensitivity," + lab, chain=("eval_sensitivity",))
            _cmp(res, "R-VAR", fn, "sensitivity," + lab, out, w.rhs_sens(by_state),
                 "sensitivity = vec(J S + G) in the %s layout" % ("by-state" if by_state else "by-parameter"),
                 "sensitivity(%s) is not J S + G in the layout of its input" % lab)
            sp = append(w.x, w.sens_vec(by_state))
            fn, out = _run(res, "R-VAR", w, "ode_and_sensitivity", {"state_param": sp, "t": A.sym("t"), "by_state": by_state},
                           "ode_and_sensitivity," + lab, chain=("sensitivity", "eval_sensitivity"))
            _cmp(res, "R-VAR", fn, "ode_and_sensitivity," + lab, out, append(w.f, w.rhs_sens(by_state)), "augmented rhs = [f; vec(J S + G)]",
                 "ode_and_sensitivity(%s) is not [f; J S + G]" % lab)
            # the same call with a vector the caller built from whole numbers (a list of ints, an integer array - the usual start
            # [x0, 0, ..., 0]): the right-hand side is real-valued all the same
            sp_int = append(w.x, w.sens_vec(by_state))
            sp_int.int_typed = True
            fn_i, out_i = _run(res, "R-VAR", w, "ode_and_sensitivity", {"state_param": sp_int, "t": A.sym("t"), "by_state": by_state},
                               "ode_and_sensitivity(integer-typed input)," + lab, chain=("sensitivity", "eval_sensitivity"))
            _cmp(res, "R-VAR", fn_i, "ode_and_sensitivity(integer-typed input)," + lab, out_i, append(w.f, w.rhs_sens(by_state)),
                 "augmented rhs = [f; vec(J S + G)] also for an integer-typed input vector",
                 "ode_and_sensitivity(%s) with an integer-typed input vector is not [f; J S + G] (values are cast to the integer type of the input)" % lab)
            # evaluators called at the state part of the augmented vector
            bad = [c for c in w.calls if not (isinstance(c[1], SymArr) and c[1].same(w.x))]
            res.check(not bad, "R-VAR", fn, "evaluated-at-state," + lab, "evaluators are called with the state block of the augmented vector",
                      "an evaluator is called with %s instead of the state block" % (bad[0][1] if bad else None,), node=fn.node)
            w.calls.clear()
            # ---------------------------------------------------------- S4 R-JAC
            fn, out = _run(res, "R-JAC", w, "ode_and_sensitivity_jacobian", {"state_param": sp, "t": A.sym("t"), "by_state": by_state},
                           "jacobian," + lab, chain=("sens_jacobian_state", "eval_sens_jacobian_state"))
            _cmp(res, "R-JAC", fn, "jacobian," + lab, out, w.jac_sens(by_state),
                 "Jacobian blocks J / H.S + GJ / I(x)J in the %s layout" % ("by-state" if by_state else "by-parameter"),
                 "ode_and_sensitivity_jacobian(%s) is not the derivative of ode_and_sensitivity" % lab)
            w.calls.clear()
        # ---------------------------------------------------------- S2 R-VARIV
        spiv = append(append(w.x, w.sens_vec(False)), w.iv_vec())
        fn, out = _run(res, "R-VARIV", w, "ode_and_sensitivityIV", {"state_param": spiv, "t": A.sym("t")}, "rhsIV" + sh,
                       chain=("sensitivityIV", "eval_sensitivityIV"))
        _cmp(res, "R-VARIV", fn, "rhsIV" + sh, out, append(append(w.f, w.rhs_sens(False)), w.rhs_iv()),
             "[f; vec(J S + G); vec_F(J IV)]", "ode_and_sensitivityIV is not [f; J S + G; J IV] in the documented layout")
        w.calls.clear()
        spiv_int = append(append(w.x, w.sens_vec(False)), w.iv_vec())
        spiv_int.int_typed = True
        fn_i, out_i = _run(res, "R-VARIV", w, "ode_and_sensitivityIV", {"state_param": spiv_int, "t": A.sym("t")}, "rhsIV(integer-typed input)" + sh,
                           chain=("sensitivityIV", "eval_sensitivityIV"))
        _cmp(res, "R-VARIV", fn_i, "rhsIV(integer-typed input)" + sh, out_i, append(append(w.f, w.rhs_sens(False)), w.rhs_iv()),
             "[f; vec(J S + G); vec_F(J IV)] also for an integer-typed input vector", "ode_and_sensitivityIV with an integer-typed input vector is not [f; J S + G; J IV]")
        w.calls.clear()
        fn, out = _run(res, "R-JAC", w, "ode_and_sensitivityIV_jacobian", {"state_param": spiv, "t": A.sym("t")}, "jacobianIV" + sh,
                       chain=("sens_jacobian_state", "eval_sens_jacobian_state"))
        _cmp(res, "R-JAC", fn, "jacobianIV" + sh, out, w.jac_iv(), "Jacobian of the initial-value system",
             "ode_and_sensitivityIV_jacobian is not the derivative of ode_and_sensitivityIV")
        w.calls.clear()
    # without parameters
    w = L.World(repo, 2, 0)
    spiv = append(w.x, w.iv_vec())
    fn, out = _run(res, "R-JAC", w, "ode_and_sensitivityIV_jacobian", {"state_param": spiv, "t": A.sym("t")}, "jacobianIV(nS=2,nP=0)",
                   chain=("sens_jacobian_state", "eval_sens_jacobian_state"))
    _cmp(res, "R-JAC", fn, "jacobianIV(nS=2,nP=0)", out, w.jac_iv(), "Jacobian of the initial-value system without parameters",
         "ode_and_sensitivityIV_jacobian (no parameters) is not the derivative of the system")
    res.floor("shape instances interpreted", n_inst, 5)
    # S6: the evaluators these systems are assembled from are the (freshly derived) derivatives in the layouts assumed above
    from . import C03
    res.rule("R-DERIV", "jacobian / grad / diff_jacobian / grad_jacobian builders store the right derivative at the assumed row and column")
    res.rule("R-REFRESH", "those builders rebuild what they differentiate on every call")
    C03.check_builders(repo, res, {"get_jacobian_eqn", "get_grad_eqn", "get_diff_jacobian_eqn", "get_grad_jacobian_eqn"}, ((2, 3, 2), (3, 2, 1)))
    check_shapes(repo, res, {"jacobian", "grad", "diff_jacobian", "grad_jacobian"},
                 {"jacobian": "one-state models", "diff_jacobian": "one-state models: ode_and_sensitivity_jacobian",
                  "grad_jacobian": "one-state / one-parameter models"})
