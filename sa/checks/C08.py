"""C08 - evaluators never go stale after a model is modified.

Decided clauses (see DESIGN.md section 6, C08):
 S1 R-REG    every registered evaluator has a canary flag in the class that is
             operative on a SimulateOde instance; that instance is created after
             the base constructor ran.
 S2 R-TRIP   every write to definition state (computed, not listed) is followed
             on all normal exits by a call that trips every flag - in the method
             itself or, for private helpers, after every call site of it.
 S3 R-GUARD  evaluator = recompile-if-missing-or-flagged, then call; recompile
             regenerates the symbolic object, stores it, trips-then-resets only
             its own flag; parameter values are read at call time.
 S4 R-CACHE  generators refresh the derived caches they read; no generator
             returns a memo; no snapshot of definition state taken at
             construction is kept across mutations.
 S5 R-CANARY the flag object's protocol, by interpretation of the operative class on all histories of <= 3 operations
             over two objects (rules/canaryx.py): new/tripped -> all set, reset / `= False` clear one flag of one
             object, `= True` sets nothing, objects independent.
"""
import ast
import itertools

from ..core.algebra import Undecided
from ..core.source import (AnalysisError, is_self_attr, dotted, norm, walk_no_nested, kwarg,
                           const_value)
from ..core.cfg import cfg_of
from ..core.dataflow import dataflow_of
from ..rules import model as M
from ..rules import common as C
from ..specs import c08 as SPEC

TECHNIQUE = ("static analysis: call-graph closure of definition-state writers + CFG must-pass-through "
             "of the trip call (R-TRIP), registry/canary set agreement (R-REG), truth-table of the "
             "recompile guard and dominance ordering in the recompile routine (R-GUARD), cache-refresh "
             "dominance (R-CACHE)")

MUTATORS = {"append", "extend", "insert", "pop", "remove", "clear", "update", "setdefault",
            "sort", "reverse", "add", "discard", "popitem", "__setitem__", "__delitem__"}


def is_trip_call(n):
    return (isinstance(n, ast.Call) and isinstance(n.func, ast.Attribute) and n.func.attr == "trip"
            and is_self_attr(n.func.value, "_hasNewTransition"))


# evaluators that must be flagged after the write under consideration (set by the R-TRIP loop): a trip() without arguments flags
# every evaluator; a trip that names the flags to set covers the write only if it names every evaluator whose generator reads
# what was written
_REQUIRED = [None]


def trip_covers(call):
    if not call.args and not call.keywords:
        return True
    req = _REQUIRED[0]
    if req is None:
        return True
    names = set()
    for a in call.args:
        if isinstance(a, ast.Starred):
            a = a.value
            if isinstance(a, (ast.Tuple, ast.List)) and all(isinstance(x, ast.Constant) and isinstance(x.value, str) for x in a.elts):
                names |= {x.value for x in a.elts}
                continue
            raise AnalysisError("cannot resolve the flags named in %s" % norm(call))
        if isinstance(a, ast.Constant) and isinstance(a.value, str):
            names.add(a.value)
        elif isinstance(a, (ast.Tuple, ast.List)) and all(isinstance(x, ast.Constant) and isinstance(x.value, str) for x in a.elts):
            names |= {x.value for x in a.elts}
        else:
            raise AnalysisError("cannot resolve the flags named in %s" % norm(call))
    if call.keywords:
        raise AnalysisError("cannot resolve the flags named in %s" % norm(call))
    return req <= names


def _base_self_attr(node, repo, cls):
    """self._X / self.prop (prop getter returns self._X) at the base of a chain of
    subscripts -> '_X' ; else None"""
    while isinstance(node, ast.Subscript):
        node = node.value
    if is_self_attr(node):
        t = M.getter_target(repo, cls, node.attr)
        return t if t is not None else node.attr
    return None


def local_aliases(func, repo, cls):
    """flow-insensitive may-alias facts of the function's local names: {name: {(attr, depth)}} - depth 0: the name may be
    the very object held by self.<attr>; depth k: a tuple / list / dict whose elements (k levels down) may be that object.
    Only constructs that keep object identity are followed (displays, conditional expressions, subscripts, for / comprehension
    targets, zip / enumerate / reversed / iter); anything that copies (list(), sorted(), slicing, calls) is not."""
    al = {}

    def of(e):
        if e is None:
            return set()
        if is_self_attr(e):
            t = M.getter_target(repo, cls, e.attr)
            return {(t if t is not None else e.attr, 0)}
        if isinstance(e, ast.Name):
            return set(al.get(e.id, ()))
        if isinstance(e, (ast.Tuple, ast.List, ast.Set)):
            return {(a, d + 1) for x in e.elts for a, d in of(x.value if isinstance(x, ast.Starred) else x)}
        if isinstance(e, ast.Dict):
            return {(a, d + 1) for x in e.values for a, d in of(x)}
        if isinstance(e, ast.IfExp):
            return of(e.body) | of(e.orelse)
        if isinstance(e, ast.BoolOp):
            return set().union(*[of(v) for v in e.values])
        if isinstance(e, ast.NamedExpr):
            return of(e.value)
        if isinstance(e, ast.Subscript) and not isinstance(e.slice, ast.Slice):
            return {(a, d - 1) for a, d in of(e.value) if d >= 1}
        if isinstance(e, ast.Call) and dotted(e.func) in ("zip", "enumerate", "reversed", "iter", "itertools.chain", "chain"):
            # iterating yields tuples of the arguments' elements (zip / enumerate) or the elements themselves
            wrap = 1 if dotted(e.func) in ("zip", "enumerate") else 0
            return {(a, d + wrap) for x in e.args for a, d in of(x) if d >= 1}
        return set()

    def bind(t, facts):
        if isinstance(t, ast.Name):
            if not facts <= al.get(t.id, set()):
                al[t.id] = al.get(t.id, set()) | facts
                return True
            return False
        if isinstance(t, (ast.Tuple, ast.List)):
            sub = {(a, d - 1) for a, d in facts if d >= 1}
            return any([bind(x.value if isinstance(x, ast.Starred) else x, sub) for x in t.elts])
        return False
    changed = True
    rounds = 0
    while changed and rounds < 10:
        changed = False
        rounds += 1
        for n in ast.walk(func.node):
            if isinstance(n, ast.Assign):
                f = of(n.value)
                for t in n.targets:
                    changed |= bind(t, f)
            elif isinstance(n, ast.NamedExpr):
                changed |= bind(n.target, of(n.value))
            elif isinstance(n, (ast.For, ast.comprehension)):
                changed |= bind(n.target, {(a, d - 1) for a, d in of(n.iter) if d >= 1})
            elif isinstance(n, ast.withitem) and n.optional_vars is not None:
                changed |= bind(n.optional_vars, of(n.context_expr))
    return {k: {a for a, d in v if d == 0} for k, v in al.items() if any(d == 0 for _a, d in v)}


_PM_CACHE = {}


def param_mutations(func, repo=None, cls=None, _stack=()):
    """names of parameters that func mutates in place (p.append(..), p[k] = v, p += ..), directly or by handing them on to a
    method of the same class (or to itself) in a slot that method mutates"""
    key = (getattr(repo, "digest", None), func.construct)
    if len(_PM_CACHE) > 4000:
        _PM_CACHE.clear()
    if key in _PM_CACHE:
        return _PM_CACHE[key]
    out = _param_mutations_direct(func)
    if repo is not None and cls is not None and func.construct not in _stack:
        params = set(func.params)
        for n in walk_no_nested(func.node):
            if isinstance(n, ast.Call) and is_self_attr(n.func):
                callee = repo.resolve_method(cls, n.func.attr)
                if callee is None:
                    continue
                pm = _param_mutations_direct(callee) if callee.construct == func.construct else param_mutations(callee, repo, cls, _stack + (func.construct,))
                if not pm:
                    continue
                ps = callee.params[1:]
                for i, a in enumerate(n.args):
                    if i < len(ps) and ps[i] in pm and isinstance(a, ast.Name) and a.id in params:
                        out.add(a.id)
                for k in n.keywords:
                    if k.arg in pm and isinstance(k.value, ast.Name) and k.value.id in params:
                        out.add(k.value.id)
    if not _stack:
        _PM_CACHE[key] = out
    return out


def _param_mutations_direct(func):
    out = set()
    params = set(func.params)
    for n in walk_no_nested(func.node):
        if isinstance(n, ast.Call) and isinstance(n.func, ast.Attribute) and n.func.attr in MUTATORS \
                and isinstance(n.func.value, ast.Name) and n.func.value.id in params:
            out.add(n.func.value.id)
        elif isinstance(n, (ast.Assign, ast.AugAssign, ast.Delete)):
            tg = n.targets if isinstance(n, (ast.Assign, ast.Delete)) else [n.target]
            for t in tg:
                if isinstance(t, ast.Subscript):
                    b = t.value
                    while isinstance(b, ast.Subscript):
                        b = b.value
                    if isinstance(b, ast.Name) and b.id in params:
                        out.add(b.id)
    return out


def write_sites(repo, cls, func, D):
    """[(attr, ast node of the writing statement/call)] - direct writes of func to
    attributes in D (assignment, augmented assignment, subscript store, mutator
    call, or passing the attribute to a helper that mutates that parameter)"""
    out = []
    aliases = local_aliases(func, repo, cls)

    def bases(node):
        """attributes of self whose object the expression (under subscripts) may denote: self._X directly, or a local name
        that may alias it"""
        a = _base_self_attr(node, repo, cls)
        if a is not None:
            return [a]
        while isinstance(node, ast.Subscript):
            node = node.value
        if isinstance(node, ast.Name):
            return sorted(aliases.get(node.id, ()))
        return []
    for n in walk_no_nested(func.node):
        if isinstance(n, (ast.Assign, ast.AugAssign, ast.AnnAssign, ast.Delete)):
            tg = n.targets if isinstance(n, (ast.Assign, ast.Delete)) else [n.target]
            flat = []
            for t in tg:
                flat.extend(t.elts if isinstance(t, (ast.Tuple, ast.List)) else [t])
            for t in flat:
                if is_self_attr(t) and repo.resolve_setter(cls, t.attr) is None:
                    if t.attr in D:
                        out.append((t.attr, n))
                elif isinstance(t, ast.Subscript):
                    for a in bases(t):
                        if a in D:
                            out.append((a, n))
                elif isinstance(t, ast.Name) and isinstance(n, ast.AugAssign):
                    for a in sorted(aliases.get(t.id, ())):       # name += [...] extends the aliased list in place
                        if a in D:
                            out.append((a, n))
        elif isinstance(n, ast.Call):
            if isinstance(n.func, ast.Attribute) and n.func.attr in MUTATORS:
                for a in bases(n.func.value):
                    if a in D:
                        out.append((a, n))
            if is_self_attr(n.func):
                callee = repo.resolve_method(cls, n.func.attr)
                if callee is not None:
                    pm = param_mutations(callee, repo, cls)
                    if pm:
                        ps = callee.params[1:]
                        for i, a in enumerate(n.args):
                            if i < len(ps) and ps[i] in pm:
                                at = _base_self_attr(a, repo, cls)
                                if at in D:
                                    out.append((at, n))
                        for k in n.keywords:
                            if k.arg in pm:
                                at = _base_self_attr(k.value, repo, cls)
                                if at in D:
                                    out.append((at, n))
    return out


def _cfg_node_containing(cfg, df, node):
    n = df.node_containing(node)
    if n is None:
        raise AnalysisError("cannot locate %s in CFG" % norm(node))
    return n


def trip_nodes(repo, cls, func, always_trips):
    """CFG nodes of func that certainly trip: direct trip() calls, or calls to a
    self-method that trips on every normal path"""
    cfg, df = cfg_of(func), dataflow_of(func)
    out = []
    for n in cfg.stmt_nodes():
        for e in df.node_exprs(n):
            for c in walk_no_nested(e):
                if is_trip_call(c):
                    if trip_covers(c):
                        out.append(n)
                elif isinstance(c, ast.Call) and is_self_attr(c.func):
                    m = repo.resolve_method(cls, c.func.attr)
                    if m is not None and m.construct in always_trips:
                        out.append(n)
                elif isinstance(c, ast.Assign):
                    pass
        # property-setter assignment that always trips:  self.param_list = ...
        st = n.ast
        if n.kind == "stmt" and isinstance(st, ast.Assign):
            for t in st.targets:
                if is_self_attr(t):
                    s = repo.resolve_setter(cls, t.attr)
                    if s is not None and s.construct in always_trips:
                        out.append(n)
    return out


def compute_always_trips(repo, cls):
    """methods/setters on the MRO all of whose normal paths pass through a trip"""
    funcs = []
    for c in repo.mro(cls):
        funcs += list(c.methods.values()) + list(c.setters.values())
    always = set()
    changed = True
    while changed:
        changed = False
        for f in funcs:
            if f.construct in always:
                continue
            cfg = cfg_of(f)
            tn = trip_nodes(repo, cls, f, always)
            if tn and cfg.must_pass_after(cfg.entry, tn):
                always.add(f.construct)
                changed = True
    return always


def callers_of(repo, cls, target):
    """[(FuncInfo caller, ast node of call site)] of self.<target>(...) and, for a
    setter, of `self.<prop> = ...` within the MRO"""
    out = []
    for c in repo.mro(cls):
        for f in list(c.methods.values()) + list(c.setters.values()) + list(c.getters.values()):
            for n in walk_no_nested(f.node):
                if target.kind == "setter":
                    if isinstance(n, ast.Assign) and any(is_self_attr(t, target.name) for t in n.targets):
                        out.append((f, n))
                    elif isinstance(n, ast.Call) and dotted(n.func) in ("self.__setattr__", "setattr"):
                        # dynamic route: self.__setattr__(<name>, v) - name may be a parameter
                        out.append((f, n)) if _may_name(n, target.name, f) else None
                elif isinstance(n, ast.Call) and is_self_attr(n.func, target.name):
                    if repo.resolve_method(cls, target.name) is target:
                        out.append((f, n))
    return out


def _may_name(call, name, func):
    args = call.args[1:] if dotted(call.func) == "setattr" else call.args
    if not args:
        return False
    a = args[0]
    if isinstance(a, ast.Constant):
        return a.value == name
    return False   # a parameter-named attribute: resolved at the callers of func, see _add_list_attr


def _passed_as_value(all_funcs, name):
    """is self.<name> used other than as the callee of a call?"""
    for f in all_funcs:
        called = {id(c.func) for c in ast.walk(f.node) if isinstance(c, ast.Call)}
        for x in ast.walk(f.node):
            if is_self_attr(x, name) and isinstance(x.ctx, ast.Load) and id(x) not in called:
                return True
    return False


def definition_state(repo, cls, regs, res):
    """D = transitive compile-time read set of the generators and of the recompile
    routine, restricted to attributes that some method outside constructors and
    generators writes (everything else is a constant or a generator-owned cache)."""
    gens = {r.gen.construct: r.gen for r in regs}
    compile_fn = repo.resolve_method(cls, "add_compiled_sympy_object")
    if compile_fn is None:
        raise AnalysisError("add_compiled_sympy_object vanished")
    reads = set()
    for g in gens.values():
        reads |= M.self_reads(repo, cls, g)
    reads |= M.self_reads(repo, cls, compile_fn)
    # who writes what
    writers = {}
    all_funcs = []
    for c in repo.mro(cls):
        all_funcs += list(c.methods.values()) + list(c.setters.values())
    # private helpers that are only ever called from generators (or from such helpers) are part of the generators: what they
    # write is the generator filling its own cache
    by_name = {}
    for f in all_funcs:
        by_name.setdefault(f.name, []).append(f)
    callers = {}
    for f in all_funcs:
        for _n, _c, callee in C.calls(f):
            if callee.startswith("self.") and callee.count(".") == 1 and callee[5:] in by_name:
                callers.setdefault(callee[5:], set()).add(f.construct)
        for x in ast.walk(f.node):            # a method handed around as a value (self._helper without a call) may be called from anywhere
            if is_self_attr(x) and isinstance(x.ctx, ast.Load) and x.attr in by_name:
                callers.setdefault(x.attr, set())
    owned = set(gens)
    grew = True
    while grew:
        grew = False
        for name, fs in by_name.items():
            for f in fs:
                if f.construct in owned or not name.startswith("_") or name.startswith("__"):
                    continue
                cs = callers.get(name)
                if cs and cs <= owned and not _passed_as_value(all_funcs, name):
                    owned.add(f.construct)
                    grew = True
    for f in all_funcs:
        if f.name == "__init__" or f.construct in owned:
            continue
        for a, n in write_sites(repo, cls, f, reads):
            writers.setdefault(a, []).append((f, n))
    D = set(writers) - set(SPEC.NOT_DEFINITION_STATE)
    return D, reads, writers, gens, compile_fn, all_funcs


def check(repo, res, tier):
    res.rule("R-REG", "registered evaluator names = flags of the canary class operative on SimulateOde")
    res.rule("R-TRIP", "every write to definition state is followed on all normal exits by trip(), in the method or after every call site of a private helper")
    res.rule("R-GUARD", "evaluator recompiles when missing or flagged, recompile regenerates/stores/resets its own flag, parameters read at call time")
    res.rule("R-CACHE", "generators refresh caches they read, return no memo; no construction-time snapshot of definition state survives mutation")
    res.rule("R-CANARY", "trip() sets all flags True; a flag can only be assigned False")
    res.s_clauses = ["S1 R-REG", "S2 R-TRIP", "S3 R-GUARD", "S4 R-CACHE", "S5 R-CANARY"]
    res.n_clauses = ["that sympy/autowrap compile the regenerated expression correctly (library behaviour)",
                     "mutation by writing private attributes directly (outside the quantifier: users go through public methods)"]
    cls = M.sim_class(repo)
    regs = M.registry(repo)
    res.floor("add_func registrations", len(regs), 11)

    # ---------------------------------------------------------------- S1 R-REG
    canary, assign_st, init = M.operative_canary(repo)
    states, _owner = M.canary_states(repo, canary)
    sset = set(states)
    for r in regs:
        res.check(r.name in sset, "R-REG", r.func, "add_func(%s)" % r.name,
                  "evaluator '%s' has a flag in %s.states" % (r.name, canary.name),
                  "evaluator '%s' is registered but %s.states (the canary operative on SimulateOde) has no such flag: "
                  "after its first compilation reset() stores a plain attribute that trip() never sets again, so the "
                  "evaluator is never recompiled" % (r.name, canary.name), node=r.call)
    names = [r.name for r in regs]
    dups = {n for n in names if names.count(n) > 1}
    res.check(not dups, "R-REG", init, "unique-names", "registered names are unique",
              "evaluator name(s) %s registered twice: the later setattr shadows the earlier generator" % sorted(dups))
    # master registration exists and is the ode
    masters = [r for r in regs if r.master]
    res.check(len(masters) == 1 and masters[0].name == "ode", "R-REG", init, "master",
              "exactly one master evaluator ('ode')",
              "master canary registrations: %s (expected exactly 'ode')" % [m.name for m in masters])
    # canary instance created after the base constructor
    if init.cls != "SimulateOde":
        res.violated("R-REG", init, "canary-binding",
                     "SimulateOde.__init__ does not bind its own canary; the operative class is %s.%s with states %s"
                     % (canary.module.modname, canary.name, states), node=assign_st)
    else:
        cfg, df = cfg_of(init), dataflow_of(init)
        sup = None
        for n in cfg.stmt_nodes():
            for e in df.node_exprs(n):
                for c in walk_no_nested(e):
                    if isinstance(c, ast.Call) and isinstance(c.func, ast.Attribute) and c.func.attr == "__init__" \
                            and isinstance(c.func.value, ast.Call) and dotted(c.func.value.func) == "super":
                        sup = n
        an = cfg.node_of(assign_st)
        res.check(sup is not None and cfg.dominates(sup, an), "R-REG", init, "canary-binding",
                  "canary bound after super().__init__ (the base constructor's empty canary is replaced)",
                  "self._hasNewTransition is not (re)bound after super().__init__: the base constructor installs a "
                  "canary with no flags", node=assign_st)
        # no later re-binding in add_func / elsewhere
    rebinding = []
    for c in repo.mro(cls):
        for f in list(c.methods.values()) + list(c.setters.values()):
            if f.name in ("__init__",):
                continue
            for n in walk_no_nested(f.node):
                if isinstance(n, ast.Assign) and any(is_self_attr(t, "_hasNewTransition") for t in n.targets):
                    rebinding.append((f, n))
    for f, n in rebinding:
        res.violated("R-REG", f, "rebinding", "canary object is replaced outside the constructor", node=n)

    # --------------------------------------------------------------- S5 R-CANARY
    from ..rules import canaryx
    nh = canaryx.check_canary(repo, res, canary, states, maxlen=4 if tier == "thorough" else 3)
    res.floor("canary histories played", nh, 2000)

    # ---------------------------------------------------------------- S2 R-TRIP
    D, reads, writers, gens, compile_fn, all_funcs = definition_state(repo, cls, regs, res)
    res.floor("definition-state attributes", len(D & SPEC.EXPECTED_D), len(SPEC.EXPECTED_D))
    _REQUIRED[0] = {r.name for r in regs}        # a method "always trips" for its callers only if it flags every evaluator
    try:
        always = compute_always_trips(repo, cls)
    finally:
        _REQUIRED[0] = None
    n_sites = 0
    methods_with_sites = set()
    for a in sorted(D):
        for f, n in writers[a]:
            if a in SPEC.DERIVED_CACHE_EXCEPTIONS and f.name in SPEC.DERIVED_CACHE_EXCEPTIONS[a]["writers"]:
                res.holds("R-TRIP", f, "write(%s)" % a, "named exception: " + SPEC.DERIVED_CACHE_EXCEPTIONS[a]["reason"], node=n)
                continue
            n_sites += 1
            methods_with_sites.add(f.construct)
            _REQUIRED[0] = {r.name for r in regs if a in M.self_reads(repo, cls, r.gen)}
            try:
                ok, why = _discharged(repo, cls, f, n, always, depth=3, seen=set())
                if not ok and "trip" in norm(f.node) and _REQUIRED[0]:
                    why += " (a trip that names its flags must name every evaluator whose generator reads %s: %s)" % (a, ", ".join(sorted(_REQUIRED[0])))
            finally:
                _REQUIRED[0] = None
            tag = "write(%s)@%s" % (a, norm(n)[:60])
            if ok:
                res.holds("R-TRIP", f, tag, why, node=n)
            else:
                res.violated("R-TRIP", f, tag,
                             "definition state %s is modified but not every path from here to a normal exit trips the "
                             "recompile flags: %s. Every evaluator compiled before this call keeps returning the old model."
                             % (a, why), node=n)
    res.floor("definition-state write sites", n_sites, 6)

    # --------------------------------------------------------------- S3 R-GUARD
    _check_guard(repo, res, cls, compile_fn, tier)

    # --------------------------------------------------------------- S4 R-CACHE
    # by value: every derivative / rate builder activated twice on one model object, before and after the definition changed, must
    # return the objects of the definition current at that activation (a builder that keeps anything it computed earlier fails)
    from . import C03 as _C03
    nb2 = _C03.check_builders(repo, res, None, ((2, 3, 2), (3, 2, 3)), rename={"R-DERIV": "R-CACHE", "R-CAO": "R-CACHE", "R-REFRESH": "R-CACHE"})
    res.floor("two-generation builder activations", nb2, 24)
    _check_cache(repo, res, cls, regs, gens, D, all_funcs)

    # ------------------------------------------------------------- S6 R-PARAMSEQ
    # "changing parameter values" is one of the modifications of the property: after any sequence of
    # assignments the value list the evaluators read at call time is the current one (shared with C09)
    from . import C09
    setter = repo.resolve_setter(cls, "parameters")
    res.rule("R-PARAMSEQ", "after any sequence of parameter assignments the value list read by the evaluators holds the last value given per name")
    bad3, n3 = C09.sequences_of_three(setter)
    res.check(not bad3, "R-PARAMSEQ", setter, "successive-triples(%d sequences)" % n3,
              "the evaluators' value list is current after every sequence of three assignments in mixed formats",
              "after some sequences of parameter assignments the evaluators keep using an old value (%d of %d), e.g. %s" % (len(bad3), n3, "; ".join(bad3[:2])),
              node=setter.node)


def _discharged(repo, cls, f, site, always, depth, seen):
    cfg, df = cfg_of(f), dataflow_of(f)
    start = _cfg_node_containing(cfg, df, site)
    tn = trip_nodes(repo, cls, f, always)
    # a trip in the same node as the write counts only if it is a different call
    tn = [t for t in tn if t.id != start.id]
    if cfg.must_pass_after(start, tn):
        return True, "trip() on every path to a normal exit of %s" % f.qualname
    # tripping just before the write is equally good: no evaluator can run in between inside this activation
    if tn and not cfg.reaches(cfg.entry, start, avoid=tn):
        return True, "trip() on every path leading to the write in %s" % f.qualname
    private = f.name.startswith("_") and not (f.name.startswith("__") and f.name.endswith("__")) and f.kind != "setter"
    if not private:
        return False, "%s is public API and can be called directly" % f.qualname
    if depth <= 0:
        return False, "caller chain deeper than 3"
    key = f.construct
    if key in seen:
        return True, "recursive call (discharged by the outer activation)"
    seen = seen | {key}
    cs_all = callers_of(repo, cls, f)
    cs = [(g, n) for g, n in cs_all if g.name != "__init__"]
    if cs_all and not cs:
        return True, "only called during construction (flags start tripped)"
    if not cs:
        return False, "private helper %s has no caller that trips" % f.qualname
    for g, n in cs:
        ok, why = _discharged(repo, cls, g, n, always, depth - 1, seen)
        if not ok:
            return False, "via caller %s: %s" % (g.qualname, why)
    return True, "every call site of %s is followed by trip() (%d caller(s))" % (f.qualname, len(cs))


# ------------------------------------------------------------------- R-GUARD
def _check_guard(repo, res, cls, compile_fn, tier="quick"):
    """the evaluator protocol, decided on every history of at most four steps (rules/evalx.py)"""
    from ..rules import evalx
    add_func = repo.resolve_method(cls, "add_func")
    if add_func is None:
        raise AnalysisError("add_func vanished")
    try:
        bad, n = evalx.run_histories(repo, cls, maxlen=5 if tier == "thorough" else 4)
    except Undecided as e:
        res.undecided("R-GUARD", add_func, "histories", "outside the modelled subset: %s" % e)
        return
    res.functions.add(compile_fn.construct)
    res.check(not bad, "R-GUARD", add_func, "histories(%d)" % n,
              "on every history of <= %d steps over" % (5 if tier == "thorough" else 4) + "  {evaluate ode, evaluate jacobian, modify the model, change parameter values} each evaluation returns what a "
              "freshly built model of the current definition returns (current expression, symbols, output type, parameter values read at call time)",
              "an evaluator is stale or wrong on %d histor%s, e.g. %s" % (len(bad), "y" if len(bad) == 1 else "ies", bad[0] if bad else ""), node=add_func.node)
    res.floor("evaluator histories played", n, 150)


# ------------------------------------------------------------------- R-CACHE
def _check_cache(repo, res, cls, regs, gens, D, all_funcs):
    # cache attribute -> generator(s) that write it
    cache_writers = {}
    gen_like = dict(gens)
    # un-registered builders that follow the same convention (get_ReactantMatrix, get_BirthDeathVector, ...)
    for c in repo.mro(cls):
        for f in c.methods.values():
            if f.name.startswith("get_") and f.construct not in gen_like:
                gen_like[f.construct] = f
    for g in gen_like.values():
        for n in walk_no_nested(g.node):
            if isinstance(n, ast.Assign):
                for t in n.targets:
                    tt = t.elts if isinstance(t, ast.Tuple) else [t]
                    for x in tt:
                        if is_self_attr(x):
                            cache_writers.setdefault(x.attr, set()).add(g.name)
    # only attributes that are generator-owned (no writer elsewhere but constructors)
    other_writers = {}
    for f in all_funcs:
        if f.construct in gen_like:
            continue
        for n in walk_no_nested(f.node):
            if isinstance(n, (ast.Assign, ast.AugAssign)):
                tg = n.targets if isinstance(n, ast.Assign) else [n.target]
                for t in tg:
                    for x in (t.elts if isinstance(t, ast.Tuple) else [t]):
                        if is_self_attr(x):
                            other_writers.setdefault(x.attr, set()).add(f.name)
    caches = {a for a in cache_writers if other_writers.get(a, set()) <= {"__init__"}}
    caches -= set(SPEC.NOT_A_CACHE)
    n_reads = 0
    for g in gens.values():
        cfg, df = cfg_of(g), dataflow_of(g)
        for n in cfg.stmt_nodes():
            for e in df.node_exprs(n):
                for x in walk_no_nested(e):
                    if is_self_attr(x) and isinstance(x.ctx, ast.Load) and x.attr in caches:
                        a = x.attr
                        n_reads += 1
                        # refreshed in this activation: dominated by a call of a writer, or by own write
                        refreshers = []
                        for m in cfg.stmt_nodes():
                            if m.id == n.id:
                                continue
                            for e2 in df.node_exprs(m):
                                for c in walk_no_nested(e2):
                                    if isinstance(c, ast.Call) and is_self_attr(c.func) and c.func.attr in cache_writers[a]:
                                        refreshers.append(m)
                            st = m.ast
                            if m.kind == "stmt" and isinstance(st, ast.Assign):
                                for t in st.targets:
                                    for y in (t.elts if isinstance(t, ast.Tuple) else [t]):
                                        if is_self_attr(y, a):
                                            refreshers.append(m)
                        own = g.name in cache_writers[a]
                        ok = any(cfg.dominates(m, n) for m in refreshers)
                        if not ok and own:
                            # reading back its own cache inside the loop that fills it
                            ok = any(cfg.reaches(m, n) for m in refreshers) and _own_write_dominates(cfg, g, a, n)
                        tag = "read(%s)@%s" % (a, norm(n.ast)[:50])
                        res.check(ok, "R-CACHE", g, tag, "cache %s refreshed in this activation before being read" % a,
                                  "generator %s reads the derived cache self.%s without refreshing it first (writers: %s): "
                                  "after a model change it differentiates/combines the previous model's object"
                                  % (g.name, a, sorted(cache_writers[a])), node=n.ast)
    res.floor("generator cache reads", n_reads, 8)
    # no memo: what a registered generator returns is (re)written on every path
    for g in gens.values():
        cfg, df = cfg_of(g), dataflow_of(g)
        for n in cfg.stmt_nodes():
            if isinstance(n.ast, ast.Return) and n.ast.value is not None:
                attrs = [x.attr for x in ast.walk(n.ast.value) if is_self_attr(x)]
                for a in attrs:
                    writes = [m for m in cfg.stmt_nodes() if m.kind == "stmt" and isinstance(m.ast, ast.Assign)
                              and any(is_self_attr(y, a) for t in m.ast.targets for y in (t.elts if isinstance(t, ast.Tuple) else [t]))]
                    ok = any(cfg.dominates(m, n) for m in writes)
                    key = (g.name, a)
                    res.check(ok, "R-CACHE", g, "no-memo(%s)" % a, "returned object is rebuilt on every call",
                              "generator returns self.%s which is not rebuilt on every path (memo without a flag)" % a, node=n.ast)
    # memos elsewhere (named exceptions)
    for name, why in SPEC.MEMO_EXCEPTIONS.items():
        f = repo.resolve_method(cls, name)
        if f is not None:
            res.holds("R-CACHE", f, "memo-exception", "named exception: " + why)
    # construction-time snapshots of definition state
    dprops = set()
    for c in repo.mro(cls):
        for pn, g in c.getters.items():
            if M.self_reads(repo, cls, g) & D:
                dprops.add(pn)
    reassigned = {}
    for f in all_funcs:
        if f.name == "__init__":
            continue
        for n in walk_no_nested(f.node):
            if isinstance(n, ast.Assign):
                for t in n.targets:
                    if is_self_attr(t):
                        reassigned.setdefault(t.attr, set()).add(f.name)
    read_outside = {}
    for f in all_funcs + [g for c in repo.mro(cls) for g in c.getters.values()]:
        if f.name == "__init__":
            continue
        for n in ast.walk(f.node):
            if is_self_attr(n) and isinstance(n.ctx, ast.Load):
                read_outside.setdefault(n.attr, set()).add(f.name)
    n_snap = 0
    for c in repo.mro(cls):
        init = c.methods.get("__init__")
        if init is None:
            continue
        for n in walk_no_nested(init.node):
            if isinstance(n, ast.Assign) and len(n.targets) == 1 and is_self_attr(n.targets[0]):
                a = n.targets[0].attr
                deps = {x.attr for x in ast.walk(n.value) if is_self_attr(x)} & (dprops | D)
                if not deps:
                    continue
                n_snap += 1
                if a in D:
                    continue  # definition state itself
                if reassigned.get(a):
                    res.holds("R-CACHE", init, "snapshot(%s)" % a,
                              "rebuilt later by %s" % sorted(reassigned[a]), node=n)
                elif not read_outside.get(a):
                    res.holds("R-CACHE", init, "snapshot(%s)" % a, "never read after construction", node=n)
                else:
                    res.violated("R-CACHE", init, "snapshot(%s)" % a,
                                 "self.%s is computed once at construction from %s and never rebuilt, yet read by %s: after a "
                                 "parameter/state is added it still describes the old dimensions"
                                 % (a, sorted(deps), sorted(read_outside[a])[:6]), node=n)


def _own_write_dominates(cfg, g, a, n):
    for m in cfg.stmt_nodes():
        if m.kind == "stmt" and isinstance(m.ast, ast.Assign):
            for t in m.ast.targets:
                if is_self_attr(t, a) and cfg.dominates(m, n):
                    return True
    return False
