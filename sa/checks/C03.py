"""C03 - Jacobian, gradient and higher derivative functions are the true derivatives.

Differentiation itself is sympy's; what the repository owns is *which* expression is
differentiated with respect to *which* symbol and *where* the result is stored.  The
symbolic builders are interpreted with sympy replaced by a formal calculus (an opaque
derivative operator D[f_i | x_j] that is linear and symmetric in mixed partials):

 S1 R-DERIV  jacobian[i,j] = D[f_i|x_j];  grad[i,k] = D[f_i|theta_k];
             diff_jacobian[e*nS+i, j] = D[f_e|x_i,x_j];  grad_jacobian[k*nS+i, j] = D[f_i|theta_k,x_j]
             (rows / columns in declared state and parameter order)
 S2 R-CAO    transitionJacobian[i,j] = sum_k D[a_i|x_k] V[k,j];  transitionMean[i] = sum_j F[i,j] a_j;
             transitionVar[i] = sum_j F[i,j]^2 a_j   (Cao et al. eqs 7, 8a, 8b)
 S3 R-REFRESH every builder refreshes the objects it differentiates in the same activation
             (a builder that reads a cache it did not refresh fails the interpretation)
 S4 R-SHAPE  matrix-valued evaluators are registered as matrices
"""
import ast

from ..core import algebra as A
from ..core.absint import Abs, Obj, Tok, Raised
from ..core.symarr import SymArr, np_summaries
from ..core.source import AnalysisError, norm
from ..rules import model as M
from ..rules import layout as L
from ..rules.shape import check_shapes

TECHNIQUE = ("static analysis: interpretation of the symbolic derivative builders with sympy replaced by a formal "
             "derivative operator over opaque atoms; entry-wise identity against the declared row/column order; shape inference")


class SymMat(SymArr):
    """sympy-Matrix flavoured SymArr: single-integer indexing is flat, iteration yields elements"""

    def __getitem__(self, key):
        if isinstance(key, int) and self.ndim == 2:
            return self.flat[key]
        return SymArr.__getitem__(self, key)

    def __setitem__(self, key, value):
        if isinstance(key, int) and self.ndim == 2:
            self.flat[key] = A.lift(value)
            return
        SymArr.__setitem__(self, key, value)

    def __iter__(self):
        return iter(self.flat)

    def __len__(self):
        return self.size

    @property
    def rows(self):
        return self.shape[0]

    @property
    def cols(self):
        return self.shape[1]

    def __add__(self, o):
        r = SymArr.__add__(self, o)
        return SymMat(r.shape, r.flat)

    def jacobian(self, syms):
        vec = self.flat
        return SymMat((len(vec), len(syms)), [D(e, s) for e in vec for s in syms])

    def col_join(self, o):
        if self.shape[1] != o.shape[1]:
            raise A.Undecided("col_join of different widths")
        return SymMat((self.shape[0] + o.shape[0], self.shape[1]), list(self.flat) + list(o.flat))

    def row_join(self, o):
        rows = []
        for i in range(self.shape[0]):
            rows += self.flat[i * self.shape[1]:(i + 1) * self.shape[1]] + o.flat[i * o.shape[1]:(i + 1) * o.shape[1]]
        return SymMat((self.shape[0], self.shape[1] + o.shape[1]), rows)

    def copy(self):
        return SymMat(self.shape, list(self.flat))

    def row(self, i):
        n = self.shape[1]
        i = i if i >= 0 else self.shape[0] + i
        return SymMat((1, n), list(self.flat[i * n:(i + 1) * n]))

    def col(self, j):
        n = self.shape[1]
        j = j if j >= 0 else n + j
        return SymMat((self.shape[0], 1), [self.flat[i * n + j] for i in range(self.shape[0])])

    def tolist(self):
        n = self.shape[1] if self.ndim == 2 else 1
        return [list(self.flat[i * n:(i + 1) * n]) for i in range(self.shape[0])]

    @property
    def T(self):
        t = SymArr.transpose(self)
        return SymMat(t.shape, list(t.flat))

    def atoms(self, *a):
        return set()

    @property
    def free_symbols(self):
        out, seen = [], set()
        for e in self.flat:
            for a in A.lift(e).atoms():
                if a[0] != "sym":
                    raise A.Undecided("free symbols of a non-polynomial entry")
                if a[1].startswith(("f", "a", "V", "F", "D[")) and not a[1].startswith(("x", "p")):
                    # an opaque stand-in for "some expression of the states and parameters": its free symbols are not defined
                    raise A.Undecided("free symbols of an opaque right-hand side")
                if a[1] not in seen:
                    seen.add(a[1])
                    out.append(A.sym(a[1]))
        return out

    def __deepcopy__(self, memo):
        return self.copy()


def D(expr, var, order=1):
    """formal derivative: linear over sums with constant coefficients; D of an atom is a new atom
    whose name records the (sorted) differentiation variables"""
    expr = A.lift(expr)
    if expr.den != A.ONE:
        raise A.Undecided("derivative of a quotient")
    vname = _atom_name(var)
    out = A.Rat.const(0)
    for mono, c in expr.num.items():
        if not mono:
            continue
        if len(mono) != 1 or mono[0][1] != 1:
            raise A.Undecided("derivative of a product")
        a = mono[0][0]
        nm = a[1]
        if nm.startswith("D["):
            base, vs = nm[2:-1].split("|")
            vs = sorted(vs.split(",") + [vname])
        else:
            base, vs = nm, [vname]
        out = out + c * A.sym("D[%s|%s]" % (base, ",".join(vs)))
    return out


def _atom_name(v):
    v = A.lift(v)
    ats = list(v.atoms())
    if len(ats) != 1 or ats[0][0] != "sym":
        raise A.Undecided("differentiation variable is not a symbol")
    return ats[0][1]


def dsym(base, *vs):
    return A.sym("D[%s|%s]" % (base, ",".join(sorted(vs))))


class BWorld:
    def __init__(self, repo, nS, nP, nE, gen=""):
        """`gen` distinguishes successive definitions of the same model object: the symbols of the
        right-hand side, rates and state-change matrix of generation g are f<g>i, a<g>i, V<g>k_j"""
        self.repo, self.nS, self.nP, self.nE, self.gen = repo, nS, nP, nE, gen
        self.cls = M.sim_class(repo)
        self.xs = [A.sym("x%d" % i) for i in range(nS)]
        self.ps = [A.sym("p%d" % k) for k in range(nP)]
        self.fn_ = lambda i: "f%s%d" % (gen, i)
        self.an_ = lambda i: "a%s%d" % (gen, i)
        self.f = SymMat((nS, 1), [A.sym(self.fn_(i)) for i in range(nS)])
        self.a = SymMat((nE, 1), [A.sym(self.an_(i)) for i in range(nE)])
        self.V = SymMat((nS, nE), [A.sym("V%s%d_%d" % (gen, k, j)) for k in range(nS) for j in range(nE)])
        self.F = SymMat((nE, nE), [A.sym("F%s%d_%d" % (gen, i, j)) for i in range(nE) for j in range(nE)])
        self.refreshed = []

    def run(self, name, me=None):
        fn = self.repo.resolve_method(self.cls, name)
        if fn is None:
            raise AnalysisError("builder %s vanished" % name)
        if me is None:
            me = Obj("Model", _isDifficult=False)
        w = self

        def setter(attr, val):
            def s(me_):
                me_.attrs[attr] = val.copy()
                w.refreshed.append(attr)
                return me_.attrs[attr]
            return s
        grad = SymMat((self.nS, self.nP), [dsym(self.fn_(i), "p%d" % k) for i in range(self.nS) for k in range(self.nP)]) if self.nP else SymMat((self.nS, 0), [])
        summ = {
            "Model.get_ode_eqn": setter("_ode", self.f),
            "Model.get_grad_eqn": setter("_Grad", grad),
            "Model.get_StateChangeMatrix": setter("_vMat", self.V),
            "Model.get_EventRateVector": setter("_eventRateVector", self.a),
            "Model.get_TransitionJacobian": setter("_transitionJacobian", self.F),
            "Model._iterStateList": lambda me_: list(self.xs),
            "Model._iterParamList": lambda me_: list(self.ps),
            "diff": lambda e, v, n=1: D(e, v), "sympy.diff": lambda e, v, n=1: D(e, v),
            "simplifyEquation": lambda e: (e, False),
            "copy.deepcopy": lambda x: x.copy() if hasattr(x, "copy") else x,
        }
        summ.update(sympy_ctors(SymMat))
        getters = {"num_state": lambda m: self.nS, "num_param": lambda m: self.nP, "num_events": lambda m: self.nE}
        lam = SymArr((self.nS, self.nE), [(i + j) % 2 for i in range(self.nS) for j in range(self.nE)])
        summ["Model.get_ReactantMatrix"] = setter("_lambdaMat", lam)
        ab = Abs({}, {}, summ, me, getters)
        ab.class_methods = set(self.repo.all_methods(self.cls)) | {g for c in self.repo.mro(self.cls) for g in c.getters}
        kind, out = ab.run_function(fn.node, {})
        return fn, kind, out, me


def check(repo, res, tier):
    res.rule("R-DERIV", "each derivative builder differentiates the right component w.r.t. the right symbol and stores it at the declared row/column")
    res.rule("R-CAO", "rate-sensitivity matrix and mean/variance of rate change equal their definitions (Cao et al. 7, 8a, 8b)")
    res.rule("R-REFRESH", "builders refresh what they differentiate")
    res.rule("R-SHAPE", "matrix evaluators registered as matrices")
    res.s_clauses = ["S1 R-DERIV", "S2 R-CAO", "S3 R-REFRESH", "S4 R-SHAPE"]
    res.n_clauses = ["correctness of sympy's diff / jacobian and of the compiled code", "numeric evaluation away from singularities of the rates"]
    shapes = ((2, 3, 2), (3, 2, 3), (1, 2, 1), (2, 1, 3)) + (((4, 2, 4), (2, 4, 1), (1, 1, 1), (3, 3, 2)) if tier == "thorough" else ())
    n = check_builders(repo, res, None, shapes)
    res.floor("builder interpretations", n, 48)
    nc = check_concrete(repo, res)
    res.floor("builders on a written-out right-hand side", nc, 4)
    check_shapes(repo, res, {"jacobian", "grad", "diff_jacobian", "grad_jacobian", "transitionJacobian", "transitionMean", "transitionVar"},
                 {"transitionJacobian": "one-event models", "jacobian": "one-state models"})


class CMat(SymMat):
    """matrix of written-out polynomials: derivatives are real derivatives"""

    def jacobian(self, syms):
        return CMat((len(self.flat), len(syms)), [A.diff(A.lift(e), _atom_name(s_)) for e in self.flat for s_ in syms])

    def copy(self):
        return CMat(self.shape, list(self.flat))

    def __add__(self, o):
        r = SymArr.__add__(self, o)
        return CMat(r.shape, r.flat)


_np = np_summaries()


def sympy_ctors(Mat):
    """the constructors of sympy matrices, for the matrix class of a world: zeros, Matrix(rows, cols, flat) / Matrix(list of rows) /
    Matrix(flat list -> column), eye, vstack, hstack"""
    def zeros(r, c=None):
        if isinstance(r, (tuple, list)):
            r, c = r
        c = r if c is None else c
        return Mat((r, c), [0] * (r * c))

    def matrix(*a):
        if len(a) == 3:
            r, c, flat = a
            if isinstance(flat, tuple) and flat and isinstance(flat[0], str):
                raise A.Undecided("sympy.Matrix(rows, cols, function)")
            flat = list(flat.flat) if isinstance(flat, SymArr) else list(flat)
            if len(flat) != r * c:
                raise ValueError("List length should be equal to rows*columns")
            return Mat((r, c), flat)
        if len(a) != 1:
            raise A.Undecided("sympy.Matrix with %d arguments" % len(a))
        v = a[0]
        if isinstance(v, SymArr):
            return Mat(v.shape if v.ndim == 2 else (v.shape[0], 1), list(v.flat))
        v = list(v)
        if v and isinstance(v[0], SymArr):
            # a list of row matrices / column vectors stacked on top of one another
            width = v[0].shape[1] if v[0].ndim == 2 else 1
            return Mat((sum(m.shape[0] for m in v), width), [x for m in v for x in m.flat])
        if v and isinstance(v[0], (list, tuple)):
            if len({len(r) for r in v}) != 1:
                raise ValueError("mismatched dimensions")
            return Mat((len(v), len(v[0])), [x for row in v for x in row])
        return Mat((len(v), 1), v)

    def vstack(*ms):
        ms = [m for m in ms]
        if not ms:
            return Mat((0, 0), [])
        if len({m.shape[1] for m in ms}) != 1:
            raise ValueError("vstack of matrices of different widths")
        return Mat((sum(m.shape[0] for m in ms), ms[0].shape[1]), [x for m in ms for x in m.flat])

    def hstack(*ms):
        if not ms:
            return Mat((0, 0), [])
        if len({m.shape[0] for m in ms}) != 1:
            raise ValueError("hstack of matrices of different heights")
        rows = []
        for i in range(ms[0].shape[0]):
            for m in ms:
                rows += list(m.flat[i * m.shape[1]:(i + 1) * m.shape[1]])
        return Mat((ms[0].shape[0], sum(m.shape[1] for m in ms)), rows)

    def eye(n, *a):
        return Mat((n, n), [1 if i == j else 0 for i in range(n) for j in range(n)])
    return {"sympy.zeros": zeros, "sympy.Matrix.zeros": zeros, "sympy.Matrix": matrix, "sympy.ImmutableMatrix": matrix, "sympy.MutableDenseMatrix": matrix,
            "sympy.Matrix.vstack": vstack, "sympy.Matrix.hstack": hstack, "sympy.eye": eye, "sympy.Matrix.eye": eye,
            "sympy.S": lambda v: A.lift(v), "sympy.Integer": lambda v: A.Rat.const(int(v)), "sympy.sympify": lambda v: A.lift(v),
            # index helpers of numpy the builders may use to walk a matrix
            "np.ndindex": _np["np.ndindex"], "np.arange": lambda *a: list(range(*a))}


def check_concrete(repo, res):
    """the derivative builders on a model whose right-hand side is written out (polynomials in which one declared parameter and one
    state do not occur): every entry is compared with the derivative of that polynomial, zero rows / columns included.  Decides code
    that inspects the expressions (free symbols, zero tests), which an opaque right-hand side cannot."""
    nS, nP = 3, 3
    xs = [A.sym("x%d" % i) for i in range(nS)]
    ps = [A.sym("p%d" % k) for k in range(nP)]
    x0, x1, x2 = xs
    p0, p1, p2 = ps
    # p1 occurs nowhere, x2 occurs nowhere; f2 is linear
    f = [-(p0 * x0 * x1), p0 * x0 * x1 - p2 * x1 * x1, p2 * x1]
    cls = M.sim_class(repo)

    def dd(e, *vs):
        for v in vs:
            e = A.diff(e, v)
        return e
    want = {
        "get_jacobian_eqn": SymMat((nS, nS), [dd(f[i], "x%d" % j) for i in range(nS) for j in range(nS)]),
        "get_grad_eqn": SymMat((nS, nP), [dd(f[i], "p%d" % k) for i in range(nS) for k in range(nP)]),
        "get_diff_jacobian_eqn": SymMat((nS * nS, nS), [dd(f[e_], "x%d" % i, "x%d" % j) for e_ in range(nS) for i in range(nS) for j in range(nS)]),
        "get_grad_jacobian_eqn": SymMat((nS * nP, nS), [dd(f[i], "p%d" % k, "x%d" % j) for k in range(nP) for i in range(nS) for j in range(nS)]),
    }
    n = 0
    for name, wm in want.items():
        fn = repo.resolve_method(cls, name)
        if fn is None:
            continue
        me = Obj("Model", _isDifficult=False)
        fm = CMat((nS, 1), list(f))

        def setter(attr, val):
            def s_(me_):
                me_.attrs[attr] = val.copy()
                return me_.attrs[attr]
            return s_

        def diff_(e, v, n_=1):
            nm = _atom_name(v)
            out = A.lift(e)
            for _ in range(int(n_)):
                out = A.diff(out, nm)
            return out
        summ = {
            "Model.get_ode_eqn": setter("_ode", fm), "Model.get_grad_eqn": setter("_Grad", CMat(want["get_grad_eqn"].shape, list(want["get_grad_eqn"].flat))),
            "Model._iterStateList": lambda me_: list(xs), "Model._iterParamList": lambda me_: list(ps),
            "diff": diff_, "sympy.diff": diff_, "simplifyEquation": lambda e: (e, False),
            "copy.deepcopy": lambda x: x.copy() if hasattr(x, "copy") else x,
        }
        summ.update(sympy_ctors(CMat))
        getters = {"num_state": lambda m: nS, "num_param": lambda m: nP}
        tag = name + "(written-out right-hand side)"
        try:
            ab = Abs({}, {}, summ, me, getters)
            ab.class_methods = set(repo.all_methods(cls)) | {g for c in repo.mro(cls) for g in c.getters}
            kind, out = ab.run_function(fn.node, {})
        except A.Undecided as e:
            res.undecided("R-DERIV", fn, tag, "outside the modelled subset: %s" % e)
            continue
        n += 1
        if kind != "return" or not isinstance(out, SymArr):
            res.violated("R-DERIV", fn, tag, "%s %s %s" % (name, kind, out), node=fn.node)
            continue
        d = L.first_diff(SymArr(out.shape, out.flat), SymArr(wm.shape, wm.flat))
        res.check(d is None, "R-DERIV", fn, tag, "every entry is the derivative of the written-out right-hand side (a parameter and a state that do not occur give zero columns in place)",
                  "%s on f = [-p0 x0 x1, p0 x0 x1 - p2 x1^2, p2 x1] with parameters (p0, p1, p2): %s" % (name, d), node=fn.node)
    return n


def check_builders(repo, res, names, shapes, rename=None):
    """R-DERIV / R-CAO / R-REFRESH for the builders in `names` (None = all seven) at the given shapes.
    Every builder is activated twice on the same model object: once on a freshly constructed object and once
    more after the model definition changed (all symbols of the right-hand side, the rates and the
    state-change matrix replaced); both results must be the derivatives of the definition current at that
    activation - a builder that keeps anything from an earlier activation fails the second one."""
    n = 0
    rn = (lambda r_: (rename or {}).get(r_, r_))
    for nS, nP, nE in shapes:
        sh = "(nS=%d,nP=%d,nE=%d)" % (nS, nP, nE)
        names_all = ["get_jacobian_eqn", "get_grad_eqn", "get_diff_jacobian_eqn", "get_grad_jacobian_eqn",
                     "get_TransitionJacobian", "get_TransitionMean", "get_TransitionVar"]
        for name in names_all:
            if names is not None and name not in names:
                continue
            me = None
            for gen in ("", "n"):
                w = BWorld(repo, nS, nP, nE, gen)
                F_, A_ = w.fn_, w.an_
                specs = {
                    "get_jacobian_eqn": ("R-DERIV", lambda: SymMat((nS, nS), [dsym(F_(i), "x%d" % j) for i in range(nS) for j in range(nS)]),
                                         "jacobian[i,j] = d f_i / d x_j", ["_ode"]),
                    "get_grad_eqn": ("R-DERIV", lambda: SymMat((nS, nP), [dsym(F_(i), "p%d" % k) for i in range(nS) for k in range(nP)]),
                                     "grad[i,k] = d f_i / d theta_k", ["_ode"]),
                    "get_diff_jacobian_eqn": ("R-DERIV", lambda: SymMat((nS * nS, nS), [dsym(F_(e), "x%d" % i, "x%d" % j) for e in range(nS) for i in range(nS) for j in range(nS)]),
                                              "diff_jacobian[e*nS+i, j] = d2 f_e / d x_i d x_j", ["_ode"]),
                    "get_grad_jacobian_eqn": ("R-DERIV", lambda: SymMat((nS * nP, nS), [dsym(F_(i), "p%d" % k, "x%d" % j) for k in range(nP) for i in range(nS) for j in range(nS)]),
                                              "grad_jacobian[k*nS+i, j] = d2 f_i / d theta_k d x_j", ["_Grad"]),
                    "get_TransitionJacobian": ("R-CAO", lambda: _tj(w), "F[i,j] = sum_k d a_i/d x_k * V[k,j]", ["_vMat", "_eventRateVector"]),
                    "get_TransitionMean": ("R-CAO", lambda: _tm(w, 1), "mu[i] = sum_j F[i,j] a_j", ["_transitionJacobian", "_eventRateVector"]),
                    "get_TransitionVar": ("R-CAO", lambda: _tm(w, 2), "sigma2[i] = sum_j F[i,j]^2 a_j", ["_transitionJacobian", "_eventRateVector"]),
                }
                rule, want_fn, text, needs = specs[name]
                second = gen != ""
                tag = name + sh + (",after-redefinition" if second else "")
                w.refreshed = []
                try:
                    fn, kind, out, me = w.run(name, me)
                except A.Undecided as e:
                    res.undecided(rn(rule), repo.resolve_method(w.cls, name), tag, "outside the modelled subset: %s" % e)
                    break
                n += 1
                if kind == "raise":
                    if str(out).startswith("AttributeError(Model."):
                        res.violated(rn("R-REFRESH"), fn, tag, "%s reads %s without refreshing it in the same activation (stale or missing object)" % (name, out), node=fn.node)
                    else:
                        res.violated(rn(rule), fn, tag, "%s raises %s" % (name, out), node=fn.node)
                    break
                want = want_fn()
                if not isinstance(out, SymArr):
                    res.violated(rn(rule), fn, tag, "%s returns %r" % (name, out), node=fn.node)
                    break
                d = L.first_diff(SymArr(out.shape, out.flat), SymArr(want.shape, want.flat))
                if second and d is not None:
                    res.violated(rn("R-REFRESH"), fn, tag, "after the model definition changed, %s still returns derivatives of the earlier definition: %s" % (name, d), node=fn.node)
                    break
                res.check(d is None, rn(rule), fn, tag, text, "%s: %s  (D[f|v] = formal derivative of f w.r.t. v)" % (text, d), node=fn.node)
                miss = [a_ for a_ in needs if a_ not in w.refreshed]
                res.check(not miss, rn("R-REFRESH"), fn, "refresh:" + tag, "%s rebuilds %s before using it" % (name, needs),
                          "%s uses %s without rebuilding it in this activation" % (name, miss), node=fn.node)
    return n


def _tj(w):
    out = SymMat((w.nE, w.nE), [0] * (w.nE * w.nE))
    for i in range(w.nE):
        for j in range(w.nE):
            t = A.Rat.const(0)
            for k in range(w.nS):
                t = t + dsym(w.an_(i), "x%d" % k) * w.V.at((k, j))
            out[i, j] = t
    return out


def _tm(w, power):
    out = SymMat((w.nE, 1), [0] * w.nE)
    for i in range(w.nE):
        t = A.Rat.const(0)
        for j in range(w.nE):
            t = t + (w.F.at((i, j)) ** power) * w.a.flat[j]
        out.flat[i] = t
    return out
