"""C20 - curvature information matches the cost it is meant to describe.

 S1 R-GRAM   jtj: interpreted over arrays of symbols, J^T J [o,o'] = sum_t sum_s
             (w X)[t, col(o,s)] (w X)[t, col(o',s)] for every order of targets - a Gram matrix,
             hence symmetric positive semi-definite by construction; jtj(theta) is that of
             the sensitivity integration at theta
 S2 R-TERMS  eval_forwardforward against the second-order variational equations
             f_x X_tt + f_xx[X_t, X_t] + f_xt X_t (both orders) + f_tt :  the terms that are
             present are correct in the documented layout; the mixed/parameter-Hessian terms
             are missing on this tree (known finding named in the property)
 S3 R-SIGN   BaseLoss.hessian = 2 J^T J + sum_t sum_s dloss/dyhat[t,s] * d2x_s/dtheta dtheta
             (unit weights): the second-order sensitivities enter with coefficient
             +diff_loss and the Gauss-Newton part with factor 2
"""
import ast

from ..core import algebra as A
from ..core.absint import Abs, Obj, Tok, Raised
from ..core.symarr import SymArr, np_summaries, append, dot
from ..core.source import AnalysisError, norm
from ..rules import model as M
from ..rules import layout as L
from .C07 import loss_self, summaries, STATES, PARAMS

TECHNIQUE = ("static analysis: interpretation of sens_to_jtj, eval_forwardforward and BaseLoss.hessian over arrays of "
             "symbols; entry-wise polynomial identity against the Gram form and the second-order variational equations")


def check(repo, res, tier):
    res.rule("R-GRAM", "jtj = sum over observations of outer products of the weighted target sensitivities (Gram matrix)")
    res.rule("R-TERMS", "second-order system contains f_x X_tt, f_xx[X_t,X_t], 2 f_xt X_t and f_tt in the documented layout")
    res.rule("R-SIGN", "hessian = 2 JTJ + sum diff_loss * second-order sensitivities")
    res.s_clauses = ["S1 R-GRAM", "S2 R-TERMS", "S3 R-SIGN"]
    res.n_clauses = ["numerical agreement of hessian with finite differences of gradient (solver numerics)",
                     "the curvature term under non-unit observation weights (outside the property's statement)"]
    bl = repo.cls(M.M_LOSS, "BaseLoss")
    nS, nP = len(STATES), len(PARAMS)
    n_t = 2
    total = nS + nS * nP
    X = SymArr.symbols("X", (n_t, total))
    chain = ("_getTargetParamSensIndex", "_getTargetParamIndex", "sens_to_jtj")
    summ, types = summaries(bl, repo, chain)
    f = bl.methods["_sensToJTJWithoutIndex"]
    bad, und = [], []
    n_cases = 0
    for sn in (["I"], ["S", "I"], ["R", "S"], ["R", "I", "S"]):
        st_idx = [STATES.index(s) for s in sn]
        for tp in (None, ["b"], ["a", "c"], ["c", "a"], ["b", "c", "a"]):
            for with_resid in (False,):     # residual scaling is only used by fisher_information, outside this property
                n_cases += 1
                me = loss_self(sn, tp, None, n_t)
                W = me.attrs["_weight"]
                R = SymArr.symbols("R", (n_t, len(sn)))
                ab = Abs({}, types, summ, me)
                p_idx = list(range(nP)) if tp is None else [PARAMS.index(p) for p in tp]
                no = len(p_idx)
                want = SymArr.zeros((no, no))
                for o in range(no):
                    for o2 in range(no):
                        t_ = A.Rat.const(0)
                        for t in range(n_t):
                            for s in range(len(sn)):
                                a = W.at((t, s)) * X.at((t, nS + p_idx[o] * nS + st_idx[s]))
                                b = W.at((t, s)) * X.at((t, nS + p_idx[o2] * nS + st_idx[s]))
                                if with_resid:
                                    a, b = a * R.at((t, s)), b * R.at((t, s))
                                t_ = t_ + a * b
                        want[o, o2] = t_
                try:
                    kind, out = ab.run_function(f.node, {"sens": X.copy(), "diffLoss": R if with_resid else None})
                except A.Undecided as e:
                    und.append(str(e))
                    continue
                d = L.first_diff(out, want) if kind == "return" and isinstance(out, SymArr) else "%s %s" % (kind, out)
                if d:
                    bad.append("observed %s, target_param %s%s: %s" % (sn, tp, ", residual-scaled" if with_resid else "", d))
    if und:
        res.undecided("R-GRAM", f, "abstract-execution", "outside the modelled subset: %s" % und[0])
    res.floor("jtj cases interpreted", n_cases, 20)
    res.check(not bad, "R-GRAM", f, "gram(%d cases)" % n_cases,
              "J^T J is the sum over observation rows of s^T s with s the weighted target-sensitivity block (symmetric PSD by construction)",
              "jtj is not the Gram matrix of the weighted sensitivities (%d cases), e.g. %s" % (len(bad), bad[0] if bad else ""), node=f.node)
    # jtj(theta): the Gram matrix of the integration at theta
    # the public jtj(theta): the integration is asked for theta (with the sensitivities in its output) and the result is the Gram matrix
    # of the weighted target sensitivities of *that* integration, without residual scaling - whatever helpers are used on the way
    fj = bl.methods["jtj"]
    problems, n_j = [], 0
    for sn, tp in ((["I"], None), (["R", "S"], ["c", "a"]), (["S", "I"], ["b"])):
        for full in (False, True):
            st_idx = [STATES.index(s_) for s_ in sn]
            seen = {}
            me = loss_self(sn, tp, None, n_t)
            W = me.attrs["_weight"]
            Dl = SymArr.symbols("DL", (n_t, len(sn)))

            def jac(me_, theta=None, sens_output=False, full_output=False, method=None, _seen=seen, _Dl=Dl):
                _seen["args"] = (theta, full_output, method)
                return (Tok("jac"), {"sens": X.copy(), "diff_loss": _Dl.copy(), "resid": Tok("resid")})
            summ2 = dict(summ)
            summ2["Loss.jac"] = jac
            p_idx = list(range(nP)) if tp is None else [PARAMS.index(p) for p in tp]
            no = len(p_idx)
            want = SymArr.zeros((no, no))
            for o in range(no):
                for o2 in range(no):
                    t_ = A.Rat.const(0)
                    for t in range(n_t):
                        for s_ in range(len(sn)):
                            t_ = t_ + (W.at((t, s_)) * X.at((t, nS + p_idx[o] * nS + st_idx[s_]))) * (W.at((t, s_)) * X.at((t, nS + p_idx[o2] * nS + st_idx[s_])))
                    want[o, o2] = t_
            try:
                kind, out = Abs({}, types, summ2, me).run_function(fj.node, {"theta": Tok("theta"), "full_output": full, "method": Tok("m")})
            except A.Undecided as e:
                res.undecided("R-GRAM", fj, "jtj-of-integration", "outside the modelled subset: %s" % e)
                problems = None
                break
            n_j += 1
            got = out[0] if (full and isinstance(out, tuple) and out) else out
            if kind != "return" or not isinstance(got, SymArr):
                problems.append("observed %s, target_param %s, full_output=%s: jtj %s %s" % (sn, tp, full, kind, out))
            else:
                d = L.first_diff(got, want)
                if d:
                    problems.append("observed %s, target_param %s, full_output=%s: %s" % (sn, tp, full, d))
                if seen.get("args") is None or seen["args"][0] != Tok("theta") or seen["args"][2] != Tok("m") or seen["args"][1] is not True:
                    problems.append("the integration is asked for (theta, full_output, method) = %s, expected the caller's theta and method with the sensitivities in the output" % (seen.get("args"),))
        if problems is None:
            break
    if problems is not None:
        res.check(not problems, "R-GRAM", fj, "jtj-of-integration", "jtj(theta) = Gram matrix of the weighted target sensitivities integrated at theta (no residual scaling; %d calls)" % n_j,
                  "; ".join(problems[:2]), node=fj.node)

    # ---------------------------------------------------------------- S2 R-TERMS
    _forwardforward(repo, res)

    # ----------------------------------------------------------------- S3 R-SIGN
    _hessian(repo, res, bl)
    res.rule("R-TIMEGRID", "jtj / hessian integrate from the caller's start time over the caller's observation times (same trajectory as the cost)")
    from .C06 import check_time_grid
    check_time_grid(repo, res, rule="R-TIMEGRID", paths=("derivatives",))


def _forwardforward(repo, res):
    missing_all, wrong_present, und = [], [], []
    fn = None
    for nS, nP in ((2, 3), (3, 2), (2, 2)):
        w = L.World(repo, nS, nP)
        fn = w.method("eval_forwardforward")
        # FF rows (i,k) -> i*nP + k ; columns l
        FF = SymArr((nS * nP, nP), [A.sym("FF[%d,%d,%d]" % (i, k, l)) for i in range(nS) for k in range(nP) for l in range(nP)])
        try:
            kind, out = w.run("eval_forwardforward", {"FF": FF, "S": w.S, "state": w.x, "t": A.sym("t")})
        except A.Undecided as e:
            und.append(str(e))
            continue
        if kind != "return":
            wrong_present.append("raises %s at (nS=%d,nP=%d)" % (out, nS, nP))
            continue
        got = SymArr.of(out) if not isinstance(out, SymArr) else out
        present = SymArr.zeros((nS * nP, nP))
        full = SymArr.zeros((nS * nP, nP))
        for i in range(nS):
            for k in range(nP):
                for l in range(nP):
                    t1 = A.Rat.const(0)
                    for j in range(nS):
                        t1 = t1 + w.J.at((i, j)) * A.sym("FF[%d,%d,%d]" % (j, k, l))
                    t2 = A.Rat.const(0)
                    for m in range(nS):
                        for n in range(nS):
                            t2 = t2 + L.sym3("H", i, m, n) * w.S.at((m, k)) * w.S.at((n, l))
                    t3 = A.Rat.const(0)
                    for m in range(nS):
                        t3 = t3 + A.sym("GJ[%d,%d,%d]" % (i, k, m)) * w.S.at((m, l)) + A.sym("GJ[%d,%d,%d]" % (i, l, m)) * w.S.at((m, k))
                    t4 = A.sym("HP[%d,%d,%d]" % (i, min(k, l), max(k, l)))
                    present[i * nP + k, l] = t1 + t2
                    full[i * nP + k, l] = t1 + t2 + t3 + t4
        g = got.reshape((nS * nP, nP)) if got.size == nS * nP * nP else got
        d_full = L.first_diff(g, full)
        d_pres = L.first_diff(g, present)
        if d_full:
            missing_all.append("(nS=%d,nP=%d): %s" % (nS, nP, d_full))
        if d_full and d_pres:
            wrong_present.append("(nS=%d,nP=%d): %s" % (nS, nP, d_pres))
    if und:
        res.undecided("R-TERMS", fn, "abstract-execution", "outside the modelled subset: %s" % und[0])
        return
    res.check(not wrong_present, "R-TERMS", fn, "present-terms",
              "the terms f_x X_tt and f_xx[X_t, X_t] are computed correctly in the forward-forward layout (or the full equation is)",
              "eval_forwardforward is neither the full second-order equation nor its f_x X_tt + f_xx[X_t,X_t] part: %s" % "; ".join(wrong_present[:2]), node=fn.node)
    res.check(not missing_all, "R-TERMS", fn, "all-terms",
              "eval_forwardforward is the complete second-order variational equation",
              "eval_forwardforward omits the mixed terms f_x,theta X_theta (both orders) and the parameter Hessian f_theta,theta: %s"
              % (missing_all[0] if missing_all else ""), node=fn.node)


def _hessian(repo, res, bl):
    f = bl.methods["hessian"]
    nS, nP = len(STATES), len(PARAMS)
    n_obs = 2
    sn = ["R", "S"]
    st_idx = [STATES.index(s) for s in sn]
    total = nS + nS * nP + nS * nP * nP
    X = SymArr.symbols("X", (n_obs, total))
    D = SymArr.symbols("D", (n_obs, len(sn)))
    und = None
    for tp, x0_int in ((None, False), (["c", "a"], False), (None, True)):
        me = loss_self(sn, tp, None, n_obs)
        me.attrs["_weight"] = SymArr.ones((n_obs, len(sn)))
        me.attrs["_t"] = [0.0, 1.0, 2.0]
        me.attrs["_x0"] = SymArr.symbols("x0", (nS,))
        me.attrs["_x0"].int_typed = x0_int          # initial values given as whole numbers ([999, 1, 0]): an integer array
        me.attrs["_theta"] = Tok("theta")
        ode = me.attrs["_ode"]
        ode.attrs["_intName"] = None
        ode.attrs["__open__"] = True
        lossobj = Obj("Kernel")
        me.attrs["_lossObj"] = lossobj
        seen = {}
        chain = ("_getTargetParamSensIndex", "_getTargetParamIndex", "sens_to_jtj", "_sensToJTJWithoutIndex")
        summ, types = summaries(bl, repo, chain)
        utils = repo.module(M.M_UTILS)
        vff = utils.functions["vecToMatFF"]

        def vec_to_mat_ff(*a, **kw):
            _fn = vff
            ab = Abs({}, {}, dict(np_summaries()), None)
            b = dict(zip(_fn.params, a))
            b.update(kw)
            kind, v = ab.run_function(_fn.node, b)
            if kind == "raise":
                raise Raised(v)
            return v

        def integ(func, jac, x0, t0, t, **kw):
            seen["integ"] = (func, jac, x0, t0, list(t), kw)
            return X.copy() if not kw.get("full_output") else (X.copy(), {})
        def set_param(me_, th):
            me_.attrs["_theta"] = ("installed", th)        # what _setParam does: the loss object's parameter binding now comes from th

        def set_model_params(o, v):
            seen["model_params"] = v
            seen["model_params_before_integration"] = "integ" not in seen
        summ.update({"ode_utils.integrateFuncJac": integ, "ode_utils.vecToMatFF": vec_to_mat_ff,
                     "Kernel.diff_loss": lambda k_, yhat, *a, **kw: (seen.__setitem__("dl_arg", yhat), D)[1],
                     "Kernel.residual": lambda k_, yhat, *a, **kw: Tok("resid"),
                     "Loss._setParam": set_param,
                     "set:Model.parameters": set_model_params})
        ab = Abs({}, types, summ, me)
        try:
            kind, out = ab.run_function(f.node, {"theta": Tok("theta"), "full_output": False, "method": None})
        except A.Undecided as e:
            und = str(e)
            break
        p_idx = list(range(nP)) if tp is None else [PARAMS.index(p) for p in tp]
        no = len(p_idx)
        base = nS + nS * nP
        want = SymArr.zeros((no, no))
        for o in range(no):
            for o2 in range(no):
                g = A.Rat.const(0)
                c = A.Rat.const(0)
                for t in range(n_obs):
                    for s in range(len(sn)):
                        g = g + X.at((t, nS + p_idx[o] * nS + st_idx[s])) * X.at((t, nS + p_idx[o2] * nS + st_idx[s]))
                        # second-order sensitivity of observed state s w.r.t. (theta_o, theta_o2): row (i,k) -> i*nP+k, column l
                        c = c + D.at((t, s)) * X.at((t, base + (st_idx[s] * nP + p_idx[o]) * nP + p_idx[o2]))
                want[o, o2] = 2 * g + c
        tag = "hessian(target_param=%s%s)" % (tp, ",integer-typed initial values" if x0_int else "")
        if kind != "return" or not isinstance(out, SymArr):
            res.violated("R-SIGN", f, tag, "hessian %s %s" % (kind, out), node=f.node)
            continue
        d = L.first_diff(out, want)
        res.check(d is None, "R-SIGN", f, tag, "hessian = 2 J^T J + sum_t sum_s diff_loss[t,s] * d2 x_s / d theta d theta",
                  "hessian is not 2 J^T J + sum diff_loss * second-order sensitivities: %s" % d, node=f.node)
        # integration wiring
        ig = seen.get("integ")
        ok = ig is not None and ig[0] == ("method", "ode_and_forwardforward_T") and ig[1] == ("method", "ode_and_forwardforward_jacobian_T") \
            and ig[3] == 0.0 and ig[4] == [1.0, 2.0] and isinstance(ig[2], SymArr) and ig[2].size == total \
            and all(x == y for x, y in zip(ig[2].flat[:nS], me.attrs["_x0"].flat)) and all(x == A.Rat.const(0) for x in ig[2].flat[nS:])
        if x0_int:
            continue
        res.check(ok, "R-SIGN", f, "integration" + ("" if tp is None else "(subset)"), "integrates the forward-forward system from [x0; zeros] over (t[0], t[1:])",
                  "hessian integrates %s" % (ig[:2] + (ig[3], ig[4]) if ig else None,), node=f.node)
        # the Hessian is the one *at theta*: the theta handed in is bound and installed in the model before the integration
        ok = seen.get("model_params") == ("installed", Tok("theta")) and seen.get("model_params_before_integration") is True
        res.check(ok, "R-SIGN", f, "at-theta" + ("" if tp is None else "(subset)"), "the supplied theta is bound and installed in the model before integrating",
                  "hessian(theta) integrates with the model parameters %r (installed before the integration: %s): the result is not the Hessian at theta"
                  % (seen.get("model_params"), seen.get("model_params_before_integration")), node=f.node)
    if und:
        res.undecided("R-SIGN", f, "abstract-execution", "outside the modelled subset: %s" % und)
        return
    # asking for the additional output must not change the Hessian, and the J^T J handed back with it is the Gram matrix of the
    # weighted sensitivities - with symbolic (non-unit) observation weights, so that a weight applied twice or not at all shows
    Wt = SymArr.symbols("w", (n_obs, len(sn)))
    for tp in (None, ["c", "a"]):
        outs = {}
        for full in (False, True):
            me = loss_self(sn, tp, None, n_obs)
            me.attrs["_weight"] = Wt.copy()
            me.attrs["_t"] = [0.0, 1.0, 2.0]
            me.attrs["_x0"] = SymArr.symbols("x0", (nS,))
            me.attrs["_theta"] = Tok("theta")
            ode = me.attrs["_ode"]
            ode.attrs["_intName"] = None
            ode.attrs["__open__"] = True
            me.attrs["_lossObj"] = Obj("Kernel")
            chain = ("_getTargetParamSensIndex", "_getTargetParamIndex", "sens_to_jtj", "_sensToJTJWithoutIndex", "sens_to_grad", "_sensToGradWithoutIndex")
            summ, types = summaries(bl, repo, chain)
            utils = repo.module(M.M_UTILS)
            vff = utils.functions["vecToMatFF"]

            def vec_to_mat_ff2(*a, _fn=vff, **kw):
                ab_ = Abs({}, {}, dict(np_summaries()), None)
                b = dict(zip(_fn.params, a))
                b.update(kw)
                kind_, v = ab_.run_function(_fn.node, b)
                if kind_ == "raise":
                    raise Raised(v)
                return v
            summ.update({"ode_utils.integrateFuncJac": lambda func, jac, x0, t0, t, **kw: (X.copy() if not kw.get("full_output") else (X.copy(), {})),
                         "ode_utils.vecToMatFF": vec_to_mat_ff2,
                         "Kernel.diff_loss": lambda k_, yhat, *a, **kw: D.copy(), "Kernel.residual": lambda k_, yhat, *a, **kw: Tok("resid"),
                         "Loss._setParam": lambda me_, th: None, "set:Model.parameters": lambda o, v: None})
            try:
                kind, out = Abs({}, types, summ, me).run_function(f.node, {"theta": Tok("theta"), "full_output": full, "method": None})
            except A.Undecided as e:
                res.undecided("R-SIGN", f, "full-output-consistency", "outside the modelled subset: %s" % e)
                return
            outs[full] = (kind, out)
        tag = "full-output-consistency(target_param=%s)" % (tp,)
        (k0, h0), (k1, o1) = outs[False], outs[True]
        problems = []
        if k0 != "return" or k1 != "return" or not isinstance(h0, SymArr):
            problems.append("hessian %s / %s" % (k0, k1))
        else:
            h1 = o1[0] if isinstance(o1, tuple) and o1 else None
            info = o1[1] if isinstance(o1, tuple) and len(o1) > 1 and isinstance(o1[1], dict) else {}
            if not isinstance(h1, SymArr) or L.first_diff(h1, h0) is not None:
                problems.append("with full_output=True the Hessian differs from the one returned without it: %s" % (L.first_diff(h1, h0) if isinstance(h1, SymArr) else h1,))
            p_idx = list(range(nP)) if tp is None else [PARAMS.index(p) for p in tp]
            no = len(p_idx)
            gram = SymArr.zeros((no, no))
            for o in range(no):
                for o2 in range(no):
                    g = A.Rat.const(0)
                    for t in range(n_obs):
                        for s_ in range(len(sn)):
                            w_ = Wt.at((t, s_))
                            g = g + (w_ * X.at((t, nS + p_idx[o] * nS + st_idx[s_]))) * (w_ * X.at((t, nS + p_idx[o2] * nS + st_idx[s_])))
                    gram[o, o2] = g
            jt = info.get("JTJ")
            if isinstance(jt, SymArr) and L.first_diff(jt, gram) is not None:
                problems.append("the J^T J returned with the additional output is not the Gram matrix of the weighted sensitivities: %s" % L.first_diff(jt, gram))
        res.check(not problems, "R-SIGN", f, tag, "the Hessian does not depend on full_output; the J^T J handed back is the Gram matrix of the weighted sensitivities (symbolic weights)",
                  "; ".join(problems[:2]), node=f.node)
