"""C05 - exact stochastic simulation samples the CTMC's law.

The property is a theorem about the first-reaction method given three premises; the
check decides the premises, not the distribution:
 S1 R-FR    each event's clock is rexp(1, that event's rate) under r > 0, else infinity
 S2 R-WRAP  rexp samples numpy's exponential with scale = 1/rate
 S3 R-FR    the event fired is the argmin of the clocks, the time increment is that clock,
            nothing rescales either
 S4 R-LOOKUP/R-GRIDRUN  the state observed at a requested time t (on which the law is judged) is the state of
            the simulated path at the last event time <= t
"""
import ast

from ..core import algebra as A
from ..core.source import norm
from ..rules import step as S
from ..rules import model as M
from ..rules import common as C
from ..specs import utilr as SPEC

TECHNIQUE = ("static analysis: the three premises of the first-reaction theorem as data-flow facts (own rate in the "
             "rate slot, reciprocal scale, argmin index shared by event choice and time increment)")


def check(repo, res, tier):
    res.rule("R-FR", "independent exponential clocks with each event's own rate; earliest wins; increment = winning clock")
    res.rule("R-WRAP", "rexp = numpy exponential with scale = 1/rate")
    res.rule("R-LIMIT", "an accepted step advances time by exactly the returned increment")
    res.s_clauses = ["S1 clocks", "S2 rexp parameterisation", "S3 argmin/increment"]
    res.n_clauses = ["the sampling law itself / acceptance regions / closed-form comparisons: statistical statements about runs",
                     "quality of numpy's exponential sampler"]
    from ..rules import stepx as X
    res.rule("R-WALK", "exact-mode paths equal the first-reaction walk: one exponential clock (mean 1/rate) per positive-rate event, the earliest fires, time advances by that clock")
    X.check_newjumptimes(repo, res)
    X.check_checkjump(repo, res)
    n = X.check_walks(repo, res, only_exact=True, tier=tier)
    res.floor("exact walk scenarios interpreted", n, 7)
    cls_ = M.sim_class(repo)
    # S4: the law is judged on the state *at a requested time*; for exact runs that is the last-event look-up
    from . import C15
    res.rule("R-LOOKUP", "the state reported at time t is the state of the path at the last event time <= t")
    # (rule R-GRIDRUN is registered by the callee)
    C15._check_lookup(repo, res, cls_)
    C15._check_gridded_runs(repo, res, cls_)
    # rexp
    from ..rules import wrapx as WX
    from ..core.libmodel import Rec
    f = repo.func(M.M_DISTN, "rexp")
    ps = f.params
    for seed in (None, 3):
        for n in (1, 2):
            tag = "rexp(seed=%s,n=%d)" % ("None" if seed is None else "int", n)
            try:
                kind, val, _ = WX.run(f, {"seed": seed, ps[0]: n, ps[1]: A.sym(ps[1])})
            except A.Undecided as e:
                res.undecided("R-WRAP", f, tag, str(e))
                continue
            ok, why = False, "rexp %s" % (("raises %s" % val) if kind == "raise" else "returns %r" % (val,))
            if kind == "return" and isinstance(val, Rec) and val.owner is not None:
                sc = val.args.get("scale", 1.0)
                got = WX.rat(sc)
                ok = val.callee == "exponential" and got is not None and got == 1 / A.sym(ps[1])
                why = "exponential with scale = 1/rate" if ok else "draws %r: the mean waiting time is not 1/rate" % (val,)
            res.check(ok, "R-WRAP", f, tag, why, why, node=f.node)
