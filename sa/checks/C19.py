"""C19 - R-style distribution helpers are the distributions they name.

 S1 R-WRAP    every d/p/q wrapper calls the right method of the right scipy family
              with R's parameterisation, in plain and log form (abstract execution
              under log in {True, False}; arguments compared as rational functions).
 S2 R-SEED    generators that document seeding draw from numpy's global function when
              seed is None and otherwise *from* test_seed(seed).<sampler>; test_seed
              builds RandomState(seed) for an int.
 S3 R-ALG     nb2pmf == the (n, p) log-pmf with n=k, p=k/(k+mu); gamma_mu_shape ==
              Gamma(shape a, scale mu/a); dnbinom dispatches to them.
 S4 R-UNUSED  every declared parameter of a helper is used; no helper is a stub.
"""
import ast

from ..core.source import norm, dotted, walk_no_nested, AnalysisError
from ..core import algebra as A
from ..rules import wrapx as WX
from ..core.libmodel import Rec, Applied, Gen
from ..core.absint import Raised
from ..rules.model import M_DISTN
from ..specs import utilr as SPEC

TECHNIQUE = ("static analysis: abstract execution of each thin wrapper under all flag scenarios, callee/argument "
             "normal form compared with a spec table (R-WRAP, R-SEED), polynomial/rational canonical forms for the "
             "closed-form densities (R-ALG), declared-parameter use (R-UNUSED)")


def _ev(expr, names):
    it = A.Interp({n: A.sym(n) for n in names})
    return it.ev(expr)


def _ev_src(src, env):
    it = A.Interp(env)
    return it.ev(ast.parse(src, mode="eval").body)


def _bind(pos, kw, sig, skip_first=True):
    """map positional args (after the first) onto the signature names"""
    out = {}
    rest = pos[1:] if skip_first else pos
    for i, a in enumerate(rest):
        if i >= len(sig):
            return None
        out[sig[i]] = a
    for k, v in kw.items():
        if k in out:
            return None
        out[k] = v
    return out


def _params(f):
    a = f.node.args
    return [x.arg for x in a.posonlyargs + a.args]


def _cmp_kwargs(bound, expected, p1, p2, names):
    """-> list of mismatch strings"""
    bad = []
    env = {n: A.sym(n) for n in names}
    penv = {"p1": A.sym(p1) if p1 else None, "p2": A.sym(p2) if p2 else None}
    exp_full = dict(SPEC.DEFAULTS)
    exp_full.update(expected)
    for k, v in bound.items():
        if k == "size":
            continue
        if k not in exp_full:
            bad.append("unexpected argument %s=%s" % (k, norm(v)))
            continue
        try:
            got = A.lift(A.Interp(env).ev(v))
            want = A.lift(_ev_src(exp_full[k], {kk: vv for kk, vv in penv.items() if vv is not None}))
        except A.Undecided as e:
            bad.append("cannot normalise %s=%s (%s)" % (k, norm(v), e))
            continue
        if got != want:
            bad.append("%s=%s, expected %s" % (k, norm(v), exp_full[k].replace("p1", str(p1)).replace("p2", str(p2))))
    for k in expected:
        if k not in bound:
            bad.append("missing argument %s (=%s)" % (k, expected[k].replace("p1", str(p1)).replace("p2", str(p2))))
    return bad


def check(repo, res, tier):
    res.rule("R-WRAP", "d/p/q wrapper = right scipy family, right method per log flag, R parameterisation (scale=1/rate, ...)")
    res.rule("R-SEED", "seed None -> numpy global sampler; otherwise the draw comes from test_seed(seed).<sampler>")
    res.rule("R-ALG", "closed-form densities equal their references as rational functions over log/lgamma atoms")
    res.rule("R-UNUSED", "every declared parameter is used on some path; no helper returns None on every path")
    res.s_clauses = ["S1 R-WRAP", "S2 R-SEED", "S3 R-ALG", "S4 R-UNUSED"]
    res.n_clauses = ["numerical accuracy of scipy.stats / numpy.random (library behaviour)",
                     "that numpy's RandomState(seed) yields identical streams for identical seeds (library contract)"]
    mod = repo.module(M_DISTN)
    funcs = mod.functions
    n_wrappers = 0
    for name in SPEC.EXPECTED:
        f = funcs.get(name)
        if f is None:
            res.undecided("R-WRAP", "%s::%s" % (mod.rel, name), None, "helper %s vanished" % name)
            continue
        letter, fam = name[0], name[1:]
        spec = SPEC.FAMILIES[fam]
        ps = _params(f)
        first = ps[0]
        dist_ps = [p for p in ps[1:] if p not in ("log", "seed")]
        p1 = dist_ps[0] if len(dist_ps) > 0 else None
        p2 = dist_ps[1] if len(dist_ps) > 1 else None
        res.functions.add(f.construct)
        if len(dist_ps) != spec["nparam"]:
            res.violated("R-WRAP", f, "signature", "expected %d distribution parameter(s), found %s" % (spec["nparam"], dist_ps))
            continue
        n_wrappers += 1
        if letter in "dpq":
            plain, logm = SPEC.METHODS[(letter, spec["kind"])]
            has_log = "log" in ps
            scen = [{"log": False}, {"log": True}] if has_log else [{}]
            rets = {}
            for sc in scen:
                tagsc = "log=%s" % sc.get("log") if sc else "plain"
                args = {p_: A.sym(p_) for p_ in ps if p_ not in ("log", "seed")}
                args.update(sc)
                try:
                    kind, val, _ = WX.run(f, args)
                except A.Undecided as e:
                    res.undecided("R-WRAP", f, tagsc, "wrapper outside the modelled subset: %s" % e)
                    continue
                if kind != "return" or val is None:
                    res.violated("R-WRAP", f, tagsc, "%s(%s) %s instead of returning a value" % (name, tagsc, ("raises %s" % val) if kind == "raise" else "returns None"))
                    continue
                rets[tagsc] = val
                want_m = logm if (sc.get("log") and letter != "q") else plain
                want = "%s.%s" % (spec["scipy"], want_m)
                problems = []
                if not isinstance(val, Rec):
                    problems.append("returns %r, not the result of %s" % (val, want))
                else:
                    if val.callee != want:
                        problems.append("calls %s, expected %s" % (val.callee, want))
                    if val.index is not None:
                        problems.append("result is subscripted")
                    # q-functions with log=True: R's log.p means p is given as log(p)
                    want0 = A.exp(A.sym(first)) if (letter == "q" and sc.get("log")) else A.sym(first)
                    got0 = val.args.get("<arg>")
                    if got0 is None or WX.rat(got0) is None or WX.rat(got0) != want0:
                        problems.append("first argument %r, expected %r" % (got0, want0))
                    problems += _cmp_bound({k: v for k, v in val.args.items() if k != "<arg>"}, spec["kw"], p1, p2)
                res.check(not problems, "R-WRAP", f, tagsc, "%s -> %s(%s)" % (tagsc, want, ", ".join("%s=%s" % kv for kv in sorted(spec["kw"].items()))),
                          "%s(%s): %s" % (name, tagsc, "; ".join(problems)), node=f.node, extra={"returned": repr(val)[:200]})
            if has_log and len(rets) == 2:
                same = WX.same_value(rets["log=False"], rets["log=True"])
                res.check(not same, "R-UNUSED", f, "param(log)", "log flag selects a different computation",
                          "%s ignores its `log` argument: the same value is returned for log=True and log=False" % name, node=f.node)
        else:
            _check_sampler(res, f, name, fam, spec, ps, p1, p2)
    res.floor("utilR d/p/q/r wrappers", n_wrappers, 31)

    # ---------------------------------------------------------- R-UNUSED / stubs
    for name, f in sorted(funcs.items()):
        if name.startswith("_"):
            continue
        res.functions.add(f.construct)
        body = [st for st in f.node.body if not (isinstance(st, ast.Expr) and isinstance(st.value, ast.Constant))]
        stub = all(isinstance(st, ast.Pass) for st in body)
        if stub:
            res.violated("R-UNUSED", f, "stub", "%s is a stub: its body is only a docstring/pass and it returns None for every input" % name, node=f.node)
            continue
        used = {n.id for n in ast.walk(f.node) if isinstance(n, ast.Name) and isinstance(n.ctx, ast.Load)}
        for p in _params(f):
            if p in used:
                continue
            if (name, p) in SPEC.UNUSED_EXCEPTIONS:
                res.holds("R-UNUSED", f, "param(%s)" % p, "named exception: " + SPEC.UNUSED_EXCEPTIONS[(name, p)])
            elif p == "log" and name[1:] in SPEC.FAMILIES and name in SPEC.EXPECTED:
                # already reported by the scenario comparison above; avoid a duplicate key
                if not any(o.construct == f.construct + "::param(log)" for o in res.obs):
                    res.violated("R-UNUSED", f, "param(log)", "%s never reads its `log` argument" % name, node=f.node)
            else:
                res.violated("R-UNUSED", f, "param(%s)" % p, "%s never reads its `%s` argument" % (name, p), node=f.node)
    for name, defs in mod.dup_functions.items():
        if len(defs) > 1:
            res.observe("%s is defined %d times in distn.py; the last definition is the operative one" % (name, len(defs)),
                        defs[0], defs[0].node)

    # ------------------------------------------------------------------ R-ALG
    _check_closed_forms(repo, res, funcs)
    _check_test_seed(res, funcs)


def _cmp_bound(bound, expected, p1, p2):
    """bound: name -> abstract value of the library call; expected: name -> source text over p1, p2"""
    bad = []
    penv = {"p1": A.sym(p1) if p1 else None, "p2": A.sym(p2) if p2 else None}
    exp_full = dict(SPEC.DEFAULTS)
    exp_full.update(expected)
    show = lambda t: t.replace("p1", str(p1)).replace("p2", str(p2))
    for k, v in bound.items():
        if k in ("size", "random_state"):
            continue
        if k not in exp_full:
            bad.append("unexpected argument %s=%r" % (k, v))
            continue
        want = A.lift(_ev_src(exp_full[k], {kk: vv for kk, vv in penv.items() if vv is not None}))
        got = WX.rat(v)
        if got is None or got != want:
            bad.append("%s=%r, expected %s" % (k, v, show(exp_full[k])))
    for k in expected:
        if k not in bound:
            bad.append("missing argument %s (=%s)" % (k, show(expected[k])))
    return bad


def _gen_name(kind):
    if kind == "global":
        return "numpy's global generator"
    if isinstance(kind, tuple) and kind[0] == "seeded":
        return "RandomState(%r)" % (kind[1],)
    if kind == "fresh":
        return "a fresh RandomState() (seeded from the operating system)"
    return "generator %r" % (kind,)


def _check_sampler(res, f, name, fam, spec, ps, p1, p2):
    seeded = fam in SPEC.SEEDED
    if "seed" not in ps:
        if seeded:
            res.violated("R-SEED", f, "signature", "%s documents seeding but has no seed parameter" % name)
        return
    for seed in (None, 12345, 0, 1):
        for n in (1, 3):
            tag = "seed=%s,n=%d" % ("None" if seed is None else ("int" if seed == 12345 else str(seed)), n)
            args = {p_: A.sym(p_) for p_ in ps[1:] if p_ != "seed"}
            args.update({"seed": seed, ps[0]: n})
            try:
                kind, val, reg = WX.run(f, args)
            except A.Undecided as e:
                res.undecided("R-SEED", f, tag, "sampler outside the modelled subset: %s" % e)
                continue
            if kind != "return" or val is None:
                res.violated("R-SEED", f, tag, "%s %s" % (name, ("raises %s" % val) if kind == "raise" else "returns None"))
                continue
            if not seeded:
                continue
            if not isinstance(val, Rec) or val.owner is None:
                res.violated("R-SEED", f, tag, "returns %r, not a draw from a numpy sampler" % (val,))
                continue
            problems = []
            want_gen = "np.random" if seed is None else "RandomState(%r)" % seed
            if val.owner != want_gen:
                problems.append("the draw comes from %s, expected %s%s" % (
                    val.owner, want_gen, "" if seed is None else ": two calls with the same integer seed give different numbers"))
            if val.callee != spec["np"]:
                problems.append("sampler %s, expected %s" % (val.callee, spec["np"]))
            sz = val.args.get("size")
            if sz != n:
                problems.append("size=%r, expected %d" % (sz, n))
            problems += _cmp_bound({k: v for k, v in val.args.items() if k != "size"}, spec["npkw"], p1, p2)
            if n == 1 and not (isinstance(val.index, int) and not isinstance(val.index, bool) and -1 <= val.index <= 0):
                # the sample has one element: index 0 and index -1 both denote it
                problems.append("n=1 should return the single element of the sample, not %s" % ("the array" if val.index is None else "item %r" % (val.index,)))
            if n > 1 and val.index is not None:
                problems.append("n>1 should return the whole array")
            res.check(not problems, "R-SEED", f, tag, "%s -> %r" % (tag, val),
                      "%s(%s): %s" % (name, tag, "; ".join(problems)), node=f.node, extra={"returned": repr(val)[:200]})


def _check_test_seed(res, funcs):
    f = funcs.get("test_seed")
    if f is None:
        raise AnalysisError("test_seed vanished")
    p = _params(f)[0]
    pre = Gen(("seeded", 99))
    cases = [("True", True, "fresh"), ("int", 7, ("seeded", 7)), ("0", 0, ("seeded", 0)), ("1", 1, ("seeded", 1)),
             ("RandomState", pre, ("seeded", 99))]
    for label, val, want in cases:
        try:
            kind, v, _ = WX.run(f, {p: val})
        except A.Undecided as e:
            res.undecided("R-SEED", f, "test_seed(%s)" % label, str(e))
            continue
        ok = kind == "return" and isinstance(v, Gen) and v.kind == want and (label != "RandomState" or v is pre)
        res.check(ok, "R-SEED", f, "test_seed(%s)" % label,
                  "test_seed(%s) -> %s" % (label, _gen_name(want)),
                  "test_seed(%s) gives %s, expected %s" % (label, _gen_name(v.kind) if isinstance(v, Gen) else ("raises %s" % v if kind == "raise" else repr(v)), _gen_name(want)),
                  node=f.node)
    try:
        kind, v, _ = WX.run(f, {p: None})
        res.check(kind == "raise", "R-SEED", f, "test_seed(None)", "test_seed(None) raises (callers test `seed is None` first)",
                  "test_seed(None) no longer raises", node=f.node)
    except A.Undecided as e:
        res.undecided("R-SEED", f, "test_seed(None)", str(e))


def _closed_form(res, f, flags_log, env_names, ref_src, ref_env, what):
    out = {}
    for lg in (True, False):
        tag = "%s(log=%s)" % (what, lg)
        env = {n: A.sym(n) for n in env_names}
        env[flags_log] = lg
        try:
            v = A.eval_function(f.node, env, module=f.module)
            ref = _ev_src(ref_src, ref_env)
            if not lg:
                ref = A.exp(ref)
            res.check(A.lift(v) == ref, "R-ALG", f, tag, "%s equals the reference %s" % (tag, "density" if not lg else "log-density"),
                      "%s is %r but the reference is %r" % (tag, v, ref), node=f.node)
        except A.Undecided as e:
            res.undecided("R-ALG", f, tag, "cannot bring %s into canonical form: %s" % (f.name, e), node=f.node)


def _check_closed_forms(repo, res, funcs):
    nb = funcs.get("nb2pmf")
    gm = funcs.get("gamma_mu_shape")
    if nb is None or gm is None:
        raise AnalysisError("nb2pmf / gamma_mu_shape vanished")
    x, mu, k = A.sym("x"), A.sym("mu"), A.sym("k")
    p = _params(nb)
    if p[:3] != ["x", "mu", "k"] or "log" not in p:
        res.undecided("R-ALG", nb, "signature", "unexpected signature %s" % p)
    else:
        _closed_form(res, nb, "log", ["x", "mu", "k"], SPEC.NB2_LOGPMF_NP,
                     {"x": x, "n": k, "p": k / (k + mu)}, "nb2pmf")
    p = _params(gm)
    if p[:3] != ["x", "mu", "shape"] or "log" not in p:
        res.undecided("R-ALG", gm, "signature", "unexpected signature %s" % p)
    else:
        a = A.sym("shape")
        _closed_form(res, gm, "log", ["x", "mu", "shape"], SPEC.GAMMA_LOGPDF_SHAPE_SCALE,
                     {"x": x, "a": a, "theta": mu / a}, "gamma_mu_shape")
    # dnbinom dispatch
    dn = funcs.get("dnbinom")
    if dn is None:
        raise AnalysisError("dnbinom vanished")
    ps = _params(dn)
    res.functions.add(dn.construct)
    nbp = _params(nb)

    def nb_summary(*a, **k):
        from ..core.libmodel import bind as _b
        return Rec("nb2pmf", _b(nbp, a, k, "nb2pmf"))
    xs, sz, mus, prs = A.sym(ps[0]), A.sym("size"), A.sym("mu"), A.sym("prob")
    for lg in (True, False):
        tag = "mu-form(log=%s)" % lg
        try:
            kind, v, _ = WX.run(dn, {ps[0]: xs, "size": sz, "mu": mus, "prob": None, "log": lg}, extra={"nb2pmf": nb_summary})
            ok = kind == "return" and isinstance(v, Rec) and v.callee == "nb2pmf" and v.index is None \
                and WX.same_value(v.args.get("x"), xs) and WX.same_value(v.args.get("mu"), mus) and WX.same_value(v.args.get("k"), sz) \
                and (v.args.get("log", False) is lg) and set(v.args) <= {"x", "mu", "k", "log"}
            res.check(bool(ok), "R-WRAP", dn, tag, "dnbinom mean form -> %r" % (v,),
                      "dnbinom(x, size, mu=mu, log=%s) -> %s, expected nb2pmf(x=x, mu=mu, k=size, log=%s)" % (lg, ("raises %s" % v) if kind == "raise" else repr(v), lg), node=dn.node)
        except A.Undecided as e:
            res.undecided("R-WRAP", dn, tag, str(e))
        tag = "prob-form(log=%s)" % lg
        try:
            kind, v, _ = WX.run(dn, {ps[0]: xs, "size": sz, "mu": None, "prob": prs, "log": lg}, extra={"nb2pmf": nb_summary})
            want = "st.nbinom." + ("logpmf" if lg else "pmf")
            ok = kind == "return" and isinstance(v, Rec) and v.callee == want and v.index is None \
                and WX.same_value(v.args.get("<arg>"), xs) and WX.same_value(v.args.get("n"), sz) and WX.same_value(v.args.get("p"), prs) \
                and set(v.args) <= {"<arg>", "n", "p"}
            res.check(bool(ok), "R-WRAP", dn, tag, "dnbinom (n,p) form -> %r" % (v,),
                      "dnbinom(x, size, prob, log=%s) -> %s, expected %s(x, n=size, p=prob)" % (lg, ("raises %s" % v) if kind == "raise" else repr(v), want), node=dn.node)
        except A.Undecided as e:
            res.undecided("R-WRAP", dn, tag, str(e))
    for sc, label in (({"mu": None, "prob": None, "log": False}, "neither"),
                      ({"mu": mus, "prob": prs, "log": False}, "both")):
        try:
            a_ = {ps[0]: xs, "size": sz}
            a_.update(sc)
            kind, v, _ = WX.run(dn, a_, extra={"nb2pmf": nb_summary})
            res.check(kind == "raise", "R-WRAP", dn, "reject(%s)" % label, "dnbinom rejects %s of prob/mu" % label,
                      "dnbinom accepts %s of prob/mu given and returns %r" % (label, v), node=dn.node)
        except A.Undecided as e:
            res.undecided("R-WRAP", dn, "reject(%s)" % label, str(e))
