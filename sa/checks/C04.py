"""C04 - every simulated path is a legal walk of the model's events.

 S1 R-SHAPE  the state-change matrix evaluator is a matrix for every model size
 S2 R-STEP   _jump: initial record (x0 copy, t0); loop on t < finalT; a state is recorded
             only under a positive success test; recorded values are the matching slots
             of the stepper result; failure of first reaction ends the run.
             steppers: success only through _checkJump; proposed state only from
             _updateStateWithJump (+ drift); t_new = t + jump_time.
 S3 R-FR     exact mode: one-hot counts at the same index as the applied column
 S4 R-STEP   tau mode: count stored and count applied are the same draw, same index
 S5 R-IDX    _updateStateWithJump uses column idx of the state-change matrix
 S6 R-SLOT   return arities agree with unpack sites (three named exceptions)
"""
from ..rules import stepx as X
from ..rules import model as M
from ..rules.shape import check_shapes

TECHNIQUE = ("static analysis by abstract interpretation: SimulateOde._jump and the steppers it calls are interpreted by the checker "
             "(syntax tree, concrete array model instead of numpy, scripted stand-ins for the random draws) on a finite set of small models "
             "and compared record by record with the walk the property defines; finite evaluation of the limit test over all bound shapes; shape inference")


def check(repo, res, tier):
    res.rule("R-SHAPE", "vMat registered as a matrix")
    res.rule("R-STEP", "success only via _checkJump; state only via column updates; record only under success; run ends on failure")
    res.rule("R-FR", "earliest clock wins; the same index selects column, time increment and one-hot count")
    res.rule("R-SLOT", "tuple slots of producers and consumers agree; arities agree")
    res.rule("R-LIMIT", "_checkJump: accepted step advances time by jump_time, rejected step changes nothing")
    res.s_clauses = ["S1 R-SHAPE(vMat)", "S2 R-STEP(_jump, steppers)", "S3 R-FR(one-hot)", "S4 R-STEP(tau count/update)", "S5 R-IDX(column)", "S6 R-SLOT(arity)"]
    res.n_clauses = ["positivity of drawn waiting times and integrality of Poisson draws (numpy)",
                     "termination time of a run", "python-float t0 (`self._t0.tolist()`): input type outside the quantifier"]
    res.rule("R-WALK", "the recorded path (states, per-step counts, times, steps) equals the walk defined by the model: start at (x0, t0); exact mode: one "
             "exponential clock per positive-rate event, earliest fires, one-hot count; tau mode: Poisson counts with mean tau*rate, state += V*counts + drift*tau; "
             "a step leaving the limits is rejected and replaced by a single reaction from the unchanged state; the run ends when that is impossible, no event can fire or the horizon is passed")
    check_shapes(repo, res, {"vMat"}, {"vMat": "a single event or a single state: _updateStateWithJump indexes state_change_mat[:, idx]"})
    X.check_update(repo, res)
    X.check_checkjump(repo, res)
    X.check_newjumptimes(repo, res)
    n = X.check_walks(repo, res, tier=tier)
    res.floor("walk scenarios interpreted", n, 15)
    from ..rules.sweep import gate_call_arity
    gate_call_arity(repo, res, {"pygom/model/stochastic_simulation.py", "pygom/model/simulate.py"})
    jf = repo.resolve_method(M.sim_class(repo), "_jump")
    res.observe("SimulateOde._jump calls self._t0.tolist(): a python float initial time raises AttributeError (type-of-input issue, not gated)", jf, jf.node)
