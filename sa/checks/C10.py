"""C10 - closed compartmental models conserve the total population.

 S1 R-PAIR  in the T-branch of the ODE builder and of the state-change-matrix builder the
            two updates carry the same value with opposite sign on origin / destination;
            accumulators are additive and summed with coefficient one.  With no B/D events
            and no explicit terms this is 'components sum to zero identically'.
 S2 R-STEP  stochastic paths change x only by V[:, k]*n (column sums zero by S1) plus
            pureOde*tau (zero without explicit terms); the initial state is copied; nothing
            writes x[k] directly.
"""
from ..rules import model as M
from . import C01

TECHNIQUE = ("static analysis: same-value/opposite-sign pairing in the T-branches of both builders (a structural proof "
             "of zero column sums), column-update-only provenance of the simulated state")


def check(repo, res, tier):
    res.rule("R-EFFECT", "T: {-origin, +destination}")
    res.rule("R-PAIR", "same value, opposite sign")
    res.rule("R-ACCUM", "additive accumulation, all accumulators summed once")
    res.rule("R-STEP", "state changes only by integer multiples of state-change columns (+ drift)")
    res.s_clauses = ["S1 R-PAIR/R-ACCUM", "S2 R-STEP"]
    res.n_clauses = ["deterministic solutions keep the sum constant 'within solver tolerance' (numerics; follows from S1 for "
                     "integrators that preserve linear invariants)"]
    cls = M.sim_class(repo)
    from ..rules import buildx as BX
    nb = BX.check_builders(repo, res, ["get_ode_eqn", "get_StateChangeMatrix"])
    res.floor("builder interpretations", nb, 18)
    BX.check_closed(repo, res)
    from ..rules import stepx as X
    res.rule("R-WALK", "every recorded state of a simulated path is the previous one plus (state-change matrix x counts) (+ drift*tau): with zero column sums the total is kept exactly")
    X.check_update(repo, res)
    X.check_checkjump(repo, res, rule="R-STEP")
    n = X.check_walks(repo, res, tier=tier)
    res.floor("walk scenarios interpreted", n, 15)
