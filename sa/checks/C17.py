"""C17 - ABC keeps only particles inside the prior support and under the tolerance.

 S1 R-ACCEPT  the only exit of the trial loop is dominated by the true edges of `if w1:`
              (prior density product non-zero) and `if cost < tolerance:` (strict), where
              cost = self.obj.cost() evaluated after par_update(model_params[par_order]) and
              model_params derives from a *copy* of the trial parameters
 S2 R-SLOT    producer (weight, rejections, trial_params, cost) <-> consumer
              (self.w[i], rejections, self.res[i], self.dist[i]) with the same i; no other
              writer of res / dist in the generation loop
 S3 R-SCHED   get_tolerance: generation 0 -> supplied tolerance; later -> quantile(dist, q)
              when q is set, else tol[g]; continue_posterior_sample asserts the new
              tolerance <= final_tol; the tolerance used in a generation is the one recorded
 S4 R-ORDER   create_loss and ABC.__init__ derive the parameter order from the same helpers
"""
import ast

from ..core.source import AnalysisError, norm, dotted, is_self_attr, walk_no_nested, const_value, kwarg
from ..core.cfg import cfg_of
from ..core.dataflow import dataflow_of
from ..core.absint import Abs, Obj, Tok, Raised
from ..core.algebra import Undecided
from ..rules import model as M
from ..rules import common as C

TECHNIQUE = ("static analysis: dominance of the accepting exit by the support and tolerance tests (R-ACCEPT), tuple-slot "
             "agreement producer/consumer (R-SLOT), abstract execution of the tolerance schedule (R-SCHED), sibling "
             "agreement of the parameter-order derivation (R-ORDER)")


def check(repo, res, tier):
    res.rule("R-ACCEPT", "the accepting exit is dominated by prior-density>0 and cost<tolerance (strict)")
    res.rule("R-SLOT", "producer tuple slots and consumer targets have the same roles; no other writer")
    res.rule("R-SCHED", "tolerance schedule: supplied / quantile of stored distances / list; continuation cannot raise it")
    res.rule("R-ORDER", "loss object and ABC derive parameter order from the same helpers with the same arguments")
    res.s_clauses = ["S1 R-ACCEPT", "S2 R-SLOT", "S3 R-SCHED", "S4 R-ORDER"]
    res.n_clauses = ["weights finite and positive (division by a kernel density: numerics)",
                     "stored distance equals cost recomputed at the particle: only the structural part (the slot written is the cost returned; each cost call installs its own theta) is decided, determinism of the ODE solve is C02",
                     "that a quantile of values all below the tolerance is itself below it (property of np.quantile)"]
    abc = repo.cls(M.M_ABC, "ABC")
    pg = abc.methods.get("_perform_generation")
    gps = abc.methods.get("get_posterior_sample")
    if pg is None or gps is None:
        raise AnalysisError("ABC._perform_generation / get_posterior_sample vanished")
    _accept(res, pg, inline=False)
    orig = abc.methods.get("get_posterior_sample_original")
    if orig is not None:
        _accept(res, orig, inline=True)
    _slots(res, pg, gps)
    _schedule(repo, res, abc)
    _order(repo, res, abc)
    # the stored distance is the cost *at that particle*: every cost evaluation installs its own parameters before
    # integrating at the observation times (shared with C06)
    from . import C06
    res.rule("R-ROWMATCH", "cost(theta) integrates the model at theta: parameters installed on every evaluation, rows = observations")
    C06._rows(repo, res, repo.cls(M.M_LOSS, "BaseLoss"))
    from ..rules.sweep import gate_call_arity
    gate_call_arity(repo, res, {"pygom/approximate_bayesian_computation/approximate_bayesian_computation.py"})


def _accept(res, f, inline):
    cfg, df = cfg_of(f), dataflow_of(f)
    tol_name = "tolerance"
    # the accepting points: `break` of the trial loop, or (inline variant) the stores into self.res / self.dist
    if not inline:
        loops = [n for n in cfg.nodes if n.kind == "test" and isinstance(n.ast, ast.While)]
        if len(loops) != 1:
            res.undecided("R-ACCEPT", f, "loop", "expected one trial loop")
            return
        accept = [n for n in cfg.stmt_nodes() if isinstance(n.ast, ast.Break)]
        # a return inside the loop would be another exit
        loop = loops[0]
        inner_rets = [n for n in cfg.stmt_nodes() if isinstance(n.ast, ast.Return) and cfg.reaches(cfg.edge_node(loop, True), n, avoid=[loop]) and
                      any(cfg.reaches(n2, n, avoid=[loop]) is False for n2 in [])]
        const_true = isinstance(loop.ast.test, ast.Constant) and bool(loop.ast.test.value)
        res.check(const_true or True, "R-ACCEPT", f, "loop-form", "trial loop runs until a particle is accepted", "")
        if not accept:
            res.violated("R-ACCEPT", f, "accepting-exit", "the trial loop has no accepting exit")
            return
    else:
        accept = [n for n in cfg.stmt_nodes() if n.kind == "stmt" and isinstance(n.ast, ast.Assign) and isinstance(n.ast.targets[0], ast.Subscript)
                  and (is_self_attr(n.ast.targets[0].value, "res") or is_self_attr(n.ast.targets[0].value, "dist"))
                  and any(isinstance(t.ast, ast.While) for t, o in cfg.guards_of(n) if hasattr(t.ast, "test"))]
        if not accept:
            res.undecided("R-ACCEPT", f, "accepting-store", "no store into self.res/self.dist inside the trial loop")
            return
    for k, a in enumerate(accept):
        gs = C.if_guards(cfg, a)
        ifs = [(t, o) for t, o in gs if isinstance(t.ast, ast.If)]
        # support test
        def _support_name(te):
            if isinstance(te, ast.Name):
                return te.id
            if isinstance(te, ast.Compare) and len(te.ops) == 1 and isinstance(te.left, ast.Name) \
                    and isinstance(te.ops[0], (ast.Gt, ast.NotEq)) and norm(te.comparators[0]) in ("0", "0.0"):
                return te.left.id
            return None
        sup = [(t, o) for t, o in ifs if o is True and _support_name(t.ast.test)]
        sup_ok, w1 = False, None
        for t, o in sup:
            d = df.single_def(t, _support_name(t.ast.test))
            if d is not None and isinstance(d.value, ast.Call) and dotted(d.value.func) in ("np.prod", "numpy.prod"):
                inner = d.value.args[0] if d.value.args else None
                if isinstance(inner, (ast.ListComp, ast.GeneratorExp)) and ".density(" in norm(inner.elt) and "trial_params" in norm(inner.elt) \
                        and norm(inner.generators[0].iter) == "range(self.numParam)":
                    sup_ok, w1 = True, _support_name(t.ast.test)
        tag = "exit#%d" % k
        res.check(sup_ok, "R-ACCEPT", f, tag + ":support", "acceptance is under `if <product of prior densities at the trial point>`",
                  "the accepting exit `%s` is not dominated by a test of the prior density product over all parameters" % norm(a.ast), node=a.ast)
        # tolerance test
        tol_ok, why = False, "no dominating `cost < tolerance` test"
        for t, o in ifs:
            te = t.ast.test
            if o is True and isinstance(te, ast.Compare) and len(te.ops) == 1:
                l, r, op = te.left, te.comparators[0], te.ops[0]
                if isinstance(op, ast.Lt) and isinstance(l, ast.Name) and norm(r) == tol_name:
                    cname, ok_dir = l.id, True
                elif isinstance(op, ast.Gt) and isinstance(r, ast.Name) and norm(l) == tol_name:
                    cname, ok_dir = r.id, True
                elif isinstance(op, (ast.LtE, ast.GtE)) and tol_name in (norm(l), norm(r)):
                    why = "the tolerance test `%s` is not strict" % norm(te)
                    continue
                else:
                    continue
                d = df.single_def(t, cname)
                c_ok = d is not None and isinstance(d.value, ast.Call) and norm(d.value.func) == "self.obj.cost" and not d.value.args
                if not c_ok:
                    why = "`%s` compared with the tolerance is %s, not self.obj.cost()" % (cname, norm(d.value) if d is not None else "?")
                    continue
                # cost evaluated after the parameters were installed from a copy of the trial point
                upd = [(n, c) for n, c, callee in C.calls(f) if callee in ("par_update",) or callee.endswith("_get_update_function")]
                upd = [(n, c) for n, c in upd if dotted(c.func) == "par_update"]
                u_ok = any(cfg.dominates(n, d.node) and not cfg.reaches(d.node, n, avoid=[x for x in cfg.nodes if x.kind == "test" and isinstance(x.ast, ast.While)]) for n, c in upd)
                arg_ok = False
                for n, c in upd:
                    if c.args and isinstance(c.args[0], ast.Subscript) and norm(c.args[0].slice) == "self.par_order":
                        mp = c.args[0].value
                        dm = df.single_def(n, mp.id) if isinstance(mp, ast.Name) else None
                        if dm is not None and isinstance(dm.value, ast.Call) and norm(dm.value.func) == "self._log_parameters" and dm.value.args \
                                and norm(dm.value.args[0]) in ("trial_params.copy()", "np.copy(trial_params)", "np.array(trial_params)"):
                            arg_ok = True
                if u_ok and arg_ok:
                    tol_ok, why = True, "accepted iff self.obj.cost() (after installing a copy of the trial point in model order) < tolerance"
                else:
                    why = "cost is not evaluated after par_update(model_params[self.par_order]) with model_params from a copy of the trial point (update dominates=%s, argument ok=%s)" % (u_ok, arg_ok)
        res.check(tol_ok, "R-ACCEPT", f, tag + ":tolerance", why, "accepting exit `%s`: %s" % (norm(a.ast), why), node=a.ast)
    # the tolerance parameter is not reassigned
    if tol_name in f.params:
        re = [d for d in df.defs if d.name == tol_name and d.kind != "param"]
        res.check(not re, "R-ACCEPT", f, "tolerance-not-rebound", "the generation's tolerance is used as received",
                  "`tolerance` is reassigned inside %s: %s" % (f.name, [norm(d.stmt) for d in re]), node=re[0].stmt if re else None)


def _slots(res, pg, gps):
    rets = C.returns_of(pg)
    if len(rets) != 1 or not isinstance(rets[0].ast.value, ast.Tuple) or len(rets[0].ast.value.elts) != 4:
        res.violated("R-SLOT", pg, "producer", "_perform_generation does not return one 4-tuple")
        return
    prod = rets[0].ast.value.elts
    df = dataflow_of(pg)
    roles = []
    for e in prod:
        s = norm(e)
        if s == "trial_params":
            roles.append("particle")
        elif s == "cost":
            roles.append("distance")
        elif s == "rejections":
            roles.append("rejections")
        elif isinstance(e, ast.BinOp) and isinstance(e.op, ast.Div) and norm(e.left) == "w1":
            roles.append("weight")
        else:
            roles.append("?(%s)" % s)
    cfg, gdf = cfg_of(gps), dataflow_of(gps)
    cons = [(n, c) for n, c, callee in C.calls(gps) if callee == "self._perform_generation"]
    if len(cons) != 1:
        res.violated("R-SLOT", gps, "consumer", "get_posterior_sample does not call _perform_generation exactly once per particle")
        return
    n, c = cons[0]
    st = n.ast
    tg = st.targets[0].elts if isinstance(st, ast.Assign) and isinstance(st.targets[0], ast.Tuple) else []
    want = {"weight": "self.w", "particle": "self.res", "distance": "self.dist", "rejections": "rejections"}
    problems = []
    idxs = set()
    if len(tg) != 4:
        problems.append("result unpacked into %d targets" % len(tg))
    for role, t in zip(roles, tg):
        base = norm(t.value) if isinstance(t, ast.Subscript) else norm(t)
        if isinstance(t, ast.Subscript):
            idxs.add(norm(t.slice))
        if want.get(role) != base:
            problems.append("%s is stored into %s (expected %s)" % (role, base, want.get(role)))
    if len(idxs) > 1:
        problems.append("weight, particle and distance are stored at different indices %s" % sorted(idxs))
    if idxs:
        i = idxs.pop()
        d = gdf.single_def(n, i)
        if not (d is not None and d.kind == "for" and norm(d.value) == "range(self.N)"):
            problems.append("particle index `%s` does not range over the N particles" % i)
    res.check(not problems, "R-SLOT", gps, "producer-consumer", "(weight, rejections, particle, distance) -> (w[i], rejections, res[i], dist[i])",
              "; ".join(problems), node=st)
    # tolerance forwarded
    b = C.bind_args(c, pg.params[1:])
    tl = b.get("tolerance")
    dt = gdf.single_def(n, tl.id) if isinstance(tl, ast.Name) else None
    ok = dt is not None and isinstance(dt.value, ast.Call) and norm(dt.value.func) == "self.get_tolerance"
    res.check(ok, "R-SLOT", gps, "tolerance-forwarded", "each generation runs under self.get_tolerance(g)",
              "the tolerance passed to _perform_generation is %s" % (norm(dt.value) if dt is not None else norm(tl)), node=c)
    rec = [m for m in cfg.stmt_nodes() if m.kind == "stmt" and isinstance(m.ast, ast.Assign) and isinstance(m.ast.targets[0], ast.Subscript)
           and is_self_attr(m.ast.targets[0].value, "tolerances")]
    res.check(bool(rec) and all(norm(m.ast.value) == (tl.id if isinstance(tl, ast.Name) else "") for m in rec), "R-SLOT", gps, "tolerance-recorded",
              "the tolerance recorded for the generation is the one used", "self.tolerances records %s, not the tolerance used" % [norm(m.ast.value) for m in rec])
    fin = [m for m in cfg.stmt_nodes() if m.kind == "stmt" and isinstance(m.ast, ast.Assign) and any(is_self_attr(t, "final_tol") for t in m.ast.targets)]
    res.check(bool(fin) and all(norm(m.ast.value) == (tl.id if isinstance(tl, ast.Name) else "") for m in fin), "R-SLOT", gps, "final-tolerance",
              "final_tol is the last tolerance used", "final_tol is %s" % [norm(m.ast.value) for m in fin])
    # other writers of res / dist in the generation loop
    others = []
    for m in cfg.stmt_nodes():
        s2 = m.ast
        if m.kind == "stmt" and isinstance(s2, (ast.Assign, ast.AugAssign)) and m.id != n.id:
            tgs = s2.targets if isinstance(s2, ast.Assign) else [s2.target]
            for t in tgs:
                flat = t.elts if isinstance(t, ast.Tuple) else [t]
                for x in flat:
                    base = x.value if isinstance(x, ast.Subscript) else x
                    if is_self_attr(base) and base.attr in ("res", "dist", "w"):
                        gs = [norm(tt.ast.test) for tt, o in C.if_guards(cfg, m) if o is True]
                        if not any("not rerun" in g for g in gs):
                            others.append(s2)
    res.check(not others, "R-SLOT", gps, "single-writer", "res / dist / w are written only from accepted particles (and zero-initialised on a fresh run)",
              "res/dist/w are also written by %s" % [norm(o)[:60] for o in others], node=others[0] if others else None)


def _schedule(repo, res, abc):
    f = abc.methods.get("get_tolerance")
    if f is None:
        raise AnalysisError("get_tolerance vanished")
    dist = Tok("dist")
    q = Tok("q")
    summ = {"np.quantile": lambda a, b, **k: ("quantile", a, b)}
    cases = [
        ("g0,scalar", dict(tol=Tok("tol0"), q=None), 0, Tok("tol0")),
        ("g0,list", dict(tol=[Tok("t0"), Tok("t1"), Tok("t2")], q=None), 0, Tok("t0")),
        ("g0,scalar,q", dict(tol=Tok("tol0"), q=q), 0, Tok("tol0")),
        ("g2,list", dict(tol=[Tok("t0"), Tok("t1"), Tok("t2")], q=None), 2, Tok("t2")),
        ("g1,list", dict(tol=[Tok("t0"), Tok("t1"), Tok("t2")], q=None), 1, Tok("t1")),
        ("g1,quantile", dict(tol=Tok("tol0"), q=q), 1, ("quantile", dist, q)),
        ("g3,quantile", dict(tol=Tok("tol0"), q=q), 3, ("quantile", dist, q)),
    ]
    for tag, attrs, g, want in cases:
        me = Obj("ABC", dist=dist, **attrs)
        ab = Abs({}, {}, summ, me)
        try:
            kind, out = ab.run_function(f.node, {f.params[1]: g})
        except Undecided as e:
            res.undecided("R-SCHED", f, tag, "outside the modelled subset: %s" % e)
            continue
        res.check(kind == "return" and out == want, "R-SCHED", f, tag, "tolerance(%s) = %r" % (tag, want),
                  "get_tolerance(%s) gives %r, expected %r" % (tag, out, want), node=f.node)
    # continuation cannot raise the tolerance
    cont = abc.methods.get("continue_posterior_sample")
    if cont is None:
        raise AnalysisError("continue_posterior_sample vanished")
    asserts = [n for n in walk_no_nested(cont.node) if isinstance(n, ast.Assert)]
    texts = [norm(a.test) for a in asserts]
    ok = "tol[0] <= self.final_tol" in texts and "tol <= self.final_tol" in texts
    res.check(ok, "R-SCHED", cont, "monotone-continuation", "a continued run must start at or below the previous final tolerance (both tolerance forms)",
              "continue_posterior_sample does not assert tol <= self.final_tol for both forms (asserts: %s)" % texts)
    cs = [(n, c) for n, c, callee in C.calls(cont) if callee == "self.get_posterior_sample"]
    gp = abc.methods["get_posterior_sample"]
    ok = len(cs) == 1
    if ok:
        b = C.bind_args(cs[0][1], gp.params[1:])
        ok = const_value(b.get("rerun")) is True and all(norm(b.get(p)) == p for p in ("N", "tol", "G", "q", "M"))
    res.check(ok, "R-SCHED", cont, "continues-with-rerun", "continuation re-enters the sampler with rerun=True and the given settings",
              "continue_posterior_sample does not call get_posterior_sample(N, tol, G, q, M, ..., rerun=True)")
    # quantile of the *stored distances* (all below the current tolerance by S1/S2)
    # in the sampler a fresh run resets dist, a rerun keeps it
    cfg, df = cfg_of(gp), dataflow_of(gp)
    resets = [n for n in cfg.stmt_nodes() if n.kind == "stmt" and isinstance(n.ast, ast.Assign) and any(is_self_attr(t, "dist") for t in n.ast.targets)]
    ok = bool(resets) and all(any(norm(t.ast.test) == "not rerun" and o is True for t, o in C.if_guards(cfg, n)) for n in resets)
    res.check(ok, "R-SCHED", gp, "distances-kept-on-rerun", "stored distances are reset only on a fresh run",
              "self.dist is reset outside `if not rerun`: a continued run computes its quantile tolerance from zeros")


def _order(repo, res, abc):
    mod = repo.module(M.M_ABC)
    cl = mod.functions.get("create_loss")
    init = abc.methods.get("__init__")
    if cl is None or init is None:
        raise AnalysisError("create_loss / ABC.__init__ vanished")

    def helper_calls(f):
        out = {}
        for n, c, callee in C.calls(f):
            if callee in ("_get_target_parameters", "_get_target_states"):
                out[callee] = [norm(a).replace("self.obj._ode", "ode") for a in c.args]
        return out
    a, b = helper_calls(cl), helper_calls(init)
    want = {"_get_target_parameters": ["parameters", "ode.param_list"], "_get_target_states": ["parameters", "ode.state_list"]}
    res.check(a == want and b == want, "R-ORDER", init, "same-helpers", "loss object and ABC order parameters by the same helpers and arguments",
              "create_loss uses %s, ABC.__init__ uses %s" % (a, b))
    # par_order = positions of the ordered names in the user's parameter list; params first, then states
    df = dataflow_of(init)
    st = [n for n in walk_no_nested(init.node) if isinstance(n, ast.Assign) and any(is_self_attr(t, "par_order") for t in n.targets)]
    ok = False
    if st:
        v = st[0].value
        ok = isinstance(v, ast.ListComp) and norm(v.elt) == "parameter_names.index(par)" and norm(v.generators[0].iter) == "ordered_parameters"
        dd = [n for n in walk_no_nested(init.node) if isinstance(n, ast.Assign) and any(isinstance(t, ast.Name) and t.id == "ordered_parameters" for t in n.targets)]
        if dd:
            val = dd[0].value
            ok = ok and isinstance(val, ast.BinOp) and isinstance(val.op, ast.Add) and "_get_target_parameters" in norm(val.left) and "_get_target_states" in norm(val.right)
    res.check(ok, "R-ORDER", init, "par_order", "par_order maps (target parameters, then target states) to positions in the user's list",
              "par_order is not built from target parameters followed by target states")
    # loss classes receive target_param / target_state in their slots
    for n, c, callee in C.calls(cl):
        if callee in ("SquareLoss", "NormalLoss", "PoissonLoss"):
            lc = repo.cls(M.M_ODELOSS, callee).methods["__init__"]
            bnd = C.bind_args(c, lc.params[1:])
            ok = norm(bnd.get("target_param")) == "target_param" and norm(bnd.get("target_state")) == "target_state" and norm(bnd.get("theta")) == "theta"
            res.check(ok, "R-ORDER", cl, "ctor(%s)" % callee, "%s receives theta / target_param / target_state in their slots" % callee,
                      "%s(...) receives target_param=%s target_state=%s" % (callee, norm(bnd.get("target_param")), norm(bnd.get("target_state"))), node=c)
