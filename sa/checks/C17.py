"""C17 - ABC keeps only particles inside the prior support and under the tolerance.

 S1 R-ACCEPT  the only exit of the trial loop is dominated by the true edges of `if w1:`
              (prior density product non-zero) and `if cost < tolerance:` (strict), where
              cost = self.obj.cost() evaluated after par_update(model_params[par_order]) and
              model_params derives from a *copy* of the trial parameters
 S2 R-SLOT    producer (weight, rejections, trial_params, cost) <-> consumer
              (self.w[i], rejections, self.res[i], self.dist[i]) with the same i; no other
              writer of res / dist in the generation loop
 S3 R-SCHED   get_tolerance: generation 0 -> supplied tolerance; later -> quantile(dist, q)
              when q is set, else tol[g]; continue_posterior_sample asserts the new
              tolerance <= final_tol; the tolerance used in a generation is the one recorded
 S4 R-ORDER   create_loss and ABC.__init__ derive the parameter order from the same helpers
"""
import ast

from ..core.source import AnalysisError, norm, dotted, is_self_attr, walk_no_nested, const_value, kwarg
from ..core.cfg import cfg_of
from ..core.dataflow import dataflow_of
from ..core.absint import Abs, Obj, Tok, Raised
from ..core.algebra import Undecided
from ..rules import model as M
from ..rules import common as C

TECHNIQUE = ("static analysis by abstract interpretation: ABC.__init__, get_posterior_sample, continue_posterior_sample, _perform_generation, get_tolerance and "
             "_log_parameters are interpreted by the checker on small abstract inference problems with scripted proposal streams and a known cost function; the stored "
             "posterior is checked against the property's own statement; abstract execution of the tolerance schedule")


def check(repo, res, tier):
    res.rule("R-ACCEPT", "whole ABC runs (rejection, SMC with tolerance list / quantile schedule, nearest-neighbour kernels, continued runs, the legacy sampler), interpreted on "
             "scripted proposal streams, leave a posterior that satisfies the property as stated: positive prior density, stored distance = cost recomputed at the particle "
             "(loss object's order, log-scale components back-transformed) < tolerance of its generation, positive finite weights; admissible proposals are not rejected for ever")
    res.rule("R-SCHED", "tolerance schedule: supplied / quantile of stored distances / list; never increasing under quantile scheduling; a continuation cannot start above the previous final tolerance")
    res.s_clauses = ["S1/S2/S4 R-ACCEPT (whole runs)", "S3 R-SCHED"]
    res.n_clauses = ["that the recomputed cost is reproducible needs a deterministic ODE solve (C02); here cost() is a known function of the installed parameters",
                     "sampling quality of the perturbation kernels (covariances are opaque here)"]
    abc = repo.cls(M.M_ABC, "ABC")
    pg = abc.methods.get("_perform_generation")
    gps = abc.methods.get("get_posterior_sample")
    if gps is None:
        raise AnalysisError("ABC.get_posterior_sample vanished")
    from ..rules import abcx
    from ..core import absint as _ai
    _ai.INLINED.clear()
    n = abcx.check_runs(repo, res, tier=tier)
    res.floor("ABC runs interpreted", n, 20)
    res.functions |= set(_ai.INLINED)
    _schedule(repo, res, abc)
    # the stored distance is the cost *at that particle*: every cost evaluation installs its own parameters before
    # integrating at the observation times (shared with C06)
    from . import C06
    res.rule("R-ROWMATCH", "cost(theta) integrates the model at theta: parameters installed on every evaluation, rows = observations")
    C06._rows(repo, res, repo.cls(M.M_LOSS, "BaseLoss"))
    from ..rules.sweep import gate_call_arity
    gate_call_arity(repo, res, {"pygom/approximate_bayesian_computation/approximate_bayesian_computation.py"})


def _schedule(repo, res, abc):
    f = abc.methods.get("get_tolerance")
    if f is None:
        raise AnalysisError("get_tolerance vanished")
    dist = Tok("dist")
    q = Tok("q")
    summ = {"np.quantile": lambda a, q=None, **k: ("quantile", a, q), "np.percentile": lambda a, q=None, **k: ("percentile", a, q)}
    cases = [
        ("g0,scalar", dict(tol=Tok("tol0"), q=None), 0, Tok("tol0")),
        ("g0,list", dict(tol=[Tok("t0"), Tok("t1"), Tok("t2")], q=None), 0, Tok("t0")),
        ("g0,scalar,q", dict(tol=Tok("tol0"), q=q), 0, Tok("tol0")),
        ("g2,list", dict(tol=[Tok("t0"), Tok("t1"), Tok("t2")], q=None), 2, Tok("t2")),
        ("g1,list", dict(tol=[Tok("t0"), Tok("t1"), Tok("t2")], q=None), 1, Tok("t1")),
        ("g1,quantile", dict(tol=Tok("tol0"), q=q), 1, ("quantile", dist, q)),
        ("g3,quantile", dict(tol=Tok("tol0"), q=q), 3, ("quantile", dist, q)),
    ]
    for tag, attrs, g, want in cases:
        me = Obj("ABC", dist=dist, **attrs)
        ab = Abs({}, {}, summ, me)
        ab.class_methods = set(abc.methods) | set(abc.getters)
        ab.self_class = (repo, abc)
        ab.module = f.module
        try:
            kind, out = ab.run_function(f.node, {f.params[1]: g})
        except Undecided as e:
            res.undecided("R-SCHED", f, tag, "outside the modelled subset: %s" % e)
            continue
        res.check(kind == "return" and out == want, "R-SCHED", f, tag, "tolerance(%s) = %r" % (tag, want),
                  "get_tolerance(%s) gives %r, expected %r" % (tag, out, want), node=f.node)


