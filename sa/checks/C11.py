"""C11 - declared state limits are never violated in stochastic simulation.

 S1 R-LIMIT  _checkJump tests every state; over all (lower, upper) shapes a proposed value is
             rejected iff it is below a present lower or above a present upper bound; a rejected
             step returns the old state, the old time and success=False
 S2 R-DEFAULT limits default to (0, None) in both declaration forms and are validated as pairs
 S3 R-STEP   only states that passed _checkJump are recorded; a failed tau-leap falls back to
             first reaction; a failed first reaction ends the run
"""
import ast

from ..core.source import norm, dotted, is_self_attr, const_value
from ..core.cfg import cfg_of
from ..core.dataflow import dataflow_of
from ..rules import step as S
from ..rules import model as M
from ..rules import common as C

TECHNIQUE = ("static analysis: finite abstract evaluation of the limit test over all bound shapes, typestate of the "
             "success flag along the CFG of _jump and the steppers, default-limit data flow")


def check(repo, res, tier):
    res.rule("R-LIMIT", "reject iff outside a present bound, for every state; rejection leaves (x, t) unchanged")
    res.rule("R-DEFAULT", "limits default to (0, None) per state in both declaration forms")
    res.rule("R-STEP", "only accepted states are recorded; fall back; stop when that fails")
    res.rule("R-SLOT", "record sources")
    res.s_clauses = ["S1 R-LIMIT", "S2 R-DEFAULT", "S3 R-STEP"]
    res.n_clauses = ["that the initial state lies inside the limits (user input)"]
    from ..rules import stepx as X
    res.rule("R-WALK", "on models with lower, upper, two-sided and absent limits every recorded state is the one the limit-respecting walk gives: a step that "
             "would leave the limits is not taken and leaves state and time unchanged")
    X.check_checkjump(repo, res)
    n = X.check_walks(repo, res)
    res.floor("walk scenarios interpreted", n, 15)
    # the limits handed to the steppers are the declared ones: _add_list_attr_with_limits interpreted on every declaration form
    _check_defaults(repo, res)


def _check_defaults(repo, res):
    """names and limits stay aligned, undeclared limits default to (0, None), malformed declarations are rejected"""
    import re as _re
    from ..core.absint import Abs, Obj, Tok, Raised
    from ..core.algebra import Undecided
    f = repo.func(M.M_BASE, "BaseOdeModel._add_list_attr_with_limits")
    base = repo.module(M.M_BASE)
    rx = None
    for st in base.tree.body:
        if isinstance(st, ast.Assign) and isinstance(st.targets[0], ast.Name) and st.targets[0].id == "re_split_string" \
                and isinstance(st.value, ast.Call) and dotted(st.value.func) == "re.compile":
            rx = _re.compile(const_value(st.value.args[0]))
    V = Obj("ODEVariable", ID="v", name="v", __str__="v")
    D = (0, None)
    ok_cases = [
        ("string", "a b,c", ["a", "b", "c"], [D, D, D]),
        ("names", ["a", "b", "c"], ["a", "b", "c"], [D, D, D]),
        ("all declared", [("a", (1, 5)), ("b", (None, 7)), ("c", (2, None))], ["a", "b", "c"], [(1, 5), (None, 7), (2, None)]),
        ("declared first", [("a", (1, 5)), "b", "c"], ["a", "b", "c"], [(1, 5), D, D]),
        ("declared last", ["a", "b", ("c", (1, 5))], ["a", "b", "c"], [D, D, (1, 5)]),
        ("declared in the middle", ["a", ("b", (None, None)), "c", ("d", (3, 9))], ["a", "b", "c", "d"], [D, (None, None), D, (3, 9)]),
        ("variable object", [V, ("b", (1, 2)), "c"], [V, "b", "c"], [D, (1, 2), D]),
        ("single", ["a"], ["a"], [D]),
        ("single declared", [("a", (4, 8))], ["a"], [(4, 8)]),
    ]
    bad_cases = [("triple", [("a", 1, 2)]), ("limits not a tuple", [("a", [0, 1])]), ("limits of length 3", [("a", (0, 1, 2))]),
                 ("empty name", ["a", " "]), ("unnamed tuple", [("", (0, 1))]), ("number", ["a", 3])]
    types = {"ODEVariable": lambda v: isinstance(v, Obj) and v.cls == "ODEVariable"}
    problems, n = [], 0
    for label, decl, want_names, want_lims in ok_cases:
        me = Obj("Model")
        summ = {"Model.__setattr__": lambda me_, n_, v: me_.attrs.__setitem__(n_, v)}
        if rx is not None:
            summ["re_split_string.split"] = lambda x: rx.split(x)
        try:
            ab = Abs({}, types, summ, me)
            ab.module = f.module
            kind, out = ab.run_function(f.node, {f.params[1]: decl, f.params[2]: "names"})
        except Undecided as e:
            res.undecided("R-DEFAULT", f, "declarations", "outside the modelled subset: %s" % e)
            return
        n += 1
        names, lims = me.attrs.get("names"), me.attrs.get("_state_lims")
        if kind != "return":
            problems.append("%s declaration %r is rejected (%s)" % (label, decl, out))
        elif list(names or []) != want_names or [tuple(l) if isinstance(l, (list, tuple)) else l for l in (lims or [])] != want_lims:
            problems.append("%s declaration %r gives states %r with limits %r, expected %r with %r" % (label, decl, names, lims, want_names, want_lims))
    for label, decl in bad_cases:
        me = Obj("Model")
        try:
            ab = Abs({}, types, {"Model.__setattr__": lambda me_, n_, v: me_.attrs.__setitem__(n_, v)}, me)
            ab.module = f.module
            kind, out = ab.run_function(f.node, {f.params[1]: decl, f.params[2]: "names"})
        except Undecided as e:
            res.undecided("R-DEFAULT", f, "declarations", "outside the modelled subset: %s" % e)
            return
        n += 1
        if kind != "raise":
            problems.append("malformed declaration (%s) %r is accepted with limits %r" % (label, decl, me.attrs.get("_state_lims")))
    res.check(not problems, "R-DEFAULT", f, "declarations", "%d declaration forms: one limit pair per state in the state's own position, (0, None) where none is declared, malformed entries rejected" % n,
              "; ".join(problems[:2]), node=f.node)
    res.floor("limit declaration forms", n, 15)
