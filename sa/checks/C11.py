"""C11 - declared state limits are never violated in stochastic simulation.

 S1 R-LIMIT  _checkJump tests every state; over all (lower, upper) shapes a proposed value is
             rejected iff it is below a present lower or above a present upper bound; a rejected
             step returns the old state, the old time and success=False
 S2 R-DEFAULT limits default to (0, None) in both declaration forms and are validated as pairs
 S3 R-STEP   only states that passed _checkJump are recorded; a failed tau-leap falls back to
             first reaction; a failed first reaction ends the run
"""
import ast

from ..core.source import norm, dotted, is_self_attr, const_value
from ..core.cfg import cfg_of
from ..core.dataflow import dataflow_of
from ..rules import step as S
from ..rules import model as M
from ..rules import common as C

TECHNIQUE = ("static analysis: finite abstract evaluation of the limit test over all bound shapes, typestate of the "
             "success flag along the CFG of _jump and the steppers, default-limit data flow")


def check(repo, res, tier):
    res.rule("R-LIMIT", "reject iff outside a present bound, for every state; rejection leaves (x, t) unchanged")
    res.rule("R-DEFAULT", "limits default to (0, None) per state in both declaration forms")
    res.rule("R-STEP", "only accepted states are recorded; fall back; stop when that fails")
    res.rule("R-SLOT", "record sources")
    res.s_clauses = ["S1 R-LIMIT", "S2 R-DEFAULT", "S3 R-STEP"]
    res.n_clauses = ["that the initial state lies inside the limits (user input)"]
    from ..rules import stepx as X
    res.rule("R-WALK", "on models with lower, upper, two-sided and absent limits every recorded state is the one the limit-respecting walk gives: a step that "
             "would leave the limits is not taken and leaves state and time unchanged")
    X.check_checkjump(repo, res)
    n = X.check_walks(repo, res)
    res.floor("walk scenarios interpreted", n, 15)
    # the limits handed to the steppers are the declared ones
    f = repo.func(M.M_BASE, "BaseOdeModel._add_list_attr_with_limits")
    cfg, df = cfg_of(f), dataflow_of(f)
    stores = [n for n in cfg.stmt_nodes() if n.kind == "stmt" and isinstance(n.ast, ast.Assign) and any(is_self_attr(t, "_state_lims") for t in n.ast.targets)]
    if not stores:
        res.violated("R-DEFAULT", f, "stores-limits", "self._state_lims is never assigned")
        return
    st = stores[0]
    lim = st.ast.value.id if isinstance(st.ast.value, ast.Name) else None
    n_forms = 0
    for d in df.reaching(st, lim) if lim else []:
        if d.kind == "assign" and isinstance(d.value, ast.BinOp):
            n_forms += 1
            ok = norm(d.value.left) == "[(0, None)]" and norm(d.value.right).startswith("len(")
            res.check(ok, "R-DEFAULT", f, "string-form", "string declaration: every state gets (0, None)",
                      "string declaration gives limits %s" % norm(d.value), node=d.stmt)
        elif d.kind == "append":
            n_forms += 1
            v = d.value
            gs = [norm(t.ast.test) for t, o in C.if_guards(cfg, d.node) if o is True]
            if norm(v) == "(0, None)":
                res.holds("R-DEFAULT", f, "default@%s" % (gs[-1][:40] if gs else ""), "undeclared limits default to (0, None)", node=d.stmt)
            elif isinstance(v, ast.Subscript) and const_value(v.slice) == 1:
                # declared limits: guarded by the tuple / length checks
                chk = [norm(t.ast.test) for t, o in cfg.guards_of(d.node) if isinstance(t.ast, ast.If)]
                ok = any("len(%s) != 2" % norm(v) in c or "len(%s)!=2" % norm(v) in c.replace(" ", "") for c in chk) and \
                    any("isinstance(%s, tuple)" % norm(v) in c for c in chk)
                res.check(ok, "R-DEFAULT", f, "declared", "declared limits are validated as 2-tuples before being stored",
                          "declared limits %s are stored without the tuple/length validation" % norm(v), node=d.stmt)
            else:
                res.violated("R-DEFAULT", f, "default@%s" % norm(v), "a state receives limits `%s` (expected (0, None) or the declared pair)" % norm(v), node=d.stmt)
    res.floor("limit declaration forms", n_forms, 4)
    # names and limits stay aligned: every append to the name list has an append to the limit list in the same block
    names = None
    for n in cfg.stmt_nodes():
        pass
    napps = [d for d in df.defs if d.kind == "append" and d.name != lim]
    lapps = [d for d in df.defs if d.kind == "append" and d.name == lim]
    ok = len(napps) == len(lapps) and all(any(cfg.reaches(a.node, b.node) and len(C.if_guards(cfg, a.node)) == len(C.if_guards(cfg, b.node)) for b in lapps) for a in napps)
    res.check(ok, "R-DEFAULT", f, "aligned", "every declared state appends exactly one limit pair",
              "state names and limits are appended in different numbers/places: limits shift against states")
