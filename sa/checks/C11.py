"""C11 - declared state limits are never violated in stochastic simulation.

 S1 R-LIMIT  _checkJump tests every state; over all (lower, upper) shapes a proposed value is
             rejected iff it is below a present lower or above a present upper bound; a rejected
             step returns the old state, the old time and success=False
 S2 R-DEFAULT limits default to (0, None) in both declaration forms and are validated as pairs
 S3 R-STEP   only states that passed _checkJump are recorded; a failed tau-leap falls back to
             first reaction; a failed first reaction ends the run
"""
import ast

from ..core.source import norm, dotted, is_self_attr, const_value, AnalysisError
from ..core.cfg import cfg_of
from ..core.dataflow import dataflow_of
from ..rules import step as S
from ..rules import model as M
from ..rules import common as C

TECHNIQUE = ("static analysis: finite abstract evaluation of the limit test over all bound shapes, typestate of the "
             "success flag along the CFG of _jump and the steppers, default-limit data flow")


def check(repo, res, tier):
    res.rule("R-LIMIT", "reject iff outside a present bound, for every state; rejection leaves (x, t) unchanged")
    res.rule("R-DEFAULT", "limits default to (0, None) per state in both declaration forms")
    res.rule("R-STEP", "only accepted states are recorded; fall back; stop when that fails")
    res.rule("R-SLOT", "record sources")
    res.s_clauses = ["S1 R-LIMIT", "S2 R-DEFAULT", "S3 R-STEP"]
    res.n_clauses = ["that the initial state lies inside the limits (user input)"]
    from ..rules import stepx as X
    res.rule("R-WALK", "on models with lower, upper, two-sided and absent limits every recorded state is the one the limit-respecting walk gives: a step that "
             "would leave the limits is not taken and leaves state and time unchanged")
    X.check_checkjump(repo, res)
    n = X.check_walks(repo, res, tier=tier)
    res.floor("walk scenarios interpreted", n, 15)
    # the limits handed to the steppers are the declared ones: _add_list_attr_with_limits interpreted on every declaration form
    _check_defaults(repo, res)
    _check_alignment(repo, res)


def _expand(name):
    """the state names a declaration stands for (sympy's range syntax: 'y1:4' -> y1 y2 y3)"""
    import re as _re
    m = _re.match(r"^([A-Za-z]\w*?)(\d+):(\d+)$", name)
    if m:
        return ["%s%d" % (m.group(1), i) for i in range(int(m.group(2)), int(m.group(3)))]
    return [name]


def _run_decl(repo, decl, late=None):
    """interpret the constructor's declaration routine on `decl` (then `state_list = late`) with the real state_list setter;
    -> (kind, out, [(state name, limits) ...]) ; symbol parsing is replaced by its contract (range syntax expands)"""
    import re as _re
    from ..core.absint import Abs, Obj, Tok, Raised
    cls = M.sim_class(repo)
    f = repo.func(M.M_BASE, "BaseOdeModel._add_list_attr_with_limits")
    setter = repo.resolve_setter(cls, "state_list")
    if setter is None:
        raise AnalysisError("state_list setter vanished")
    me = Obj("Model", _stateList=[], _paramList=[], _stateDict={}, _paramDict={}, _vectorStateDict={})
    me.attrs["_hasNewTransition"] = Obj("Canary")
    types = {"ODEVariable": lambda v: isinstance(v, Obj) and v.cls == "ODEVariable", "sympy.Symbol": lambda v: isinstance(v, Tok)}

    def add_symbol(me_, s_):
        names = _expand(s_)
        return Tok(names[0], "sym") if names == [s_] else [Tok(x, "sym") for x in names]

    def mk_var(ID, name=None, *a, **k):
        return Obj("ODEVariable", ID=ID, name=name if name is not None else ID, __str__=ID)
    summ = {"Model._addSymbol": add_symbol, "ODEVariable": mk_var, "Canary.trip": lambda c: None,
            "str": lambda v: v.label if isinstance(v, Tok) else (v.attrs.get("ID") if isinstance(v, Obj) and v.cls == "ODEVariable" else str(v))}
    base = repo.module(M.M_BASE)
    for st in base.tree.body:
        if isinstance(st, ast.Assign) and isinstance(st.targets[0], ast.Name) and st.targets[0].id == "re_split_string" \
                and isinstance(st.value, ast.Call) and dotted(st.value.func) == "re.compile":
            rx = _re.compile(const_value(st.value.args[0]))
            summ["re_split_string.split"] = lambda x, rx=rx: rx.split(x)

    def fresh():
        ab = Abs({}, types, summ, me, {"state_list": lambda m: m.attrs["_stateList"]})
        ab.class_methods = set(repo.all_methods(cls))
        ab.self_class = (repo, cls)
        ab.module = f.module
        return ab

    def run_setter(me_, value):
        kind, out = fresh().run_function(setter.node, {setter.params[1]: value})
        if kind != "return":
            raise Raised(str(out))

    def set_attr(me_, name, value):
        if name == "state_list":
            run_setter(me_, value)
        else:
            me_.attrs[name] = value
    summ["Model.__setattr__"] = set_attr
    summ["set:Model.state_list"] = run_setter
    try:
        kind, out = fresh().run_function(f.node, {f.params[1]: decl, f.params[2]: "state_list"})
        if kind == "return" and late is not None:
            run_setter(me, late)
    except Raised as r:
        kind, out = "raise", r.exc
    names = [v.attrs.get("ID") if isinstance(v, Obj) else str(v) for v in me.attrs["_stateList"]]
    lims = [tuple(l) if isinstance(l, (list, tuple)) else l for l in (me.attrs.get("_state_lims") or [])]
    got = list(zip(names, lims)) + [(x, "no limit at all") for x in names[len(lims):]] + [("(no state)", l) for l in lims[len(names):]]
    return kind, out, got


def _check_alignment(repo, res):
    """declaration -> constructor routine -> real state_list setter: every state, also one a range-style name expands to and one
    added after construction, has its own declaration's limits at its own index"""
    import re as _re
    from ..core.algebra import Undecided
    f = repo.func(M.M_BASE, "BaseOdeModel._add_list_attr_with_limits")
    D = (0, None)
    cases = [
        ("plain", [("a", (1, 5)), "b", ("c", (None, 7))], None),
        ("range-style name first", ["y1:3", ("b", (0, 5))], None),
        ("range-style name with limits", [("y1:4", (2, 9)), "b"], None),
        ("range-style name in the middle", [("a", (1, 5)), "y1:3", ("c", (None, 7))], None),
        ("range-style string", "y1:4", None),
        ("state added later", [("a", (1, 5)), ("b", (None, 7))], ["r"]),
        ("states added later as a string", [("a", (1, 5))], "r"),
        ("range-style states added later", [("a", (1, 5)), "b"], ["z1:3"]),
        ("added later to a range-style model", ["y1:3", ("b", (0, 5))], ["r", "q"]),
    ]
    problems, n = [], 0
    for label, decl, late in cases:
        try:
            kind, out, got = _run_decl(repo, decl, late)
        except Undecided as e:
            res.undecided("R-DEFAULT", f, "limits-follow-states", "outside the modelled subset: %s" % e)
            return
        n += 1
        if kind != "return":
            problems.append("%s: declaration %r is rejected (%s)" % (label, decl, out))
            continue
        want = []
        for it in (_re.split(r"[\s,]+", decl) if isinstance(decl, str) else decl):
            nm, lim = (it, D) if isinstance(it, str) else it
            want += [(x, lim) for x in _expand(nm)]
        for it in ([] if late is None else [late] if isinstance(late, str) else late):
            want += [(x, D) for x in _expand(it)]
        if got != want:
            problems.append("%s: declaration %r%s gives (state, limits) %r, expected %r" % (label, decl, "" if late is None else " then state_list = %r" % (late,), got, want))
    res.check(not problems, "R-DEFAULT", f, "limits-follow-states", "%d model histories (range-style names, states added after construction): the limit list handed to the steppers has one entry per state, "
              "each state's own declared limits at its own index, (0, None) where none is declared" % n, "; ".join(problems[:2]), node=f.node)
    res.floor("limit alignment histories", n, 9)


def _check_defaults(repo, res):
    """names and limits stay aligned, undeclared limits default to (0, None), malformed declarations are rejected"""
    import re as _re
    from ..core.absint import Abs, Obj, Tok, Raised
    from ..core.algebra import Undecided
    f = repo.func(M.M_BASE, "BaseOdeModel._add_list_attr_with_limits")
    base = repo.module(M.M_BASE)
    rx = None
    for st in base.tree.body:
        if isinstance(st, ast.Assign) and isinstance(st.targets[0], ast.Name) and st.targets[0].id == "re_split_string" \
                and isinstance(st.value, ast.Call) and dotted(st.value.func) == "re.compile":
            rx = _re.compile(const_value(st.value.args[0]))
    V = Obj("ODEVariable", ID="v", name="v", __str__="v")
    D = (0, None)
    ok_cases = [
        ("string", "a b,c", ["a", "b", "c"], [D, D, D]),
        ("names", ["a", "b", "c"], ["a", "b", "c"], [D, D, D]),
        ("all declared", [("a", (1, 5)), ("b", (None, 7)), ("c", (2, None))], ["a", "b", "c"], [(1, 5), (None, 7), (2, None)]),
        ("declared first", [("a", (1, 5)), "b", "c"], ["a", "b", "c"], [(1, 5), D, D]),
        ("declared last", ["a", "b", ("c", (1, 5))], ["a", "b", "c"], [D, D, (1, 5)]),
        ("declared in the middle", ["a", ("b", (None, None)), "c", ("d", (3, 9))], ["a", "b", "c", "d"], [D, (None, None), D, (3, 9)]),
        ("variable object", [V, ("b", (1, 2)), "c"], [V, "b", "c"], [D, (1, 2), D]),
        ("single", ["a"], ["a"], [D]),
        ("single declared", [("a", (4, 8))], ["a"], [(4, 8)]),
    ]
    bad_cases = [("triple", [("a", 1, 2)]), ("limits not a tuple", [("a", [0, 1])]), ("limits of length 3", [("a", (0, 1, 2))]),
                 ("empty name", ["a", " "]), ("unnamed tuple", [("", (0, 1))]), ("number", ["a", 3])]
    problems, n = [], 0
    for label, decl, want_names, want_lims in ok_cases:
        try:
            kind, out, got = _run_decl(repo, decl)
        except Undecided as e:
            res.undecided("R-DEFAULT", f, "declarations", "outside the modelled subset: %s" % e)
            return
        n += 1
        want = list(zip([w if isinstance(w, str) else "v" for w in want_names], want_lims))
        if kind != "return":
            problems.append("%s declaration %r is rejected (%s)" % (label, decl, out))
        elif got != want:
            problems.append("%s declaration %r gives (state, limits) %r, expected %r" % (label, decl, got, want))
    for label, decl in bad_cases:
        try:
            kind, out, got = _run_decl(repo, decl)
        except Undecided as e:
            res.undecided("R-DEFAULT", f, "declarations", "outside the modelled subset: %s" % e)
            return
        n += 1
        if kind != "raise":
            problems.append("malformed declaration (%s) %r is accepted: (state, limits) %r" % (label, decl, got))
    res.check(not problems, "R-DEFAULT", f, "declarations", "%d declaration forms: one limit pair per state in the state's own position, (0, None) where none is declared, malformed entries rejected" % n,
              "; ".join(problems[:2]), node=f.node)
    res.floor("limit declaration forms", n, 15)
