"""C18 - fit stays inside the box and never returns something worse than its start.

Only the repo-owned wiring into scipy.optimize.minimize is decided; feasibility and
monotone descent are properties of L-BFGS-B / SLSQP and are trusted.

 S1 R-LAYOUT  box_bounds row i == (lb[i], ub[i]) (abstract execution of the packing
              expression with numpy's reshape/append/stack semantics on token lists)
 S2 R-WIRE    minimize(fun=self.cost, jac=self.sensitivity, x0=<caller's x>,
              bounds=box_bounds, method in {L-BFGS-B, SLSQP}, constraints=...); objective and
              gradient belong to the same object; result 'x' is returned; the length
              checks reject mismatched bounds
"""
import ast

from ..core.source import AnalysisError, norm, dotted, is_self_attr, walk_no_nested, const_value, kwarg
from ..core.absint import Abs, Obj, Tok, AList, Raised
from ..core.algebra import Undecided
from ..rules import model as M

TECHNIQUE = ("static analysis: abstract execution of BaseLoss.fit up to the optimiser call with numpy packing semantics "
             "on token lists (R-LAYOUT) and inspection of the recorded minimize() arguments (R-WIRE)")


from ..core.numarr import NumArr, num_summaries


def Arr(items, tag="ndarray", **extra):
    return NumArr(items)


def np_summaries(record):
    """numpy on concrete small arrays (core/numarr.py: values, dtype and casting as documented) plus a recording minimize"""
    def minimize(*args, **kw):
        names = ["fun", "x0", "args", "method", "jac", "hess", "hessp", "bounds", "constraints", "tol", "callback", "options"]
        b = dict(zip(names, args))
        b.update(kw)
        record.append(b)
        return {"x": Tok("xhat"), "fun": 1.5, "jac": NumArr([0.0, 0.0, 0.0]), "success": True, "status": 0, "message": "ok", "nit": 3, "nfev": 4}
    import math as _m
    num = lambda f: (lambda v: f(v) if isinstance(v, (int, float)) and not isinstance(v, bool) else (_ for _ in ()).throw(Undecided("numeric predicate on %r" % (v,))))
    s = dict(num_summaries())
    s.pop("max", None)
    s.pop("min", None)
    base_isfinite, base_isinf = s.get("np.isfinite"), s.get("np.isinf")
    s.update({"np.isfinite": lambda v: base_isfinite(v) if isinstance(v, NumArr) else num(_m.isfinite)(v),
              "np.isinf": lambda v: base_isinf(v) if isinstance(v, NumArr) else num(_m.isinf)(v),
              "np.isnan": num(_m.isnan), "math.isfinite": num(_m.isfinite),
              "minimize": minimize, "scipy.optimize.minimize": minimize, "zip": None})
    return s


def _rows(bounds):
    if isinstance(bounds, NumArr):
        return [list(r) if isinstance(r, NumArr) else r for r in bounds.data]
    if isinstance(bounds, (list, tuple)):
        return [list(r) for r in bounds]
    return None


def _check_objective(repo, res, f):
    """what the optimiser is given to minimise, probed by value: with the loss object's cost a known function (positive, negative or tiny
    at the start) the recorded `fun` must order parameter vectors as the cost does and `jac` must be the gradient of `fun` - an optimiser
    that descends `fun` then descends the cost (the repo-owned half of "never returns something worse than its start")"""
    target = [1.0, 2.0, 3.0]
    x0 = [1.5, 2.5, 2.0]
    problems, n = [], 0
    for label, offset, scale_ in (("positive cost at the start", 4.0, 1.0), ("negative cost at the start (a log-likelihood)", -60.0, 1.0), ("tiny cost at the start", 0.0, 1e-9),
                                  ("zero cost at the start", 0.0, 0.0)):
        def cost_of(th, _o=offset, _s=scale_):
            v = [float(t) for t in (th.tolist() if isinstance(th, NumArr) else th)]
            base = sum((a - b) ** 2 for a, b in zip(v, target))
            if _s == 0.0:
                base = base - sum((a - b) ** 2 for a, b in zip(x0, target))      # exactly 0 at the start, positive / negative elsewhere
                return base
            return _o + base * (_s if _s != 1.0 else 1.0)

        def grad_of(th, _s=scale_):
            v = [float(t) for t in (th.tolist() if isinstance(th, NumArr) else th)]
            k = 1.0 if _s in (0.0, 1.0) else _s
            return NumArr([2 * k * (a - b) for a, b in zip(v, target)])
        rec = []
        summ = np_summaries(rec)
        summ.pop("zip")
        summ.update({"Loss.cost": lambda me_, theta=None, *a, **k: cost_of(theta if theta is not None else x0),
                     "Loss.sensitivity": lambda me_, theta=None, *a, **k: grad_of(theta if theta is not None else x0),
                     "Loss.gradient": lambda me_, theta=None, *a, **k: grad_of(theta if theta is not None else x0),
                     "Loss.thetaCallBack": lambda me_, *a, **k: None})
        me = Obj("Loss")
        ab = Abs({}, {"np.ndarray": lambda v: isinstance(v, NumArr)}, summ, me)
        try:
            kind, out = ab.run_function(f.node, {"x": list(x0), "lb": [0.0, 0.0, 0.0], "ub": [5.0, 5.0, 5.0], "A": None, "b": None, "disp": False, "full_output": False})
            if kind != "return" or len(rec) != 1:
                problems.append("%s: fit %s and calls the optimiser %d time(s) (%s)" % (label, kind, len(rec), out if kind != "return" else ""))
                n += 1
                continue
            fun, jac = rec[0].get("fun"), rec[0].get("jac")
            probes = [[1.0, 2.0, 3.0], [1.2, 2.1, 2.9], [1.5, 2.5, 2.0], [3.0, 0.5, 4.5]]
            fv = [ab.apply(fun, [NumArr(list(p))], {}) for p in probes]
            jv = [ab.apply(jac, [NumArr(list(p))], {}) for p in probes] if jac not in (None, True, False) else None
        except Undecided as e:
            res.undecided("R-WIRE", f, "objective", "outside the modelled subset (%s): %s" % (label, e))
            return
        except Raised as r:
            problems.append("%s: evaluating what the optimiser was given raises %s" % (label, r.exc))
            n += 1
            continue
        n += 1
        cv = [cost_of(p) for p in probes]
        if not all(isinstance(v, (int, float)) and not isinstance(v, bool) and v == v for v in fv):
            problems.append("%s: the objective handed to the optimiser returns %r" % (label, fv))
            continue
        # same order as the cost (strictly, on probes with distinct costs)
        bad_order = [(i, j) for i in range(len(probes)) for j in range(len(probes)) if cv[i] < cv[j] - 1e-12 and not fv[i] < fv[j]]
        if bad_order:
            i, j = bad_order[0]
            problems.append("%s: cost(%s) = %.6g < cost(%s) = %.6g but the objective handed to the optimiser gives %.6g and %.6g - minimising it does not minimise the cost"
                            % (label, probes[i], cv[i], probes[j], cv[j], fv[i], fv[j]))
            continue
        if jv is not None:
            # jac is the gradient of fun: fun = s*cost + c with s > 0 on these probes, so jac = s*grad
            s_ = (fv[3] - fv[0]) / (cv[3] - cv[0])
            for p, g in zip(probes, jv):
                gl = g.tolist() if isinstance(g, NumArr) else g
                want = [s_ * v for v in grad_of(p).tolist()]
                if not (isinstance(gl, list) and len(gl) == 3 and all(abs(a - b) <= 1e-9 * max(1.0, abs(b)) for a, b in zip(gl, want))):
                    problems.append("%s: the gradient handed to the optimiser at %s is %s, the gradient of its objective is %s" % (label, p, gl, want))
                    break
    res.check(not problems, "R-WIRE", f, "objective", "%d cost landscapes (positive, negative, tiny, zero at the start): the objective handed to the optimiser orders parameter vectors as the "
              "cost does and its gradient is the gradient of that objective" % n, "; ".join(problems[:2]), node=f.node)


def _vec(v):
    """a start vector as a plain list, whether the routine kept it as a list or made an array of it"""
    return v.tolist() if isinstance(v, NumArr) else (list(v) if isinstance(v, (list, tuple)) else v)


def check(repo, res, tier):
    res.rule("R-LAYOUT", "box_bounds row i = (lb[i], ub[i])")
    res.rule("R-WIRE", "minimize receives cost, sensitivity of the same object, the caller's start, the bounds, a bounded method")
    res.s_clauses = ["S1 R-LAYOUT", "S2 R-WIRE"]
    res.n_clauses = ["that L-BFGS-B / SLSQP return a feasible point no worse than the start (scipy)",
                     "that fit started at the generating parameters returns them (optimiser + solver numerics)",
                     "the A/b linear-constraint branch (np.ndarray(A) is broken on this tree; outside the property's quantifier: box bounds only)"]
    f = repo.func(M.M_LOSS, "BaseLoss.fit")
    n = 3
    # distinct numbers play the role of symbols here, so that code which inspects the bounds
    # (None / finiteness tests) can still be interpreted
    x = [10.0 + i for i in range(n)]
    lb = [1.0 + i for i in range(n)]
    ub = [4.0 + i for i in range(n)]

    def run(args):
        rec = []
        summ = np_summaries(rec)
        summ.pop("zip")
        # the loss object's own routines are numbers here (their wiring into the optimiser is decided by value in _check_objective)
        summ.update({"Loss.cost": lambda me_, theta=None, *a_, **k_: 2.5, "Loss.sensitivity": lambda me_, theta=None, *a_, **k_: NumArr([0.5, -0.25, 0.125]),
                     "Loss.gradient": lambda me_, theta=None, *a_, **k_: NumArr([0.5, -0.25, 0.125]), "Loss.thetaCallBack": lambda me_, *a_, **k_: None})
        me = Obj("Loss", __open__=True)
        ab = Abs({}, {"np.ndarray": lambda v: isinstance(v, NumArr)}, summ, me)
        a = {"x": list(x), "lb": None, "ub": None, "A": None, "b": None, "disp": False, "full_output": False}
        a.update(args)
        try:
            kind, out = ab.run_function(f.node, a)
        except Undecided as e:
            return "undecided", str(e), rec
        return kind, out, rec
    kind, out, rec = run({"lb": list(lb), "ub": list(ub)})
    if kind == "undecided":
        res.undecided("R-LAYOUT", f, "abstract-execution", "BaseLoss.fit is outside the modelled subset: %s" % out)
        return
    if kind != "return" or len(rec) != 1:
        res.violated("R-WIRE", f, "calls-minimize", "fit with box bounds %s and calls minimize %d time(s)" % (kind, len(rec)), node=f.node)
        return
    call = rec[0]
    bounds = call.get("bounds")
    rows = _rows(bounds)
    want = [[lb[i], ub[i]] for i in range(n)]
    res.check(rows == want, "R-LAYOUT", f, "box-bounds", "bounds row i is (lb[i], ub[i])",
              "for lb=%s ub=%s the bounds handed to the optimiser are %s: lower and upper limits are paired with the wrong variables" % (lb, ub, rows), node=f.node)
    _check_objective(repo, res, f)
    res.check(_vec(call.get("x0")) == list(x), "R-WIRE", f, "start", "the optimiser starts at the caller's x", "x0=%r" % (call.get("x0"),), node=f.node)
    res.check(call.get("method") in ("L-BFGS-B",), "R-WIRE", f, "method(box)", "box-constrained fit uses L-BFGS-B", "method=%r for a box-constrained fit" % (call.get("method"),), node=f.node)
    res.check(out == Tok("xhat"), "R-WIRE", f, "returns-x", "fit returns the optimiser's x", "fit returns %r" % (out,), node=f.node)
    kind2, out2, rec2 = run({"lb": list(lb), "ub": list(ub), "full_output": True})
    res.check(kind2 == "return" and isinstance(out2, tuple) and out2[0] == Tok("xhat"), "R-WIRE", f, "returns-x(full)", "full_output returns (x, result)",
              "fit(full_output=True) returns %r" % (out2,), node=f.node)
    # mismatched lengths are rejected
    for tag, a in (("lb-shorter", {"lb": lb[:2], "ub": list(ub)}), ("bounds-vs-x", {"lb": lb[:2], "ub": ub[:2]})):
        k, o, r = run(a)
        res.check(k == "raise" and not r, "R-WIRE", f, "rejects(%s)" % tag, "mismatched bound lengths are rejected before optimising",
                  "fit with %s %s (minimize called %d times)" % (tag, k, len(r)), node=f.node)
    # no bounds: every variable gets (None, None)
    k, o, r = run({})
    ok = k == "return" and len(r) == 1 and _rows(r[0].get("bounds")) == [[None, None]] * n
    res.check(ok, "R-LAYOUT", f, "unbounded", "without bounds every variable gets (None, None)",
              "without bounds the optimiser receives %s" % (r[0].get("bounds") if r else k,), node=f.node)
    # one-sided
    k, o, r = run({"lb": list(lb)})
    ok = k == "return" and len(r) == 1 and _rows(r[0].get("bounds")) == [[lb[i], None] for i in range(n)]
    res.check(ok, "R-LAYOUT", f, "lower-only", "lower bounds only: rows (lb[i], None)", "lower bounds only -> %s" % (r[0].get("bounds") if r else k,), node=f.node)
    k, o, r = run({"ub": list(ub)})
    ok = k == "return" and len(r) == 1 and _rows(r[0].get("bounds")) == [[None, ub[i]] for i in range(n)]
    res.check(ok, "R-LAYOUT", f, "upper-only", "upper bounds only: rows (None, ub[i])", "upper bounds only (ub=%s) -> %s: the given limits are not the upper ends of the box"
              % (ub, _rows(r[0].get("bounds")) if r else k,), node=f.node)
    # every one-sided / two-sided form for arrays as well as lists, and the start handed over unchanged
    for tag, a in (("upper-only(array)", {"ub": NumArr(list(ub))}), ("lower-only(array)", {"lb": NumArr(list(lb))}), ("both(array)", {"lb": NumArr(list(lb)), "ub": NumArr(list(ub))}),
                   ("both(tuple)", {"lb": tuple(lb), "ub": tuple(ub)})):
        k, o, r = run(a)
        if k == "undecided":
            res.undecided("R-LAYOUT", f, tag, "outside the modelled subset: %s" % o)
            continue
        wantb = [[lb[i] if "lb" in a else None, ub[i] if "ub" in a else None] for i in range(n)]
        ok = k == "return" and len(r) == 1 and _rows(r[0].get("bounds")) == wantb and _vec(r[0].get("x0")) == list(x)
        res.check(ok, "R-LAYOUT", f, tag, "rows (lb[i] or None, ub[i] or None); start unchanged", "%s -> bounds %s, start %s" % (tag, _rows(r[0].get("bounds")) if r else k, r[0].get("x0") if r else None), node=f.node)
    # concrete bounds, including the values a guard is most likely to mishandle: 0, negative, infinite
    inf = float("inf")
    lbn, ubn = [0.0, 1.5, -2.0], [0.0, 3.0, inf]
    k, o, r = run({"lb": list(lbn), "ub": list(ubn)})
    if k == "undecided":
        res.undecided("R-LAYOUT", f, "numeric-bounds", "outside the modelled subset: %s" % o)
    else:
        def norm_row(row, i):
            lo, hi = row
            lo = -inf if lo is None else lo
            hi = inf if hi is None else hi
            return (lo, hi)
        got = [norm_row(list(rr), i) for i, rr in enumerate(_rows(r[0].get("bounds")))] if (k == "return" and len(r) == 1 and _rows(r[0].get("bounds")) is not None) else None
        want = [(lbn[i], ubn[i]) for i in range(n)]
        res.check(got == want, "R-LAYOUT", f, "numeric-bounds",
                  "bounds (0, 0), (1.5, 3), (-2, inf) reach the optimiser unchanged (an infinite side may be passed as None)",
                  "for lb=%s ub=%s the optimiser receives %s: a bound is dropped or altered (a zero bound is a bound)" % (lbn, ubn, r[0].get("bounds") if r else k), node=f.node)
    # bounds of mixed numeric type: integer lower bounds with fractional upper bounds (and the reverse) reach the optimiser unchanged
    for tag, lbm, ubm in (("int-lower/float-upper", [0, 0, 1], [0.9, 1.75, 2.5]), ("float-lower/int-upper", [0.25, 0.5, 1.5], [1, 2, 3])):
        k, o, r = run({"lb": list(lbm), "ub": list(ubm)})
        if k == "undecided":
            res.undecided("R-LAYOUT", f, "mixed-type-bounds(%s)" % tag, "outside the modelled subset: %s" % o)
            continue
        got = _rows(r[0].get("bounds")) if (k == "return" and len(r) == 1) else None
        want_m = [[lbm[i], ubm[i]] for i in range(n)]
        def _eq(a, b):
            return isinstance(a, (int, float)) and not isinstance(a, bool) and abs(a - b) < 1e-12
        res.check(got is not None and len(got) == n and all(len(ra) == 2 and _eq(ra[0], rb[0]) and _eq(ra[1], rb[1]) for ra, rb in zip(got, want_m)), "R-LAYOUT", f, "mixed-type-bounds(%s)" % tag,
                  "bounds %s / %s reach the optimiser with their values" % (lbm, ubm),
                  "for lb=%s ub=%s the optimiser receives %s: a bound is cast to the other's type and loses its fractional part" % (lbm, ubm, got if got is not None else k), node=f.node)
    # sensitivity and cost are methods of the same class with theta as first argument
    cls = repo.cls(M.M_LOSS, "BaseLoss")
    for m in ("cost", "sensitivity"):
        g = cls.methods.get(m)
        res.check(g is not None and g.params[1] == "theta", "R-WIRE", g or f, "signature(%s)" % m, "%s(theta, ...) takes the optimisation variable first" % m,
                  "%s does not take theta as its first argument" % m)
    # upstream of the objective: the constructor keeps names, indices and data columns in the caller's order (shared with C06)
    from . import C06
    res.rule("R-KV", "the objective fit minimises is built from names / data columns stored in the caller's order")
    n_ok = C06._ctor(repo, res, cls)
    res.floor("constructor cases interpreted", n_ok, 11)
