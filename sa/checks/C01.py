"""C01 - a model definition is assembled into exactly the equations it describes.

 S1-S3 R-EFFECT     the seven symbolic builders, interpreted on enumerated model definitions (rules/buildx.py), return entry by
                    entry what the property defines: V[i,e] = signed magnitudes, rates[e], ode = V*rates + explicit terms
       R-EVENTLIST  every legacy route (add_transition / add_birth_death / add_event) stores the event the builders then read
 S4 R-ARGORDER      symbol order = value order = (states, t, parameters); parameter values placed by name
 S5 R-DERIVED       derived parameters are substituted for all of them, stored substituted
 S6 R-SHAPE         state-change matrix registered as a matrix; output shaping closures flatten ('vec') or pass through ('mat')
"""
import ast

from ..core.source import AnalysisError, norm, dotted, is_self_attr, walk_no_nested, kwarg, const_value
from ..core.cfg import cfg_of
from ..core.dataflow import dataflow_of
from ..core import algebra as A
from ..rules import model as M
from ..rules import common as C
from ..rules import effects as E
from ..rules.shape import check_shapes

TECHNIQUE = ("static analysis: abstract interpretation of the builders and the legacy routes on enumerated model definitions, "
             "polynomial identity with the property's matrices; interpretation of the argument assembly; shape inference")


def _tables_binding(ce, tables):
    """how the (private) table helper's result reaches checkEquation: a pair is spread over the second and third parameter, a
    mapping is spread by name - whichever convention the package uses between the two"""
    if isinstance(tables, tuple) and len(tables) == 2 and not hasattr(tables, "_fields"):
        return {ce.params[1]: tables[0], ce.params[2]: tables[1]}
    if isinstance(tables, dict) and tables and set(tables) <= set(ce.params[1:]):
        return dict(tables)
    if hasattr(tables, "_fields") and set(tables._fields) <= set(ce.params[1:]):
        return dict(zip(tables._fields, tables))
    return None


def check(repo, res, tier):
    res.rule("R-EFFECT", "each builder, interpreted on enumerated model definitions (1..3 B/D/T members per event, shared states, symbolic magnitudes, "
             "explicit terms, one-state / one-event shapes), returns entry by entry what the property defines: V[i,e] = signed magnitudes, rates[e] = rate of event e, "
             "ode = V*rates + explicit terms (polynomial identities in the rate and magnitude symbols)")
    res.rule("R-ARGORDER", "symbols and values are both ordered (states, t, parameters); values placed by name")
    res.rule("R-DERIVED", "derived parameters substituted for every entry and stored in substituted form")
    res.rule("R-SHAPE", "matrix evaluators registered as matrices; shaping closures ravel / pass through")
    res.s_clauses = ["S1-S3 R-EFFECT (values, enumeration, accumulation)", "S4 R-ARGORDER", "S5 R-DERIVED", "S6 R-SHAPE"]
    res.n_clauses = ["that sympy parses a string to the intended expression (incl. range-style symbol expansion)",
                     "that autowrap/lambdify code evaluates the expression it was given (both back-ends)",
                     "numerical equality at sampled points (x, t, theta)"]
    cls = M.sim_class(repo)
    # S1-S3: every builder, interpreted on enumerated model definitions, returns exactly the matrices the property defines
    from ..rules import buildx as BX
    nb = BX.check_builders(repo, res, ["get_StateChangeMatrix", "get_EventRateVector", "get_ode_eqn", "get_pureOdeVector",
                                       "get_BirthDeathVector", "get_TransitionMatrix", "get_ReactantMatrix"])
    res.floor("builder interpretations", nb, 60)
    # the event list the builders read: every process entered through a legacy list becomes an event with the same rate, type, states and magnitude
    res.rule("R-EVENTLIST", "a process handed to add_transition / add_birth_death / add_event is stored as one event carrying its rate and a member with "
             "its type, origin, destination and magnitude (what the builders then read)")
    from . import C12 as _C12
    _C12._check_routes(repo, res, rule="R-EVENTLIST")

    # ------------------------------------------------------------- S4 R-ARGORDER
    _check_argorder(repo, res, cls)

    # --------------------------------------------------------------- S5 R-DERIVED
    _check_derived(repo, res, cls)
    res.rule("R-NAMESPACE", "the namespace in which equations are parsed contains no helper name that can shadow a model symbol")
    _check_namespace(repo, res)

    # ----------------------------------------------------------------- S6 R-SHAPE
    check_shapes(repo, res, {"vMat", "ode", "eventRateVector", "pureOdeVector"},
                 {"vMat": "one-event or one-state models: firstReaction indexes state_change_mat[:, idx]"})
    check_closures(repo, res)


def _check_argorder(repo, res, cls):
    """symbols and values share the order (states, t, parameters): set_sp, _getEvalParam, the value list of the parameters setter and the
    compile back-ends are interpreted on an abstract model; only the resulting lists / recorded calls are compared"""
    from ..core.absint import Abs, Obj, Tok, Raised
    from ..core.algebra import Undecided
    from ..core.numarr import NumArr
    from . import C09
    states, params = ["S", "I", "R"], ["beta", "gamma"]

    def model():
        me = Obj("Model")
        me.attrs["_stateList"] = [C09.var(n) for n in states]
        me.attrs["_paramList"] = [C09.var(n) for n in params]
        me.attrs["_stateDict"] = {n: Tok(n, "sym") for n in states}
        me.attrs["_paramDict"] = {n: Tok(n, "sym") for n in params}
        me.attrs["_t"] = Tok("t", "sym")
        return me
    # ---- set_sp
    sp = repo.resolve_method(cls, "set_sp")
    if sp is None:
        raise AnalysisError("set_sp vanished")
    me = model()
    try:
        ab = Abs({}, dict(C09.TYPES), {}, me, {}, eq=C09.eq_hook)
        ab.class_methods = set(repo.all_methods(cls))
        kind, out = ab.run_function(sp.node, {})
        got = me.attrs.get("_sp")
        want = [Tok(n, "sym") for n in states] + [Tok("t", "sym")] + [Tok(n, "sym") for n in params]
        res.check(kind == "return" and isinstance(got, list) and got == want, "R-ARGORDER", sp, "symbols",
                  "the compile-time symbol list is (state symbols, t, parameter symbols) in declaration order",
                  "for states %s and parameters %s set_sp builds %s, expected the sympy symbols %s" % (states, params, got if kind == "return" else "raises %s" % out, want), node=sp.node)
    except Undecided as e:
        res.undecided("R-ARGORDER", sp, "symbols", "outside the modelled subset: %s" % e)
    # ---- _getEvalParam
    ge = repo.resolve_method(cls, "_getEvalParam")
    if ge is None:
        raise AnalysisError("_getEvalParam vanished")
    n_forms = 0
    bad = []
    for label, st in (("list", [1.5, 2.5, 3.5]), ("tuple", (1.5, 2.5, 3.5)), ("array", NumArr([1.5, 2.5, 3.5])), ("scalar", 7.5)):
        me = model()
        me.attrs.update(_parameters={"beta": 0.25, "gamma": 0.125}, _paramValue=[0.25, 0.125])
        try:
            ab = Abs({}, dict(C09.TYPES), {}, me, dict(C09.GETTERS), eq=C09.eq_hook)
            ab.class_methods = set(repo.all_methods(cls))
            kind, out = ab.run_function(ge.node, dict(zip(ge.params[1:], [st.copy() if isinstance(st, NumArr) else st, 9.0, None])))
        except Undecided as e:
            res.undecided("R-ARGORDER", ge, "values", "outside the modelled subset: %s" % e)
            bad = None
            break
        n_forms += 1
        want = ([7.5] if label == "scalar" else [1.5, 2.5, 3.5]) + [9.0, 0.25, 0.125]
        got = out.tolist() if isinstance(out, NumArr) else (list(out) if isinstance(out, (list, tuple)) else out)
        if kind != "return" or got != want:
            bad.append("state given as %s: evaluation arguments %s, the compiled function expects (states, t, parameter values) = %s" % (label, got if kind == "return" else "raise %s" % out, want))
    if bad is not None:
        res.check(not bad, "R-ARGORDER", ge, "values", "evaluation arguments are (state values, time, parameter values) for list / tuple / array / scalar states",
                  "; ".join(bad[:2]), node=ge.node)
        res.floor("_getEvalParam value forms", n_forms, 4)
    # ---- values placed by name (decided on all input forms by C09's enumeration; here: the one fact C01 needs)
    ps = repo.resolve_setter(cls, "parameters")
    me = C09.model(C09.NAMES)
    try:
        kind, out = C09.run_setter(ps, me, {"c": 3.75, "a": 1.25, "b": 2.5}, C09.NAMES)
        res.check(kind == "return" and list(me.attrs.get("_paramValue") or []) == [1.25, 2.5, 3.75], "R-ARGORDER", ps, "values-by-name",
                  "the value list read by the evaluators holds each value at the index of its own parameter",
                  "a dict given in the order c, a, b yields the value list %s" % (me.attrs.get("_paramValue"),), node=ps.node)
    except Undecided as e:
        res.undecided("R-ARGORDER", ps, "values-by-name", "outside the modelled subset: %s" % e)
    # ---- compile back-ends: whichever back-end finally succeeds was given (expr = the expression, args = the symbols)
    ce = repo.func(M.M_UTILS, "compileCode.compileExpr")
    n_be, bad = 0, []
    EXPR, SYMB = Tok("the-expression"), Tok("the-symbols")
    for backend in (None, "f2py", "lambda", "cython", "Cython", "np"):
        for fail_first in (0, 1, 2, 3):
            calls = []

            def autowrap(expr=None, language=None, backend="f2py", tempdir=None, args=None, flags=None, verbose=False, helpers=None, **k):
                calls.append(("autowrap", expr, args))
                if len(calls) <= fail_first:
                    raise Raised("CodeWrapError")
                return ("compiled", len(calls))

            def lambdify(args=None, expr=None, modules=None, **k):
                calls.append(("lambdify", expr, args))
                if len(calls) <= fail_first:
                    raise Raised("LambdifyError")
                return ("compiled", len(calls))
            me = Obj("compileCode", _backend="cython")
            try:
                ab = Abs({}, {}, {"autowrap": autowrap, "lambdify": lambdify, "print": lambda *a, **k: None}, me, {})
                _cc = repo.cls(M.M_UTILS, "compileCode")
                ab.class_methods = set(_cc.methods) | set(_cc.getters)       # helpers of the class are interpreted from their source
                ab.self_class = (repo, _cc)
                ab.module = ce.module
                kind, out = ab.run_function(ce.node, {ce.params[1]: SYMB, ce.params[2]: EXPR, "backend": backend, "compileType": True})
            except Undecided as e:
                res.undecided("R-ARGORDER", ce, "backends", "outside the modelled subset: %s" % e)
                bad = None
                break
            if kind != "return":
                continue        # every back-end failed in this scenario: an error is the right outcome
            n_be += 1
            fn = out[0] if isinstance(out, tuple) else out
            if not (isinstance(fn, tuple) and fn and fn[0] == "compiled"):
                bad.append("backend=%r with the first %d attempt(s) failing: returns %r" % (backend, fail_first, fn))
                continue
            used = calls[fn[1] - 1]
            if used[1] != EXPR or used[2] != SYMB:
                bad.append("backend=%r with the first %d attempt(s) failing: %s was given expr=%r args=%r" % (backend, fail_first, used[0], used[1], used[2]))
        if bad is None:
            break
    if bad is not None:
        res.check(not bad, "R-ARGORDER", ce, "backends", "whichever back-end compiles (%d scenarios with 0..3 failing attempts), it receives the expression as expr and the symbol list as args" % n_be,
                  "; ".join(bad[:2]), node=ce.node)
        res.floor("compile back-end scenarios", n_be, 12)


def _check_namespace(repo, res):
    """checkEquation creates the model's symbols with exec() in its own local namespace and parses with
    parse_expr(..., locals()); any ordinary local of the function shadows a model symbol of the same name.
    The function's own convention (docstring): every helper name starts with an underscore."""
    ce = repo.func(M.M_VERIF, "checkEquation")
    uses_locals = any(isinstance(n, ast.Call) and dotted(n.func) in ("locals", "exec", "eval") for n in ast.walk(ce.node))
    if not uses_locals:
        res.holds("R-NAMESPACE", ce, "no-shared-namespace", "checkEquation no longer evaluates in its own local namespace")
        return
    allowed = set(ce.params) | {"list_out"}
    df = dataflow_of(ce)
    names = {}
    for d in df.defs:
        if d.kind in ("assign", "for", "aug", "with", "except", "import", "def") and not d.name.startswith("_") and d.name not in allowed:
            names.setdefault(d.name, d)
    # comprehension variables live in their own scope in python 3.12 only when not inlined; be conservative and include them
    for n in ast.walk(ce.node):
        if isinstance(n, (ast.ListComp, ast.GeneratorExp, ast.SetComp, ast.DictComp)):
            for g in n.generators:
                for t in ast.walk(g.target):
                    if isinstance(t, ast.Name) and not t.id.startswith("_") and t.id not in allowed:
                        names.setdefault(t.id, None)
    for nm, d in sorted(names.items()):
        res.violated("R-NAMESPACE", ce, "local(%s)" % nm,
                     "checkEquation binds the ordinary local name `%s`; the model's symbols are created in the same local namespace and parsed "
                     "with locals(), so a state or parameter called `%s` is silently replaced by this helper value in every equation" % (nm, nm),
                     node=d.stmt if d is not None else ce.node)
    if not names:
        res.holds("R-NAMESPACE", ce, "underscore-locals", "all helper locals of checkEquation start with an underscore (allowed: %s)" % sorted(allowed))


def _check_derived(repo, res, cls):
    """derived parameters, by interpretation: a model object with states, parameters and a vector state gets derived parameters through
    the real `_addDerivedParam` (-> checkEquation, whose exec / parse / eval of formatted source text is interpreted), then equations
    are parsed through the real `_getListOfVariablesDict` + `checkEquation`.  Every result is compared, as a polynomial identity, with
    the equation in which every derived parameter is replaced by its definition in base parameters."""
    from ..core.absint import Abs, Obj, Tok, Raised
    ce = repo.func(M.M_VERIF, "checkEquation")
    ad = repo.resolve_method(cls, "_addDerivedParam")
    if ad is None:
        raise AnalysisError("_addDerivedParam vanished")
    a, b, c, S, I = (A.sym(x) for x in ("a", "b", "c", "S", "I"))
    y1, y2 = A.sym("y1"), A.sym("y2")

    def world():
        me = Obj("Model", _paramDict={"a": a, "b": b, "c": c, "t": A.sym("t")}, _stateDict={"S": S, "I": I, "y1": y1, "y2": y2}, _vectorStateDict={"y": (y1, y2)},
                 _derivedParamDict={}, _derivedParamList=[], _derivedParamEqn=[], _paramList=[], _stateList=[])
        me.attrs["_hasNewTransition"] = Obj("Canary")

        def symbols(names, **k):
            parts = [x.strip() for x in names.replace(",", " ").split() if x.strip()]
            vals = tuple(A.sym(x) for x in parts)
            return vals[0] if len(vals) == 1 and "," not in names else vals

        def parse_expr(text, local_dict=None, **k):
            sub = Abs(dict(local_dict or {}), {}, summ, None)
            return sub._run_source(text, "eval")
        summ = {"symbols": symbols, "sympy.symbols": symbols, "parse_expr": parse_expr, "Canary.trip": lambda c_: None,
                "ODEVariable": lambda ID, name=None, *a_, **k: Obj("ODEVariable", ID=ID, name=name if name is not None else ID, __str__=ID)}
        types = {"Expr": lambda v: type(v).__name__ == "Rat", "sympy.Expr": lambda v: type(v).__name__ == "Rat", "ODEVariable": lambda v: isinstance(v, Obj) and v.cls == "ODEVariable"}

        def fresh():
            ab = Abs({}, types, summ, me)
            ab.class_methods = set(repo.all_methods(cls))
            ab.self_class = (repo, cls)
            return ab
        return me, fresh
    truth = {"d": a * b, "e": a * b + a, "f": (a * b + a) * c + a * b}          # definitions in base parameters
    defs = [("d", "a*b"), ("e", "d + a"), ("f", "e*c + d")]
    cases = [("one derived parameter", "d*S + b*I", a * b * S + b * I),
             ("two derived parameters in one term", "d*e*S", (a * b) * (a * b + a) * S),
             ("a derived parameter defined through derived parameters", "f*I - c", truth["f"] * I - c),
             ("every derived parameter at once, with a vector state", "d*y1 + e*y2 + f*S", truth["d"] * y1 + truth["e"] * y2 + truth["f"] * S),
             ("no derived parameter", "a*S*I", a * S * I)]
    problems, n = [], 0
    try:
        me, fresh = world()
        for name, eqn in defs:
            ab = fresh()
            ab.module = ad.module
            kind, out = ab.run_function(ad.node, {ad.params[1]: name, ad.params[2]: eqn})
            if kind != "return":
                problems.append("declaring the derived parameter %s = %s raises %s" % (name, eqn, out))
                break
        if not problems:
            stored = me.attrs["_derivedParamDict"]
            for name, _ in defs:
                got = stored.get(name)
                n += 1
                if not (type(got).__name__ == "Rat" and got == truth[name]):
                    problems.append("derived parameter %s (declared as %s) is stored as %r; in base parameters it is %r" % (name, dict(defs)[name], got, truth[name]))
            gl = repo.resolve_method(cls, "_getListOfVariablesDict")
            for label, text, want in cases:
                for form in ("string", "list"):
                    ab = fresh()
                    ab.module = gl.module
                    kind, tables = ab.run_function(gl.node, {})
                    bind = _tables_binding(ce, tables) if kind == "return" else None
                    if bind is None:
                        problems.append("_getListOfVariablesDict gives %r" % (tables,))
                        break
                    ab2 = fresh()
                    ab2.self_obj = None
                    ab2.module = ce.module
                    arg = text if form == "string" else [text, "a + " + text]
                    kind, out = ab2.run_function(ce.node, dict(bind, **{ce.params[0]: arg}))
                    n += 1
                    if kind != "return":
                        problems.append("%s: parsing %r raises %s" % (label, arg, out))
                        continue
                    outs = [out] if form == "string" else list(out) if isinstance(out, (list, tuple)) else [out]
                    wants = [want] if form == "string" else [want, a + want]
                    if len(outs) != len(wants) or any(not (type(g_).__name__ == "Rat" and g_ == w_) for g_, w_ in zip(outs, wants)):
                        problems.append("%s: %r is parsed to %r; with every derived parameter replaced by its definition it is %r" % (label, arg, outs, wants))
            # subs_derived=False leaves the derived symbols alone
            ab2 = fresh()
            ab2.self_obj = None
            ab2.module = ce.module
            ab = fresh()
            ab.module = gl.module
            _, tables = ab.run_function(gl.node, {})
            kind, out = ab2.run_function(ce.node, dict(_tables_binding(ce, tables) or {}, **{ce.params[0]: "d*S", ce.params[3]: False}))
            n += 1
            if not (kind == "return" and type(out).__name__ == "Rat" and out == A.sym("d") * S):
                problems.append("with substitution switched off 'd*S' is parsed to %r" % (out,))
    except A.Undecided as e:
        res.undecided("R-DERIVED", ce, "substituted-everywhere", "outside the modelled subset: %s" % e)
        return
    res.check(not problems, "R-DERIVED", ce, "substituted-everywhere", "%d parses / declarations: every derived parameter (also one defined through others) is replaced by its definition in base "
              "parameters, in single equations and lists, and is stored in that form" % n, "; ".join(problems[:2]), node=ce.node)
    res.floor("derived-parameter interpretations", n, 12)


def check_closures(repo, res):
    """compileExprAndFormat, interpreted for every (expression shape, requested output type, back-end kind): the function it returns
    gives the compiled expression's values flattened for 'vec', with the expression's own 2-d shape for 'mat'; with no type requested
    a vector iff the expression has a single row or column; an explicit type is never overridden; unknown types are rejected"""
    from ..core.absint import Abs, Obj, Raised
    from ..core.algebra import Undecided
    from ..core.numarr import NumArr, num_summaries
    f = repo.func(M.M_UTILS, "compileCode.compileExprAndFormat")
    if "outType" not in f.params:
        raise AnalysisError("compileExprAndFormat lost outType")

    class Expr:
        _abs_native = True

        def __init__(self, r, c):
            self.rows, self.cols, self.shape = r, c, (r, c)

    class SymLike:
        """what a lambdified sympy matrix returns on the non-numpy back-ends: an object with tolist()"""
        _abs_native = True

        def __init__(self, rows):
            self._rows = rows

        def tolist(self):
            return [list(r) for r in self._rows]
    bad, n = [], 0
    shapes = [(3, 1), (1, 3), (2, 3), (3, 3), (1, 1), (2, 1)]
    for (r, c) in shapes:
        for ot in (None, "vec", "Vec", "mat", "MAT", "tensor"):
            for ctype in ("np", "mpmath"):
                def compiled(*x, _r=r, _c=c, _ct=ctype):
                    rows = [[100 * i + 10 * j + x[0] for j in range(_c)] for i in range(_r)]
                    return NumArr(rows) if _ct == "np" else SymLike(rows)

                # the library boundary: sympy's autowrap / lambdify.  On the "np" back-end the compiled code works on numpy arrays; for
                # the "mpmath" one every numpy route fails and lambdify(modules='mpmath') hands back a function returning a sympy-like
                # matrix.  The class's own routines (compileExpr and whatever helpers it has) are interpreted from their source.
                def autowrap_(expr=None, args=None, backend=None, **k):
                    if ctype != "np":
                        raise Raised("CodeWrapError(compilation failed)")
                    return ("py", compiled)

                def lambdify_(args=None, expr=None, modules=None, **k):
                    if ctype != "np" and modules == "numpy":
                        raise Raised("ValueError(cannot be lambdified with numpy)")
                    return ("py", compiled)
                summ = dict(num_summaries())
                summ.update({"autowrap": autowrap_, "lambdify": lambdify_, "sympy.utilities.autowrap.autowrap": autowrap_, "sympy.lambdify": lambdify_,
                             "sympy.utilities.lambdify.lambdify": lambdify_})
                me = Obj("compileCode", _backend="cython")
                ab = Abs({}, {}, summ, me, {}, budget=40000)
                cc_cls = repo.cls(M.M_UTILS, "compileCode")
                ab.class_methods = set(cc_cls.methods) | set(cc_cls.getters)
                ab.self_class = (repo, cc_cls)
                ab.module = f.module
                tag = "shape %dx%d, outType=%r, back-end %s" % (r, c, ot, ctype)
                try:
                    kind, out = ab.run_function(f.node, {"inputSymb": ["s"], "inputExpr": Expr(r, c), "outType": ot})
                    if ot == "tensor":
                        n += 1
                        if kind != "raise":
                            bad.append("%s: an unknown output type is accepted" % tag)
                        continue
                    if kind != "return":
                        bad.append("%s: raises %s" % (tag, out))
                        continue
                    val = ab.apply(out, [[7]], {})
                except Undecided as e:
                    res.undecided("R-SHAPE", f, "closures", "outside the modelled subset: %s" % e)
                    return
                except Raised as e:
                    bad.append("%s: the returned function raises %s" % (tag, e.exc))
                    continue
                n += 1
                want_vec = (ot is None and (r == 1 or c == 1)) or (ot is not None and ot.lower() == "vec")
                rows = [[100 * i + 10 * j + 7 for j in range(c)] for i in range(r)]
                want = [v for row in rows for v in row] if want_vec else rows
                got = val.tolist() if isinstance(val, NumArr) else val
                if got != want:
                    bad.append("%s: the evaluator returns %s, expected %s (%s)" % (tag, got, want, "flattened vector" if want_vec else "matrix with the expression's shape"))
    res.check(not bad, "R-SHAPE", f, "closures", "%d (shape, output type, back-end) cases: 'vec' = values flattened, 'mat' = values in the expression's 2-d shape, "
              "default = vector iff one row or column, explicit type respected, unknown type rejected" % n, "; ".join(bad[:3]), node=f.node)
    res.floor("shaping cases interpreted", n, 60)
