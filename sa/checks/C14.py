"""C14 - loss kernels are the negative log-likelihoods they are named after.

Every kernel method is interpreted into a canonical rational function over atoms
(y, yhat, w, sigma, a, k, log(.), lgamma(.)) - helper calls (residual, dpois, dnbinom ->
nb2pmf, gamma_mu_shape, scipy log-densities) are inlined from their own source or from a
reference table - and compared by polynomial identity:

 S1 R-ALG(value)  loss == - sum of the reference log-density in mean parameterisation
                  (Square: sum of squared weighted residuals)
 S2 R-ALG(d1)     d/dyhat of the unweighted loss element == diff_loss
 S3 R-ALG(d2)     d/dyhat of diff_loss == diff2Loss
 S4 R-SHAPEIN     every kernel method gives the same values for a single-column prediction (n,1) - which is what
                  BaseLoss hands over for one observed state - as for the flat vector (n,), and the derivative
                  methods return one value per observation
"""
import ast

from ..core import algebra as A
from ..core.source import AnalysisError, norm, dotted, is_self_attr, walk_no_nested
from ..rules import model as M
from ..specs import densities as SPEC

TECHNIQUE = ("static analysis: interpretation of the kernels' straight-line numpy code into canonical rational functions "
             "over log/lgamma atoms with helper inlining; polynomial identity against reference log-densities; structural "
             "differentiation for the derivative identities")

KERNELS = ["Square", "Normal", "Gamma", "Poisson", "NegBinom"]


class Inliner:
    def __init__(self, repo, kernel_cls):
        self.repo = repo
        self.kcls = kernel_cls
        self.distn = repo.module(M.M_DISTN)
        self.losstype = repo.module(M.M_LOSSTYPE)
        self.attr = {}
        self.inlined = set()

    def hook(self, dn, call, it):
        # self.method(...) of the kernel (residual)
        if dn and dn.startswith("self.") and dn.count(".") == 1:
            m = self.repo.resolve_method(self.kcls, dn.split(".")[1])
            if m is not None:
                static = any(dotted(d) == "staticmethod" for d in m.node.decorator_list)
                return self.inline(m, call, it, skip_self=not static)
        if dn in self.distn.functions:
            return self.inline(self.distn.functions[dn], call, it)
        if dn in SPEC.SCIPY_LOG or dn in SPEC.SCIPY_PLAIN:
            plain = dn in SPEC.SCIPY_PLAIN
            names, formula = SPEC.SCIPY_LOG[SPEC.SCIPY_PLAIN[dn] if plain else dn]
            env = {"loc": A.Rat.const(0), "scale": A.Rat.const(1)}
            for n_, a in zip(names, call.args):
                env[n_] = it.ev(a)
            for k in call.keywords:
                env[k.arg] = it.ev(k.value)
            v = A.Interp(env).ev(ast.parse(formula, mode="eval").body)
            return A.exp(v) if plain else v
        return None

    def inline(self, f, call, it, skip_self=False):
        params = f.params[1:] if skip_self else f.params
        a = f.node.args
        allp = [x.arg for x in a.posonlyargs + a.args]
        defaults = dict(zip(allp[len(allp) - len(a.defaults):], a.defaults))
        env = {}
        for p, arg in zip(params, call.args):
            env[p] = it.ev(arg)
        for k in call.keywords:
            env[k.arg] = it.ev(k.value)
        for p in params:
            if p not in env:
                if p in defaults:
                    env[p] = A.Interp({}).ev(defaults[p])
                else:
                    raise A.Undecided("missing argument %s of %s" % (p, f.name))
        self.inlined.add(f.construct)
        sub = A.Interp(env, dict(it.attr), self.hook, f.module)
        sub.run(f.node.body)
        if sub.ret is None or isinstance(sub.ret, str):
            raise A.Undecided("%s does not return a value on this path" % f.name)
        return sub.ret


def kernel_attrs(repo, kcls, name, unit_weight):
    """attribute environment of a constructed kernel: y, w, spread and attributes derived in __init__"""
    attr = {"self._y": A.sym("y"), "self._w": A.Rat.const(1) if unit_weight else A.sym("w")}
    sp = SPEC.SPREAD[name]
    if sp:
        attr["self." + sp[0]] = A.sym(sp[1])
    init = kcls.methods.get("__init__")
    if init is not None:
        # derived attributes:  self._sigma2 = self._sigma**2
        # (to a fixpoint: an attribute may be derived from another derived one, in any statement order of the walk)
        progress = True
        while progress:
            progress = False
            for st in walk_no_nested(init.node):
                if isinstance(st, ast.Assign) and len(st.targets) == 1 and is_self_attr(st.targets[0]):
                    t = "self." + st.targets[0].attr
                    if t in attr:
                        continue
                    try:
                        attr[t] = A.lift(A.Interp({}, attr).ev(st.value))
                        progress = True
                    except A.Undecided:
                        pass
    return attr


def eval_method(repo, kcls, name, method, apply_weighting, unit_weight):
    f = repo.resolve_method(kcls, method)
    if f is None:
        raise AnalysisError("%s.%s vanished" % (name, method))
    inl = Inliner(repo, kcls)
    attr = kernel_attrs(repo, kcls, name, unit_weight)
    env = {f.params[1]: A.sym("yhat")}
    if len(f.params) > 2:
        env[f.params[2]] = apply_weighting
    it = A.Interp(env, attr, inl.hook, f.module)
    it.run(f.node.body)
    if it.ret is None or isinstance(it.ret, str):
        raise A.Undecided("%s.%s does not return a value" % (name, method))
    return f, A.lift(it.ret), inl


def ref_env():
    return {n: A.sym(n) for n in ("y", "yhat", "w", "sigma", "a", "k")}


def check_derivatives(repo, res, name, r1="R-ALG(d1)", r2="R-ALG(d2)"):
    """derivative identities of one kernel (unit weights: 'derivatives of the unweighted loss'); r2=None skips the second derivative"""
    kcls = repo.cls(M.M_LOSSTYPE, name)
    try:
        f0, val, _ = eval_method(repo, kcls, name, "loss", True, unit_weight=True)
        f1, d1, _ = eval_method(repo, kcls, name, "diff_loss", True, unit_weight=True)
        want1 = A.diff(val, "yhat")
        res.check(d1 == want1, r1, f1, "diff_loss", "%s.diff_loss is d loss / d yhat" % name,
                  "%s.diff_loss is %r but d loss/d yhat is %r" % (name, d1, want1), node=f1.node)
        if r2 is not None:
            f2, d2, _ = eval_method(repo, kcls, name, "diff2Loss", True, unit_weight=True)
            want2 = A.diff(d1, "yhat")
            res.check(d2 == want2, r2, f2, "diff2Loss", "%s.diff2Loss is d diff_loss / d yhat" % name,
                      "%s.diff2Loss is %r but d diff_loss/d yhat is %r" % (name, d2, want2), node=f2.node)
        # and with apply_weighting=False the same functions result (weights only scale residuals)
        _, d1u, _ = eval_method(repo, kcls, name, "diff_loss", False, unit_weight=False)
        res.check(d1u == want1, r1, f1, "diff_loss(unweighted)", "unweighted diff_loss is the derivative of the unweighted loss",
                  "%s.diff_loss(apply_weighting=False) is %r, expected %r" % (name, d1u, want1), node=f1.node)
        return 2
    except A.Undecided as e:
        res.undecided(r1, kcls.methods.get("diff_loss") or name, "derivatives", "cannot bring %s derivatives into canonical form: %s" % (name, e))
        return 0


def check(repo, res, tier):
    res.rule("R-ALG(value)", "loss == minus the summed reference log-density (Square: sum of squared weighted residuals)")
    res.rule("R-ALG(d1)", "d/dyhat of the unweighted loss element == diff_loss")
    res.rule("R-ALG(d2)", "d/dyhat of diff_loss == diff2Loss")
    res.rule("R-LOGSPACE", "the log-likelihood is computed in log space (no logarithm of an exponentiated / plain density)")
    res.s_clauses = ["S1 value", "S2 first derivative", "S3 second derivative"]
    res.n_clauses = ["spread broadcasting in the constructors (runtime shapes)",
                     "floating-point evaluation; validity-domain checks in the constructors"]
    n = 0
    for name in KERNELS:
        kcls = repo.cls(M.M_LOSSTYPE, name)
        # ---- value
        for aw in ((True, False) if name in ("Square", "Normal") else (True,)):
            try:
                del A.LOG_OF_EXP[:]
                f, val, inl = eval_method(repo, kcls, name, "loss", aw, unit_weight=False)
                cancelled = list(A.LOG_OF_EXP)
                n += 1
                if name != "Square":
                    res.check(not cancelled, "R-LOGSPACE", f, "loss(apply_weighting=%s)" % aw,
                              "%s.loss is assembled from log-densities without taking the logarithm of a plain density" % name,
                              "%s.loss takes log() of a quantity that contains exp(...) / a plain pdf or pmf (%d time(s)): equal on paper, but the density "
                              "underflows to 0 for predictions far from the data and the loss becomes inf instead of the finite negative log-likelihood"
                              % (name, len(cancelled)), node=f.node)
                res.functions.update(inl.inlined)
                if name == "Square":
                    ref = A.Interp(ref_env()).ev(ast.parse(SPEC.SQUARE, mode="eval").body)
                    if not aw:
                        ref = A.Interp(dict(ref_env(), w=A.Rat.const(1))).ev(ast.parse(SPEC.SQUARE, mode="eval").body)
                    what = "sum of squared %sresiduals" % ("weighted " if aw else "")
                else:
                    env = ref_env()
                    ref = -A.lift(A.Interp(env).ev(ast.parse(SPEC.LOGDENS[name], mode="eval").body))
                    what = "minus the %s log-density in mean parameterisation" % name
                    if name == "Normal" and aw:
                        # the weighted normal loss uses the weighted residual inside the square
                        ref = A.Interp(env).ev(ast.parse("np.log(sigma) + np.log(2*np.pi)/2 + (w*(y - yhat))**2/(2*sigma**2)", mode="eval").body)
                        what = "minus the Normal log-density of the weighted residual"
                tag = "loss(apply_weighting=%s)" % aw
                res.check(val == ref and val.reduced, "R-ALG(value)", f, tag, "%s.loss is the %s, summed" % (name, what),
                          "%s.loss evaluates (per element) to %r but the %s is %r%s" % (name, val, what, ref, "" if val.reduced else " (and the elements are not summed)"),
                          node=f.node)
            except A.Undecided as e:
                res.undecided("R-ALG(value)", kcls.methods.get("loss") or "%s.loss" % name, "loss", "cannot bring %s.loss into canonical form: %s" % (name, e))
        n += check_derivatives(repo, res, name)
    res.floor("kernel methods brought to canonical form", n, 15)
    # the same identities on constructed kernels: real constructors (spread broadcasting, dtypes), concrete arrays, flat and single-column predictions
    from ..rules import kernx as KX
    res.rule("R-NUM(value)", "kernel built by its real constructor for every spread form: loss == minus the summed reference log-density at concrete points")
    res.rule("R-NUM(d1)", "... diff_loss == first derivative of the reference loss (central differences of the reference)")
    res.rule("R-NUM(d2)", "... diff2Loss == second derivative of the reference loss")
    nk = KX.check_kernels(repo, res, KERNELS, tier=tier)
    res.floor("constructed-kernel interpretations", nk, 200)
    _check_shape_inputs(repo, res)
    _check_dtype(repo, res)
    # residual is y - yhat (times w)
    base = repo.cls(M.M_LOSSTYPE, "Baseloss_Type")
    try:
        f, r, _ = eval_method(repo, base, "Square", "residual", True, unit_weight=False)
        res.check(r == (A.sym("y") - A.sym("yhat")) * A.sym("w"), "R-ALG(value)", f, "residual", "residual = (y - yhat)*w", "residual is %r" % r, node=f.node)
        f, r, _ = eval_method(repo, base, "Square", "residual", False, unit_weight=False)
        res.check(r == (A.sym("y") - A.sym("yhat")), "R-ALG(value)", f, "residual(unweighted)", "unweighted residual = y - yhat", "unweighted residual is %r" % r, node=f.node)
    except A.Undecided as e:
        res.undecided("R-ALG(value)", base.methods["residual"], "residual", str(e))


def _check_shape_inputs(repo, res):
    from ..core.absint import Abs, Obj, Tok, Raised
    from ..core.symarr import SymArr, np_summaries
    res.rule("R-SHAPEIN", "kernel methods agree between a flat prediction vector and a single-column prediction")
    distn = repo.module(M.M_DISTN)
    n = 2
    base_summ = np_summaries()

    def formula(names, src):
        def fn(*args, **kw):
            env = {"loc": A.Rat.const(0), "scale": A.Rat.const(1)}
            env.update(dict(zip(names, args)))
            env.update(kw)
            ab = Abs(env, {}, dict(base_summ), None)
            return ab.ev(ast.parse(src, mode="eval").body)
        return fn
    for callee, (names, src) in SPEC.SCIPY_LOG.items():
        base_summ[callee] = formula(names, src)
    for plain, logname in SPEC.SCIPY_PLAIN.items():
        base_summ[plain] = (lambda g: lambda *a, **k: base_summ["np.exp"](g(*a, **k)))(base_summ[logname])

    def chained_distn(name):
        fn = distn.functions[name]

        def call(*a, **kw):
            ab = Abs({}, {}, summ, None)
            b = dict(zip(fn.params, a))
            b.update(kw)
            kind, v = ab.run_function(fn.node, b)
            if kind == "raise":
                raise Raised(v)
            return v
        return call
    summ = dict(base_summ)
    for name in distn.functions:
        summ[name] = chained_distn(name)
    base = repo.cls(M.M_LOSSTYPE, "Baseloss_Type")
    resid_fn = base.methods["residual"]

    def residual(me, yhat, apply_weighting=True):
        ab = Abs({}, {"bool": lambda v: isinstance(v, bool)}, summ, me)
        ab.self_class = (repo, base)
        kind, v = ab.run_function(resid_fn.node, {"yhat": yhat, "apply_weighting": apply_weighting})
        if kind == "raise":
            raise Raised(v)
        return v
    summ["Kernel.residual"] = residual
    for name in KERNELS:
        kcls = repo.cls(M.M_LOSSTYPE, name)
        y = SymArr.symbols("y", (n,))
        me = Obj("Kernel", _y=y, _w=SymArr.ones((n,)))
        sp = SPEC.SPREAD[name]
        if sp:
            me.attrs[sp[0]] = SymArr.symbols(sp[1], (n,))
            if name == "Normal":
                me.attrs["_sigma2"] = me.attrs["_sigma"] ** 2
        yh = SymArr.symbols("yhat", (n,))
        for method in ("loss", "diff_loss", "diff2Loss"):
            f = kcls.methods.get(method)
            if f is None:
                continue
            outs = {}
            try:
                for form, val in (("flat", yh.copy()), ("column", yh.reshape(n, 1))):
                    ab_ = Abs({}, {}, summ, me)
                    ab_.self_class = (repo, kcls)
                    kind, out = ab_.run_function(f.node, {f.params[1]: val})
                    outs[form] = (kind, out)
            except A.Undecided as e:
                res.undecided("R-SHAPEIN", f, method, "outside the modelled subset: %s" % e)
                continue
            (k1, a), (k2, b) = outs["flat"], outs["column"]
            tag = "%s(column==flat)" % method
            if k1 != "return" or k2 != "return":
                res.violated("R-SHAPEIN", f, tag, "%s.%s raises for a %s prediction" % (name, method, "flat" if k1 != "return" else "single-column"), node=f.node)
                continue
            if method == "loss":
                ok = A.lift(a) == A.lift(b)
                why = "" if ok else "loss differs: %r for the vector, %r for the column" % (a, b)
            else:
                a_, b_ = SymArr.of(a) if not isinstance(a, SymArr) else a, SymArr.of(b) if not isinstance(b, SymArr) else b
                ok = a_.shape == (n,) and b_.shape == (n,) and a_.same(b_)
                why = "" if ok else "returns shape %s for the vector and shape %s for the single column%s" % (
                    a_.shape, b_.shape, "" if a_.shape != b_.shape else " with different values")
            res.check(ok, "R-SHAPEIN", f, tag, "%s.%s treats an (n,1) prediction like the (n,) vector" % (name, method),
                      "%s.%s %s: for one observed state BaseLoss passes an (n,1) column, so the derivative no longer lines up with the observations" % (name, method, why),
                      node=f.node)


def _check_dtype(repo, res):
    """the spread / weight arrays of a kernel must not take their dtype from the observations (count data are integers)"""
    from ..rules.dtype import inheriting_allocations
    from ..core.source import is_self_attr as _isa
    res.rule("R-DTYPE", "arrays holding spread / weights / results do not inherit the (possibly integer) dtype of the observations")

    def is_obs(e, df, node):
        if _isa(e, "_y"):
            return True
        rts = df.roots(e, node)
        return ("attr", "self._y") in rts or ("param", "y") in rts
    n = 0
    for name in KERNELS + ["Baseloss_Type"]:
        kcls = repo.cls(M.M_LOSSTYPE, name)
        for mname, f in sorted(kcls.methods.items()):
            n += 1
            hits = inheriting_allocations(f, is_obs)
            for c, src in hits:
                res.violated("R-DTYPE", f, "alloc@%s" % norm(c)[:50],
                             "%s takes its dtype from the observations (%s): with integer-typed count data a non-integer spread / "
                             "weight / result stored in it is silently truncated (e.g. k=1.5 becomes 1)" % (norm(c), norm(src)), node=c)
            if not hits:
                res.holds("R-DTYPE", f, "no-inherited-dtype", "no allocation inherits the dtype of the observations")
    res.floor("kernel methods scanned for dtype inheritance", n, 20)
    # positive control: the rule must recognise the idiom on a synthetic function
    import ast as _ast
    from ..core.source import FuncInfo
    mod = repo.module(M.M_LOSSTYPE)
    tree = _ast.parse("def _probe(self, sigma):\n    self._sigma = np.full_like(self._y, sigma)\n    return self._sigma\n")
    probe = FuncInfo(mod, "Probe", "_probe", tree.body[0], "method")
    if not inheriting_allocations(probe, is_obs):
        res.undecided("R-DTYPE", mod.rel + "::positive-control", None, "the dtype rule no longer recognises np.full_like(self._y, value)")
