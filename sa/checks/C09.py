"""C09 - parameter values are bound to the parameters they were given for.

 S1 R-KV     for every accepted input form (ordered list / tuple / array, list of
             (name, value) pairs in every order, dict keyed by name or by symbol, single
             parameter forms) the value that reaches the evaluators for parameter k is the
             value supplied for the name of parameter k
 S2 R-KEEP   a partial dict update keeps earlier values for names it does not mention;
             successive assignments in mixed formats leave the last value given per name
 S3 R-REJECT unknown names and wrong lengths are rejected with an error; the helpers that
             map names to symbols / indices raise on unknown names
Decided by abstract execution of the `parameters` setter of an abstract three-parameter
model (and a one-parameter model) over the completely enumerated input forms, with the
name->symbol / name->index helpers replaced by summaries that are verified on their own
source.  What is observed is self._paramValue, the list the compiled evaluators read.
"""
import ast
import itertools

from ..core.source import AnalysisError, norm, dotted, is_self_attr, walk_no_nested
from ..core.absint import Abs, Obj, Tok, AList, Raised
from ..core.numarr import NumArr
from ..core.algebra import Undecided
from ..rules import model as M

TECHNIQUE = ("static analysis: intra-procedural abstract execution of the parameters setter over all accepted input "
             "forms and all permutations of an abstract 3-parameter model, with verified helper summaries")

NAMES = ["a", "b", "c"]


def var(n):
    return Obj("ODEVariable", ID=n, name=n, __str__=n)


def eq_hook(a, b):
    """ODEVariable.__eq__: equal to a str / symbol with the same ID, or to an equal variable"""
    for x, y in ((a, b), (b, a)):
        if isinstance(x, Obj) and x.cls == "ODEVariable":
            if isinstance(y, str):
                return x.attrs["ID"] == y
            if isinstance(y, Tok) and y.kind == "sym":
                return x.attrs["ID"] == y.label
            if isinstance(y, Obj) and y.cls == "ODEVariable":
                return x.attrs["ID"] == y.attrs["ID"]
            return False
    return None


TYPES = {
    "np.ndarray": lambda v: isinstance(v, NumArr) or (isinstance(v, AList) and v.tag == "ndarray"),
    "Number": lambda v: (isinstance(v, Tok) and v.kind == "num") or (isinstance(v, (int, float)) and not isinstance(v, bool)),
    "ODEVariable": lambda v: isinstance(v, Obj) and v.cls == "ODEVariable",
    "sympy.Symbol": lambda v: isinstance(v, Tok) and v.kind in ("sym", "usym"),
    "rv_frozen": lambda v: isinstance(v, Obj) and v.cls == "rv_frozen",
}


def model(names):
    me = Obj("Model")
    me.attrs["_paramList"] = [var(n) for n in names]
    d = {n: Tok(n, "sym") for n in names}
    d["t"] = Tok("t", "sym")
    me.attrs["_paramDict"] = d
    me.attrs["_stochasticParam"] = None
    return me


def helper_summaries(names):
    def extract_symbol(me, s):
        if isinstance(s, Obj) and s.cls == "ODEVariable":
            s = s.attrs["ID"]
        if isinstance(s, str) and s in me.attrs["_paramDict"]:
            return me.attrs["_paramDict"][s]
        raise Raised("InputError")

    def get_param_index(me, s):
        if isinstance(s, Tok) and s.kind in ("sym", "usym"):
            s = s.label
        elif isinstance(s, Obj) and s.cls == "ODEVariable":
            s = s.attrs["ID"]
        if isinstance(s, str) and s in names:
            return names.index(s)
        raise Raised("InputError")
    return {"Model._extractParamSymbol": extract_symbol, "Model.get_param_index": get_param_index,
            "Model.set_sp": lambda me: None,
            "ndarray.ravel": lambda arr: arr,
            "rv_frozen.rvs": lambda o, n=1: [Tok("draw(%s)" % o.attrs["tag"])]}


GETTERS = {"num_param": lambda me: len(me.attrs["_paramList"]), "param_list": lambda me: me.attrs["_paramList"]}


def run_setter(setter, me, value, names, extra=None):
    summ = helper_summaries(names)
    if extra:
        summ.update(extra)
    ab = Abs({}, TYPES, summ, me, GETTERS, eq=eq_hook)
    return ab.run_function(setter.node, {setter.params[1]: value})


def nd(items):
    """a native array: shape, ndim, size, len, indexing, ravel behave as numpy's do"""
    return NumArr(list(items))


def check(repo, res, tier):
    res.rule("R-KV", "each parameter's evaluation slot receives the value supplied for its name, in every accepted form and order")
    res.rule("R-KEEP", "partial updates keep unmentioned values; the last value given per name wins across successive assignments")
    res.rule("R-REJECT", "unknown names / wrong lengths raise; name->symbol and name->index helpers raise on unknown names")
    res.s_clauses = ["S1 R-KV", "S2 R-KEEP", "S3 R-REJECT"]
    res.n_clauses = ["which exception type a wrong-length list produces (any error is accepted)",
                     "values drawn for distribution-valued parameters (sampling)"]
    cls = M.sim_class(repo)
    setter = repo.resolve_setter(cls, "parameters")
    if setter is None:
        raise AnalysisError("parameters setter vanished")
    _check_helpers(repo, res, cls)
    # distinct non-zero numbers play the role of symbols (code that tests a value's truth can still be interpreted);
    # zero values are exercised separately below
    vals = [1.25, 2.5, 3.75]
    n_forms = 0

    def observe(me):
        return list(me.attrs.get("_paramValue") or [])

    def expect_ok(tag, value, want, me=None):
        nonlocal n_forms
        n_forms += 1
        me = me or model(NAMES)
        try:
            kind, _ = run_setter(setter, me, value, NAMES)
        except Undecided as e:
            res.undecided("R-KV", setter, tag, "outside the modelled subset: %s" % e)
            return me
        got = observe(me)
        return me, kind, got

    # ---- full-length ordered sequences
    for form, mk in (("list", lambda v: list(v)), ("tuple", lambda v: tuple(v)), ("ndarray", lambda v: nd(list(v)))):
        r = expect_ok("ordered(%s)" % form, mk(vals), vals)
        if isinstance(r, tuple):
            me, kind, got = r
            res.check(kind == "return" and got == vals, "R-KV", setter, "ordered(%s)" % form,
                      "an ordered %s binds value i to parameter i" % form,
                      "ordered %s %s -> evaluation values %s (%s)" % (form, vals, got, kind), node=setter.node)
    # ---- (name, value) pairs in every order
    bad = []
    for perm in itertools.permutations(range(3)):
        pairs = [(NAMES[i], vals[i]) for i in perm]
        r = expect_ok("pairs%s" % (perm,), pairs, vals)
        if isinstance(r, tuple):
            me, kind, got = r
            if not (kind == "return" and got == vals):
                bad.append("%s -> %s (%s)" % ([p[0] for p in pairs], got, kind))
    res.check(not bad, "R-KV", setter, "pairs(all 6 orders)", "(name, value) pairs bind by name in every order",
              "pairs are bound by position, not by name: %s" % "; ".join(bad[:3]), node=setter.node)
    # ---- dict keyed by name / by symbol, every key order
    for keykind, mkkey in (("name", lambda n: n), ("symbol", lambda n: Tok(n, "sym"))):
        bad = []
        for perm in itertools.permutations(range(3)):
            d = {mkkey(NAMES[i]): vals[i] for i in perm}
            r = expect_ok("dict(%s)%s" % (keykind, perm), d, vals)
            if isinstance(r, tuple):
                me, kind, got = r
                if not (kind == "return" and got == vals):
                    bad.append("%s -> %s (%s)" % (list(d), got, kind))
        res.check(not bad, "R-KV", setter, "dict(%s keys, all 6 orders)" % keykind, "a dict keyed by %s binds by name" % keykind,
                  "dict keyed by %s is bound wrongly: %s" % (keykind, "; ".join(bad[:3])), node=setter.node)
    # ---- partial updates after a full assignment, every non-empty proper subset, from every full form
    bad = []
    new = [4.25, 5.5, 6.75]
    n_partial = 0
    for first_label, first in (("list", list(vals)), ("pairs", [(NAMES[i], vals[i]) for i in (2, 0, 1)]), ("dict", {NAMES[i]: vals[i] for i in range(3)})):
        for k in (1, 2):
            for subset in itertools.combinations(range(3), k):
                n_partial += 1
                me = model(NAMES)
                try:
                    k1, _ = run_setter(setter, me, first if not isinstance(first, dict) else dict(first), NAMES)
                    k2, _ = run_setter(setter, me, {NAMES[i]: new[i] for i in subset}, NAMES)
                except Undecided as e:
                    res.undecided("R-KEEP", setter, "partial", "outside the modelled subset: %s" % e)
                    return
                want = [new[i] if i in subset else vals[i] for i in range(3)]
                got = observe(me)
                if not (k1 == k2 == "return" and got == want):
                    bad.append("full %s then update of %s -> %s (expected %s)" % (first_label, [NAMES[i] for i in subset], got, want))
    n_forms += n_partial
    res.check(not bad, "R-KEEP", setter, "partial-update(%d cases)" % n_partial,
              "a partial dict update changes exactly the named parameters and keeps the others",
              "partial update loses or misplaces values: %s" % "; ".join(bad[:3]), node=setter.node)
    # ---- successive full assignments in mixed formats: the last one wins
    bad = []
    forms = {"list": lambda v: list(v), "tuple": lambda v: tuple(v), "ndarray": lambda v: nd(list(v)),
             "pairs": lambda v: [(NAMES[i], v[i]) for i in (1, 2, 0)], "dict": lambda v: {NAMES[i]: v[i] for i in (2, 1, 0)}}
    for (l1, f1), (l2, f2) in itertools.product(forms.items(), repeat=2):
        n_forms += 1
        me = model(NAMES)
        k1, _ = run_setter(setter, me, f1(vals), NAMES)
        k2, _ = run_setter(setter, me, f2(new), NAMES)
        got = observe(me)
        if not (k1 == k2 == "return" and got == new):
            bad.append("%s then %s -> %s" % (l1, l2, got))
    res.check(not bad, "R-KEEP", setter, "successive(25 format pairs)", "after two full assignments the second one is in force",
              "successive assignments leave stale values: %s" % "; ".join(bad[:3]), node=setter.node)
    # ---- every sequence of three assignments over 5 full and 2 partial formats: the model must end up with
    #      the last value given for each name (stale entries under a differently typed key must not win)
    bad3, n3 = sequences_of_three(setter)
    n_forms += n3
    if tier == "thorough":
        bad4, n4 = sequences_of_three(setter, length=4)
        res.check(not bad4, "R-KEEP", setter, "successive-quadruples(%d sequences)" % n4,
                  "after any four assignments in mixed formats every parameter holds the last value given for its name",
                  "a sequence of four assignments leaves a stale value in force (%d of %d), e.g. %s" % (len(bad4), n4, "; ".join(bad4[:2])), node=setter.node)
    res.check(not bad3, "R-KEEP", setter, "successive-triples(%d sequences)" % n3,
              "after any three assignments in mixed formats every parameter holds the last value given for its name",
              "a sequence of assignments leaves a stale value in force (%d of %d sequences), e.g. %s" % (len(bad3), n3, "; ".join(bad3[:2])), node=setter.node)
    # ---- the value zero is a value: numeric runs with zeros in every position
    for tag, value, want in (("zeros(list)", [0.0, 0.5, 0.0], [0.0, 0.5, 0.0]),
                             ("zeros(pairs)", [("c", 0.0), ("a", 0.0), ("b", 2.0)], [0.0, 2.0, 0.0]),
                             ("zeros(dict)", {"b": 0.0, "a": 1.0, "c": 0}, [1.0, 0.0, 0])):
        n_forms += 1
        me = model(NAMES)
        try:
            kind, _ = run_setter(setter, me, value, NAMES)
            me2 = me
            got = observe(me2)
            res.check(kind == "return" and got == want, "R-KV", setter, tag, "zero-valued parameters are bound like any other value",
                      "%s -> evaluation values %s (%s), expected %s" % (tag, got, kind, want), node=setter.node)
        except Undecided as e:
            res.undecided("R-KV", setter, tag, "outside the modelled subset: %s" % e)
    me = model(NAMES)
    run_setter(setter, me, [1.0, 2.0, 3.0], NAMES)
    kind, _ = run_setter(setter, me, {"b": 0.0}, NAMES)
    n_forms += 1
    res.check(kind == "return" and observe(me) == [1.0, 0.0, 3.0], "R-KEEP", setter, "partial-update-to-zero", "a partial update to the value 0 takes effect",
              "after [1, 2, 3] then {'b': 0.0} the evaluation values are %s" % observe(me), node=setter.node)
    # ---- rejections
    rej = [("unknown-name(pairs)", [("a", vals[0]), ("zz", vals[1]), ("c", vals[2])]),
           ("unknown-name(dict)", {"a": vals[0], "zz": vals[1]}),
           ("too-short(list)", [vals[0], vals[1]]),
           ("too-long(list)", [vals[0], vals[1], vals[2], 9.5]),
           ("too-long(ndarray)", nd([vals[0], vals[1], vals[2], 9.5])),
           ("too-long(dict)", {"a": vals[0], "b": vals[1], "c": vals[2], "zz": 9.5}),
           ("scalar-for-3-parameters", 7.5),
           ("list-of-strings", ["x", "y", "z"])]
    # arrays that are not flat: as many entries as parameters may be bound in flattened order (or refused); any other number of entries is refused
    rej += [("2-d array (3,2) for 3 parameters", nd([[vals[0], 9.5], [vals[1], 8.5], [vals[2], 7.5]])),
            ("2-d array (2,3) for 3 parameters", nd([[vals[0], vals[1], vals[2]], [9.5, 8.5, 7.5]])),
            ("2-d array (3,3) for 3 parameters", nd([[vals[0], 9.5, 1.0], [vals[1], 8.5, 1.0], [vals[2], 7.5, 1.0]]))]
    for tag, value in (("column (3,1)", nd([[vals[0]], [vals[1]], [vals[2]]])), ("row (1,3)", nd([[vals[0], vals[1], vals[2]]]))):
        n_forms += 1
        me = model(NAMES)
        try:
            kind, _ = run_setter(setter, me, value, NAMES)
        except Undecided as e:
            res.undecided("R-KV", setter, tag, "outside the modelled subset: %s" % e)
            continue
        res.check(kind == "raise" or observe(me) == vals, "R-KV", setter, tag, "a %s array of three values is bound in flattened order or refused" % tag,
                  "%s -> evaluation values %s, expected %s" % (tag, observe(me), vals), node=setter.node)
    for tag, value in rej:
        n_forms += 1
        me = model(NAMES)
        try:
            kind, _ = run_setter(setter, me, value, NAMES)
        except Undecided as e:
            res.undecided("R-REJECT", setter, tag, "outside the modelled subset: %s" % e)
            continue
        res.check(kind == "raise", "R-REJECT", setter, tag, "%s is rejected with an error" % tag,
                  "%s is accepted silently: evaluation values become %s" % (tag, observe(me)), node=setter.node)
    # ---- single-parameter model
    one = ["a"]
    for tag, value, want in (("single(number)", 0.5, [0.5]), ("single(name, value)", ("a", 1.25), [1.25]),
                             ("single(list)", [1.25], [1.25]), ("single(dict)", {"a": 1.25}, [1.25]), ("single(zero)", 0.0, [0.0])):
        n_forms += 1
        me = model(one)
        ab = Abs({}, TYPES, helper_summaries(one), me, GETTERS, eq=eq_hook)
        try:
            kind, _ = ab.run_function(setter.node, {setter.params[1]: value})
        except Undecided as e:
            res.undecided("R-KV", setter, tag, "outside the modelled subset: %s" % e)
            continue
        got = list(me.attrs.get("_paramValue") or [])
        if tag == "single(name, value)" and kind == "raise":
            # not among the accepted forms the property lists; being rejected with an error is fine, mis-binding would not be
            res.holds("R-KV", setter, tag, "a bare (name, value) tuple for a one-parameter model is rejected with an error (never bound silently)", node=setter.node)
            res.observe("a bare (name, value) tuple is rejected for one-parameter models: the tuple is caught by the sequence branch and fails its length test", setter, setter.node)
            continue
        res.check(kind == "return" and got == want, "R-KV", setter, tag, "%s binds the single parameter" % tag,
                  "%s -> evaluation values %s (%s)" % (tag, got, kind), node=setter.node)
    for tag, value in (("row (1,2) for one parameter", nd([[1.25, 9.5]])), ("row (1,3) for one parameter", nd([[1.25, 9.5, 8.5]])), ("flat (2,) for one parameter", nd([1.25, 9.5]))):
        n_forms += 1
        me = model(one)
        ab = Abs({}, TYPES, helper_summaries(one), me, GETTERS, eq=eq_hook)
        try:
            kind, _ = ab.run_function(setter.node, {setter.params[1]: value})
        except Undecided as e:
            res.undecided("R-REJECT", setter, tag, "outside the modelled subset: %s" % e)
            continue
        res.check(kind == "raise", "R-REJECT", setter, tag, "%s is rejected with an error" % tag,
                  "%s is accepted silently: evaluation values become %s" % (tag, list(me.attrs.get("_paramValue") or [])), node=setter.node)
    # ---- distribution-valued entries: drawn value bound to its own name, distribution remembered; the draws are concrete numbers
    #      (negative, zero, positive) so that code that inspects the drawn value is still interpreted
    for draw in (-0.75, 0.0, 0.5):
        me = model(NAMES)
        me2, kind0, _ = expect_ok("seed-values", {"a": 9.0, "b": 8.0, "c": 7.0}, None, me)
        d = {"b": Obj("rv_frozen", tag="B"), "a": vals[0], "c": vals[2]}
        try:
            kind, _ = run_setter(setter, me, d, NAMES, extra={"rv_frozen.rvs": lambda o, *a, **k: [draw]})
        except Undecided as e:
            res.undecided("R-KV", setter, "dict(frozen distribution, draw=%s)" % draw, "outside the modelled subset: %s" % e)
            continue
        got = observe(me)
        n_forms += 1
        res.check(kind == "return" and got == [vals[0], draw, vals[2]] and me.attrs.get("_stochasticParam") is not None,
                  "R-KV", setter, "dict(frozen distribution, draw=%s)" % draw, "a draw from a distribution is bound to that parameter's own slot and the distribution is remembered",
                  "distribution-valued entry with drawn value %s after earlier values [9.0, 8.0, 7.0] -> evaluation values %s, remembered=%s" % (draw, got, me.attrs.get("_stochasticParam") is not None), node=setter.node)
    res.floor("parameter input forms executed abstractly", n_forms, 70)


def sequences_of_three(setter, length=3):
    """-> (list of failing sequence descriptions, number of sequences executed)"""
    import itertools as _it
    full = {"list": lambda v: list(v), "tuple": lambda v: tuple(v), "ndarray": lambda v: nd(list(v)),
            "pairs": lambda v: [(NAMES[i], v[i]) for i in (1, 2, 0)], "dict": lambda v: {NAMES[i]: v[i] for i in (2, 1, 0)},
            "symdict": lambda v: {Tok(NAMES[i], "sym"): v[i] for i in (0, 2, 1)},
            "user-symdict": lambda v: {Tok(NAMES[i], "usym"): v[i] for i in (1, 0, 2)}}
    partial = {"partial(b)": lambda v: {"b": v[1]}, "partial(sym c,a)": lambda v: {Tok("c", "sym"): v[2], Tok("a", "sym"): v[0]},
               "partial(user sym b)": lambda v: {Tok("b", "usym"): v[1]}}
    forms = dict(full)
    forms.update(partial)
    bad, n = [], 0
    for l1 in full:                       # the first assignment must define every parameter
        for rest in _it.product(forms, repeat=length - 1):
            if True:
                n += 1
                me = model(NAMES)
                ref = {}
                ok = True
                l2, l3 = rest[0], rest[-1]
                for step, lab in enumerate((l1,) + tuple(rest)):
                    v = [10.0 * (step + 1) + i + 0.5 for i in range(3)]
                    val = forms[lab](v)
                    try:
                        kind, _ = run_setter(setter, me, val, NAMES)
                    except Undecided as e:
                        return (["outside the modelled subset: %s" % e], n)
                    if kind != "return":
                        ok = False
                        bad.append("%s: step %d raises" % (", ".join((l1,) + tuple(rest)), step + 1))
                        break
                    if lab in full:
                        ref = {NAMES[i]: v[i] for i in range(3)}
                    elif lab in ("partial(b)", "partial(user sym b)"):
                        ref["b"] = v[1]
                    else:
                        ref["c"], ref["a"] = v[2], v[0]
                if ok:
                    got = list(me.attrs.get("_paramValue") or [])
                    want = [ref[nm] for nm in NAMES]
                    if got != want:
                        bad.append("%s -> %s (expected %s)" % (", ".join((l1,) + tuple(rest)), got, want))
    return bad, n


def _check_helpers(repo, res, cls):
    """the summaries used above, verified by abstract execution of the helpers themselves"""
    names = NAMES
    f = repo.resolve_method(cls, "_extractParamSymbol")
    g = repo.resolve_method(cls, "_extractParamIndex")
    h = repo.resolve_method(cls, "get_param_index")
    for fn in (f, g, h):
        if fn is None:
            raise AnalysisError("parameter look-up helper vanished")

    def run(fn, arg, summ=None):
        me = model(names)
        ab = Abs({}, TYPES, summ or {}, me, GETTERS, eq=eq_hook)
        try:
            return ab.run_function(fn.node, {fn.params[1]: arg})
        except Undecided as e:
            return ("undecided", str(e))
    k, v = run(f, "b")
    res.check(k == "return" and v == Tok("b", "sym"), "R-REJECT", f, "known-name", "_extractParamSymbol('b') is the symbol b",
              "_extractParamSymbol('b') gives %s %s" % (k, v), node=f.node)
    k, v = run(f, var("c"))
    res.check(k == "return" and v == Tok("c", "sym"), "R-REJECT", f, "known-variable", "an ODEVariable is looked up by its ID",
              "_extractParamSymbol(ODEVariable c) gives %s %s" % (k, v), node=f.node)
    k, v = run(f, "zz")
    res.check(k == "raise", "R-REJECT", f, "unknown-name", "an unknown name raises", "_extractParamSymbol('zz') returns %s instead of raising" % (v,), node=f.node)
    for i, n in enumerate(names):
        k, v = run(g, n)
        res.check(k == "return" and v == i, "R-REJECT", g, "index(%s)" % n, "_extractParamIndex('%s') == %d" % (n, i),
                  "_extractParamIndex('%s') gives %s %s, expected %d" % (n, k, v, i), node=g.node)
    k, v = run(g, "zz")
    res.check(k == "raise", "R-REJECT", g, "unknown-name", "an unknown name raises", "_extractParamIndex('zz') returns %s instead of raising" % (v,), node=g.node)
    # get_param_index dispatches str / Symbol / ODEVariable to _extractParamIndex
    summ = {"Model._extractParamIndex": lambda me, s: names.index(s) if isinstance(s, str) and s in names else (_ for _ in ()).throw(Raised("InputError"))}
    for label, arg in (("str", "b"), ("symbol", Tok("b", "sym")), ("variable", var("b"))):
        k, v = run(h, arg, summ)
        res.check(k == "return" and v == 1, "R-REJECT", h, "dispatch(%s)" % label, "get_param_index(%s b) == 1" % label,
                  "get_param_index(%s b) gives %s %s" % (label, k, v), node=h.node)
    k, v = run(h, "zz", summ)
    res.check(k == "raise", "R-REJECT", h, "unknown-name", "an unknown name raises", "get_param_index('zz') returns %s" % (v,), node=h.node)
    # nothing between the setter and the helpers swallows the error
    setter = repo.resolve_setter(cls, "parameters")
    tries = [n for n in walk_no_nested(setter.node) if isinstance(n, ast.Try)]
    res.check(not tries, "R-REJECT", setter, "no-swallowing", "the setter has no try/except that could swallow a rejection",
              "the setter wraps look-ups in try/except", node=tries[0] if tries else None)
