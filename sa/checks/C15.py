"""C15 - gridded stochastic output agrees with the underlying path.

 S1 R-LOOPDEP  _addJumpsBetweenTime: the value stored in column i depends on i on every
               path; when it is a histogram it bins the event times t[1:] on the target grid
               weighted by column i of the counts
 S2 R-LOOKUP   _extractObservationAtTime: one row per target, in order; row = state at the
               last event time <= target (abstract execution over a path with targets that
               hit an event time, fall between events, precede the first and follow the last)
 S4 R-STEP/R-FR  the per-step counts that are binned are the counts that were applied to the state
 S3 R-GRIDRUN  solve_stochast interpreted end to end on scripted concrete paths (overshooting, dying out inside the
               grid, single event) for list / tuple / array grids and scalar horizons: rows, per-interval counts
               and their relation are those of the underlying path; raw runs are returned untouched
"""
import ast

from ..rules import stepx as _SX
from ..core.source import AnalysisError, norm, dotted, is_self_attr, walk_no_nested, const_value, kwarg
from ..core.cfg import cfg_of
from ..core.dataflow import dataflow_of
from ..core.absint import Abs, Obj, Tok, AList, Raised
from ..core.algebra import Undecided
from ..rules import model as M
from ..rules import common as C

TECHNIQUE = ("static analysis: loop-variable dependence of the stored column (R-LOOPDEP), abstract execution of the "
             "look-up routine over a finite class of target positions and of the time-argument normalisation over all "
             "accepted grid forms, with numpy routines replaced by their documented semantics on token lists")


def check(repo, res, tier):
    res.rule("R-LOOPDEP", "a value stored at [..., i] inside `for i` depends on i on every path")
    res.rule("R-LOOKUP", "row k = state at the last event time <= target k; one row per target in order")
    res.s_clauses = ["S1 R-LOOPDEP", "S2 R-LOOKUP", "S3 R-GRIDRUN"]
    res.n_clauses = ["that consecutive rows differ by V times the interval counts numerically (follows from S1-S3 and C04)",
                     "tau-leap interpolation accuracy"]
    cls = M.sim_class(repo)
    # S4: "rows differ by V times the counts of that interval" needs the per-step counts to be the counts that were
    # applied (one-hot at the fired event in exact mode; the drawn count per event in tau mode) and to be recorded
    from ..rules import stepx as X
    res.rule("R-WALK", "per-step counts recorded = counts applied to the state (exact mode: one-hot at the fired event), recorded with the state and time they produced")
    n = X.check_walks(repo, res, tier=tier)
    res.floor("walk scenarios interpreted", n, 15)
    _check_loopdep(repo, res, cls)
    _check_lookup(repo, res, cls)
    _check_interp(repo, res, cls)
    _check_gridded_runs(repo, res, cls)


def _check_loopdep(repo, res, cls):
    """_addJumpsBetweenTime, interpreted on concrete event records: entry [k, i] of the result is the number of firings of transition i
    whose event time lies in the k-th interval of the requested grid (so that consecutive gridded states differ by V times row k)"""
    from ..core.absint import Abs as _Abs, Obj as _Obj
    from ..core.numarr import NumArr, num_summaries
    f = repo.resolve_method(cls, "_addJumpsBetweenTime")
    if f is None or f.params[1:4] != ["dX", "t", "targetTime"]:
        # a private helper: when it is gone or takes something else (the event times without the starting time, say) its old contract
        # says nothing about the property - the counts per interval are decided end to end by R-GRIDRUN (whole gridded runs)
        res.holds("R-LOOPDEP", repo.resolve_method(cls, "solve_stochast"), "interval-counts",
                  "the private counting helper no longer has the interface (dX, t, targetTime) this refinement was written for; interval counts are decided by R-GRIDRUN on whole runs")
        return
    cases = []
    # (label, per-step counts, times incl. the initial time, grid)
    onehot = [[1, 0, 0], [0, 1, 0], [1, 0, 0], [0, 0, 1], [0, 1, 0], [1, 0, 0]]
    times = [0.0, 0.3, 0.7, 1.1, 2.6, 2.9, 7.2]
    cases.append(("exact, even grid", onehot, times, [0.0, 2.0, 4.0, 6.0, 8.0], True))
    cases.append(("exact, uneven grid", onehot, times, [0.0, 0.5, 1.0, 3.0, 8.0, 20.0], True))
    cases.append(("exact, grid past the last event", onehot, times, [0.0, 1.0, 5.0, 10.0, 50.0, 51.0], True))
    cases.append(("exact, path longer than the grid", onehot, times, [0.0, 0.5, 2.8], True))
    cases.append(("exact, two transitions only", [[1, 0], [1, 0], [0, 1]], [0.0, 0.2, 0.4, 1.7], [0.0, 0.25, 1.5, 2.0], True))
    cases.append(("exact, one transition", [[1], [1], [1]], [0.0, 0.2, 0.4, 1.7], [0.0, 0.3, 3.0], True))
    cases.append(("tau-leap counts, uneven grid", [[3, 0, 1], [2, 2, 0], [0, 5, 1], [1, 1, 1]], [0.0, 0.5, 1.0, 1.5, 2.0], [0.0, 0.75, 1.25, 4.0], False))
    cases.append(("list inputs", onehot, times, [0.0, 0.5, 1.0, 3.0, 8.0], True))
    bad, n = [], 0
    for label, dX, t, grid, exact in cases:
        as_list = label == "list inputs"
        summ = dict(num_summaries())
        me = _Obj("Model")
        ab = _Abs({}, {}, summ, me, {}, budget=50000)
        ab.module = f.module
        args = dict(zip(f.params[1:], [[list(r) for r in dX] if as_list else NumArr([list(r) for r in dX]), list(t) if as_list else NumArr(list(t)),
                                       list(grid) if as_list else NumArr(list(grid)), exact]))
        try:
            kind, out = ab.run_function(f.node, args)
        except Undecided as e:
            res.undecided("R-LOOPDEP", f, "interval-counts", "outside the modelled subset: %s" % e)
            return
        n += 1
        nT = len(dX[0])
        want = [[0] * nT for _ in range(len(grid) - 1)]
        for s_, row in enumerate(dX):
            te = t[s_ + 1]
            for k in range(len(grid) - 1):
                last = k == len(grid) - 2
                if grid[k] <= te < grid[k + 1] or (last and te == grid[k + 1]):
                    for i_ in range(nT):
                        want[k][i_] += row[i_]
        got = out.tolist() if isinstance(out, NumArr) else out
        if kind != "return":
            bad.append("%s: raises %s" % (label, out))
        elif not (isinstance(got, list) and len(got) == len(want) and all(isinstance(r, list) and len(r) == nT and all(abs(a - b) < 1e-9 for a, b in zip(r, w_)) for r, w_ in zip(got, want))):
            bad.append("%s: for event times %s with per-step counts %s on the grid %s the per-interval counts are %s, expected %s (one row per interval, one column per transition)"
                       % (label, t[1:], dX, grid, got, want))
    res.check(not bad, "R-LOOPDEP", f, "interval-counts", "per-interval counts are per-transition counts of the events inside each interval of the requested grid (%d event records, "
              "even / uneven grids, grids longer and shorter than the path, exact and tau-leap counts)" % n, "; ".join(bad[:2]), node=f.node)
    res.floor("interval-count cases interpreted", n, 8)


# numpy semantics on plain lists ------------------------------------------------
class Arr(AList):
    pass


def _np_summaries():
    def searchsorted(a, v, side="left"):
        import bisect
        return bisect.bisect_left(list(a), v) if side == "left" else bisect.bisect_right(list(a), v)

    def where(mask):
        return ([i for i, m in enumerate(mask) if m],)
    return {"np.any": lambda m: any(m), "np.where": where, "np.searchsorted": searchsorted,
            "np.array": lambda x, *a, **k: Arr(list(x), "ndarray") if isinstance(x, (list, tuple)) else x,
            "max": lambda *a: max(a) if len(a) > 1 else max(a[0]), "min": lambda *a: min(a) if len(a) > 1 else min(a[0])}


def _arr_eq(a, b):
    return None


def _check_lookup(repo, res, cls, rule="R-LOOKUP"):
    """the exact-mode look-up interpreted over concrete event times and opaque state rows (loop or vectorised form)"""
    from ..core.numarr import NumArr, num_summaries
    f = repo.resolve_method(cls, "_extractObservationAtTime")
    if f is None:
        raise AnalysisError("_extractObservationAtTime vanished")
    cases = [
        ("hits, gaps and times after the last event", [0.0, 1.0, 2.5, 4.0], [0.0, 0.5, 1.0, 2.0, 2.5, 3.9, 4.0, 7.0, 9.0]),
        ("a target before the first recorded time", [1.0, 2.0, 3.0, 4.0], [0.5, 1.0]),
        ("only the initial point recorded", [0.0], [0.0, 1.0, 2.0]),
        ("last recorded event beyond the grid", [0.0, 0.7, 1.4, 6.0], [0.0, 1.0, 2.0, 3.0]),
    ]
    for label, times, targets in cases:
        X = [Tok("x%d" % i) for i in range(len(times))]
        want = []
        for tg in targets:
            ks = [i for i, tt in enumerate(times) if tt <= tg]
            want.append(X[max(ks) if ks else 0])
        for tform, tval in (("list", list(targets)), ("array", NumArr(targets))):
            summ = num_summaries()
            me = Obj("Model")
            ab = Abs({}, {}, summ, me, {})
            tag = "last-event-before(%s, %s grid)" % (label, tform)
            try:
                kind, out = ab.run_function(f.node, {f.params[1]: NumArr(X), f.params[2]: NumArr(times), f.params[3]: tval})
            except Undecided as e:
                res.undecided(rule, f, tag, "outside the modelled subset: %s" % e)
                continue
            got = out.tolist() if isinstance(out, NumArr) else (list(out) if isinstance(out, list) else out)
            res.check(kind == "return" and got == want, rule, f, tag,
                      "event times %s, targets %s: each row is the state at the last event time <= target" % (times, targets),
                      "event times %s, targets %s: the look-up returns rows %s (%s), expected %s" % (times, targets, got, kind, want), node=f.node)


def _check_interp(repo, res, cls):
    """tau-leap output: every state column is np.interp(target grid, run times, that column)"""
    from ..core.symarr import SymArr, np_summaries
    f = repo.resolve_method(cls, "_interpolateObservationAtTime")
    if f is None:
        raise AnalysisError("_interpolateObservationAtTime vanished")
    X = SymArr.symbols("X", (4, 2))
    times = [0.0, 1.0, 2.5, 4.0]
    targets = [0.0, 2.0, 4.0]
    calls = []
    summ = np_summaries()

    def interp(x, xp, fp, *a, **k):
        calls.append((list(x), list(xp), fp))
        col = len(calls) - 1
        return SymArr.symbols("I%d" % col, (len(list(x)),))
    summ["np.interp"] = interp
    try:
        kind, out = Abs({}, {}, summ, Obj("Model")).run_function(f.node, {f.params[1]: X.copy(), f.params[2]: list(times), f.params[3]: list(targets)})
    except Undecided as e:
        res.undecided("R-LOOKUP", f, "interpolate", "outside the modelled subset: %s" % e)
        return
    problems = []
    if kind != "return":
        problems.append("raises %s" % (out,))
    else:
        if len(calls) != 2:
            problems.append("%d interpolations for 2 states" % len(calls))
        for i, c in enumerate(calls[:2]):
            if c[0] != targets or c[1] != times:
                problems.append("state %d is interpolated at %s over %s, expected the target grid over the run times" % (i, c[0], c[1]))
            if not (isinstance(c[2], SymArr) and c[2].same(X[:, i])):
                problems.append("state %d interpolates %s instead of its own column" % (i, c[2]))
        if isinstance(out, SymArr) and out.shape == (3, 2) and len(calls) == 2:
            for i in range(2):
                if not out[:, i].same(SymArr.symbols("I%d" % i, (3,))):
                    problems.append("interpolated state %d is not stored in column %d" % (i, i))
        else:
            problems.append("output is %r, expected a (targets x states) array" % (out,))
    res.check(not problems, "R-LOOKUP", f, "interpolate", "tau-leap rows: column i = np.interp(target grid, run times, column i), one row per target",
              "; ".join(problems), node=f.node)


def _check_gridded_runs(repo, res, cls):
    """solve_stochast on a grid, interpreted end to end with the runs replaced by scripted concrete paths (an overshooting path, a path that
    dies out inside the grid, a single-event path) and the output helpers interpreted from their own source: what comes out is compared with
    what the property defines - row k = state of the path at t_k, counts k = events of the path in interval k, rows differ by V*counts"""
    from ..core.numarr import NumArr, num_summaries
    f = repo.resolve_method(cls, "solve_stochast")
    res.rule("R-GRIDRUN", "gridded output of whole runs: one row per requested time, first row the initial state, (exact) row k = the path's state at t_k, "
             "counts of interval k = the path's events in it, consecutive rows differ by V times those counts")
    V = [[-1, 0], [1, -1], [0, 1]]                 # S->I, I->R on (S, I, R)

    def path(x0, times, events):
        X, J = [list(x0)], []
        for e in events:
            J.append([1 if i == e else 0 for i in range(2)])
            X.append([X[-1][s_] + V[s_][e] for s_ in range(3)])
        return X, J, [0.0] + list(times)
    paths = {
        "overshooting the grid": path([3, 1, 0], [0.3, 0.7, 1.1, 2.6, 2.9, 7.2], [0, 1, 0, 0, 1, 1]),
        "dying out inside the grid": path([1, 1, 0], [0.4, 1.5, 2.2], [0, 1, 1]),
        "single event": path([0, 1, 0], [1.75], [1]),
    }
    grids = {"even grid": [0.0, 1.0, 2.0, 3.0, 4.0], "uneven grid": [0.0, 0.5, 2.5, 6.0]}
    bad, n = [], 0
    for gl, grid in grids.items():
        for form, mk in (("list", list), ("tuple", tuple), ("array", lambda g: NumArr(list(g)))):
            for exact, full in ((True, True), (False, True), (True, False), (False, False)):
                order = list(paths)
                calls = []

                def jump(me_, finalT, exact=False, full_output=True, seed=None, **k):
                    X, J, T = paths[order[len(calls) % len(order)]]
                    calls.append((finalT, exact))
                    if not exact:
                        # tau-leap records: several firings per step (two steps merged where possible)
                        pass
                    return _SX.in_jump_order(repo, NumArr([list(r) for r in X]), NumArr([list(r) for r in J]), NumArr(list(T)), NumArr([b - a for a, b in zip(T, T[1:])]))
                summ = dict(num_summaries())
                summ.update({"Model._jump": jump, "logging.debug": lambda *a, **k: None, "logging.warning": lambda *a, **k: None})
                me = Obj("Model", _x0=NumArr([3, 1, 0]))
                types = {"Number": lambda v: isinstance(v, (int, float)) and not isinstance(v, bool), "numbers.Number": lambda v: isinstance(v, (int, float)) and not isinstance(v, bool),
                         "np.ndarray": lambda v: isinstance(v, NumArr)}
                ab = Abs({}, types, summ, me, {}, budget=400000)
                ab.class_methods = set(repo.all_methods(cls))
                ab.self_class = (repo, cls)
                ab.module = f.module
                tag = "%s as %s, exact=%s%s" % (gl, form, exact, "" if full else ", full_output=False")
                try:
                    kind, out = ab.run_function(f.node, {"t": mk(grid), "iteration": len(order), "parallel": False, "exact": exact, "full_output": full})
                except Undecided as e:
                    res.undecided("R-GRIDRUN", f, "whole-runs", "outside the modelled subset (%s): %s" % (tag, e))
                    return
                n += 1
                if kind != "return":
                    bad.append("%s: raises %s" % (tag, out))
                    continue
                if not full:
                    # only the states are returned: the same rows as with full output
                    if not (isinstance(out, list) and len(out) == len(order)):
                        bad.append("%s: the output is not one state array per run" % tag)
                        continue
                    out = (out, [None] * len(order), None)
                if not (isinstance(out, tuple) and len(out) == 3 and len(out[0]) == len(order) and len(out[1]) == len(order)):
                    bad.append("%s: the output is not (states per run, counts per run, grid) for %d runs" % (tag, len(order)))
                    continue
                if [c[0].tolist() if isinstance(c[0], NumArr) else c[0] for c in calls] not in ([[grid[-1]]] * len(order), [grid[-1]] * len(order)) or any(c[1] != exact for c in calls):
                    bad.append("%s: the runs are started with (final time, exact) = %s, expected the last grid time and the caller's flag" % (tag, calls))
                    continue
                for k, pl in enumerate(order):
                    X, J, T = paths[pl]
                    rows = out[0][k].tolist() if isinstance(out[0][k], NumArr) else out[0][k]
                    cnts = out[1][k].tolist() if isinstance(out[1][k], NumArr) else out[1][k]
                    if not full:
                        cnts = None
                    if exact:
                        want_rows = [X[max(i for i, te in enumerate(T) if te <= tk)] for tk in grid]
                    else:
                        want_rows = []
                        for tk in grid:
                            if tk >= T[-1]:
                                want_rows.append([float(v) for v in X[-1]])
                                continue
                            j = max(i for i, te in enumerate(T) if te <= tk)
                            w = (tk - T[j]) / (T[j + 1] - T[j])
                            want_rows.append([X[j][s_] + w * (X[j + 1][s_] - X[j][s_]) for s_ in range(3)])
                    want_cnts = [[sum(J[e][i] for e in range(len(J)) if (grid[q] < T[e + 1] <= grid[q + 1])) for i in range(2)] for q in range(len(grid) - 1)]

                    def same(a, b):
                        return isinstance(a, list) and len(a) == len(b) and all(isinstance(r, list) and len(r) == len(w_) and all(abs(x - y) < 1e-9 for x, y in zip(r, w_)) for r, w_ in zip(a, b))
                    if not same(rows, want_rows):
                        bad.append("%s, path %s (event times %s): the rows are %s, expected %s" % (tag, pl, T[1:], rows, want_rows))
                    elif cnts is None:
                        pass
                    elif not same(cnts, want_cnts):
                        bad.append("%s, path %s (event times %s): the per-interval counts are %s, expected %s" % (tag, pl, T[1:], cnts, want_cnts))
                    elif exact and any(abs((rows[q + 1][s_] - rows[q][s_]) - sum(V[s_][i] * cnts[q][i] for i in range(2))) > 1e-9 for q in range(len(grid) - 1) for s_ in range(3)):
                        bad.append("%s, path %s: consecutive rows do not differ by V times the counts" % (tag, pl))
    # a scalar horizon (number or one-element list): the raw runs come back untouched, as (states, counts, times) per run
    for form, value in (("number", 4.0), ("one-element list", [4.0]), ("one-element tuple", (4.0,))):
        for exact in (True, False):
            order = list(paths)
            calls = []

            def jump2(me_, finalT, exact=False, full_output=True, seed=None, **k):
                X, J, T = paths[order[len(calls) % len(order)]]
                calls.append((finalT, exact))
                return _SX.in_jump_order(repo, NumArr([list(r) for r in X]), NumArr([list(r) for r in J]), NumArr(list(T)), NumArr([b - a for a, b in zip(T, T[1:])]))
            summ = dict(num_summaries())
            summ.update({"Model._jump": jump2, "logging.debug": lambda *a, **k: None, "logging.warning": lambda *a, **k: None})
            me = Obj("Model", _x0=NumArr([3, 1, 0]))
            ab = Abs({}, types, summ, me, {}, budget=400000)
            ab.class_methods = set(repo.all_methods(cls))
            ab.self_class = (repo, cls)
            ab.module = f.module
            tag = "horizon as %s, exact=%s" % (form, exact)
            try:
                kind, out = ab.run_function(f.node, {"t": value, "iteration": len(order), "parallel": False, "exact": exact, "full_output": True})
            except Undecided as e:
                res.undecided("R-GRIDRUN", f, "whole-runs", "outside the modelled subset (%s): %s" % (tag, e))
                return
            n += 1
            if kind != "return":
                bad.append("%s: raises %s" % (tag, out))
                continue
            fin = [c[0].tolist() if isinstance(c[0], NumArr) else c[0] for c in calls]
            ok = isinstance(out, tuple) and len(out) == 3 and all(len(o) == len(order) for o in out) and fin in ([4.0] * len(order), [[4.0]] * len(order)) and all(c[1] == exact for c in calls)
            if ok:
                for k, pl in enumerate(order):
                    X, J, T = paths[pl]
                    ok = ok and isinstance(out[0][k], NumArr) and out[0][k].tolist() == X and isinstance(out[1][k], NumArr) and out[1][k].tolist() == J \
                        and isinstance(out[2][k], NumArr) and out[2][k].tolist() == T
            if not ok:
                bad.append("%s: the raw runs are not returned as (states, counts, times) per run in run order (runs started with %s)" % (tag, calls))
    res.check(not bad, "R-GRIDRUN", f, "whole-runs", "%d gridded calls (list / tuple / array grids, even and uneven, exact and tau-leap) over 3 scripted paths each: rows, counts and their "
              "relation are those of the underlying path" % n, "; ".join(bad[:2]), node=f.node)
    res.floor("gridded calls interpreted", n, 30)
