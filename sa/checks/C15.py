"""C15 - gridded stochastic output agrees with the underlying path.

 S1 R-LOOPDEP  _addJumpsBetweenTime: the value stored in column i depends on i on every
               path; when it is a histogram it bins the event times t[1:] on the target grid
               weighted by column i of the counts
 S2 R-LOOKUP   _extractObservationAtTime: one row per target, in order; row = state at the
               last event time <= target (abstract execution over a path with targets that
               hit an event time, fall between events, precede the first and follow the last)
 S4 R-STEP/R-FR  the per-step counts that are binned are the counts that were applied to the state
 S3 R-GRIDIO   solve_stochast: list / tuple / array grids are normalised alike; final time =
               last grid point; states go through the last-event look-up iff exact; counts
               through _addJumpsBetweenTime(counts, times, grid, exact); the grid is returned
"""
import ast

from ..core.source import AnalysisError, norm, dotted, is_self_attr, walk_no_nested, const_value, kwarg
from ..core.cfg import cfg_of
from ..core.dataflow import dataflow_of
from ..core.absint import Abs, Obj, Tok, AList, Raised
from ..core.algebra import Undecided
from ..rules import model as M
from ..rules import common as C

TECHNIQUE = ("static analysis: loop-variable dependence of the stored column (R-LOOPDEP), abstract execution of the "
             "look-up routine over a finite class of target positions and of the time-argument normalisation over all "
             "accepted grid forms, with numpy routines replaced by their documented semantics on token lists")


def check(repo, res, tier):
    res.rule("R-LOOPDEP", "a value stored at [..., i] inside `for i` depends on i on every path")
    res.rule("R-LOOKUP", "row k = state at the last event time <= target k; one row per target in order")
    res.rule("R-GRIDIO", "grid forms normalised alike; exact -> last-event look-up; counts processed with (counts, times, grid, exact)")
    res.s_clauses = ["S1 R-LOOPDEP", "S2 R-LOOKUP", "S3 R-GRIDIO"]
    res.n_clauses = ["that consecutive rows differ by V times the interval counts numerically (follows from S1-S3 and C04)",
                     "tau-leap interpolation accuracy"]
    cls = M.sim_class(repo)
    # S4: "rows differ by V times the counts of that interval" needs the per-step counts to be the counts that were
    # applied (one-hot at the fired event in exact mode; the drawn count per event in tau mode) and to be recorded
    from ..rules import stepx as X
    res.rule("R-WALK", "per-step counts recorded = counts applied to the state (exact mode: one-hot at the fired event), recorded with the state and time they produced")
    n = X.check_walks(repo, res)
    res.floor("walk scenarios interpreted", n, 15)
    _check_loopdep(repo, res, cls)
    _check_lookup(repo, res, cls)
    _check_interp(repo, res, cls)
    _check_gridio(repo, res, cls)


def _check_loopdep(repo, res, cls):
    """_addJumpsBetweenTime, interpreted on concrete event records: entry [k, i] of the result is the number of firings of transition i
    whose event time lies in the k-th interval of the requested grid (so that consecutive gridded states differ by V times row k)"""
    from ..core.absint import Abs as _Abs, Obj as _Obj
    from ..core.numarr import NumArr, num_summaries
    f = repo.resolve_method(cls, "_addJumpsBetweenTime")
    if f is None:
        raise AnalysisError("_addJumpsBetweenTime vanished")
    cases = []
    # (label, per-step counts, times incl. the initial time, grid)
    onehot = [[1, 0, 0], [0, 1, 0], [1, 0, 0], [0, 0, 1], [0, 1, 0], [1, 0, 0]]
    times = [0.0, 0.3, 0.7, 1.1, 2.6, 2.9, 7.2]
    cases.append(("exact, even grid", onehot, times, [0.0, 2.0, 4.0, 6.0, 8.0], True))
    cases.append(("exact, uneven grid", onehot, times, [0.0, 0.5, 1.0, 3.0, 8.0, 20.0], True))
    cases.append(("exact, grid past the last event", onehot, times, [0.0, 1.0, 5.0, 10.0, 50.0, 51.0], True))
    cases.append(("exact, path longer than the grid", onehot, times, [0.0, 0.5, 2.8], True))
    cases.append(("exact, two transitions only", [[1, 0], [1, 0], [0, 1]], [0.0, 0.2, 0.4, 1.7], [0.0, 0.25, 1.5, 2.0], True))
    cases.append(("exact, one transition", [[1], [1], [1]], [0.0, 0.2, 0.4, 1.7], [0.0, 0.3, 3.0], True))
    cases.append(("tau-leap counts, uneven grid", [[3, 0, 1], [2, 2, 0], [0, 5, 1], [1, 1, 1]], [0.0, 0.5, 1.0, 1.5, 2.0], [0.0, 0.75, 1.25, 4.0], False))
    cases.append(("list inputs", onehot, times, [0.0, 0.5, 1.0, 3.0, 8.0], True))
    bad, n = [], 0
    for label, dX, t, grid, exact in cases:
        as_list = label == "list inputs"
        summ = dict(num_summaries())
        me = _Obj("Model")
        ab = _Abs({}, {}, summ, me, {}, budget=50000)
        ab.module = f.module
        args = dict(zip(f.params[1:], [[list(r) for r in dX] if as_list else NumArr([list(r) for r in dX]), list(t) if as_list else NumArr(list(t)),
                                       list(grid) if as_list else NumArr(list(grid)), exact]))
        try:
            kind, out = ab.run_function(f.node, args)
        except Undecided as e:
            res.undecided("R-LOOPDEP", f, "interval-counts", "outside the modelled subset: %s" % e)
            return
        n += 1
        nT = len(dX[0])
        want = [[0] * nT for _ in range(len(grid) - 1)]
        for s_, row in enumerate(dX):
            te = t[s_ + 1]
            for k in range(len(grid) - 1):
                last = k == len(grid) - 2
                if grid[k] <= te < grid[k + 1] or (last and te == grid[k + 1]):
                    for i_ in range(nT):
                        want[k][i_] += row[i_]
        got = out.tolist() if isinstance(out, NumArr) else out
        if kind != "return":
            bad.append("%s: raises %s" % (label, out))
        elif not (isinstance(got, list) and len(got) == len(want) and all(isinstance(r, list) and len(r) == nT and all(abs(a - b) < 1e-9 for a, b in zip(r, w_)) for r, w_ in zip(got, want))):
            bad.append("%s: for event times %s with per-step counts %s on the grid %s the per-interval counts are %s, expected %s (one row per interval, one column per transition)"
                       % (label, t[1:], dX, grid, got, want))
    res.check(not bad, "R-LOOPDEP", f, "interval-counts", "per-interval counts are per-transition counts of the events inside each interval of the requested grid (%d event records, "
              "even / uneven grids, grids longer and shorter than the path, exact and tau-leap counts)" % n, "; ".join(bad[:2]), node=f.node)
    res.floor("interval-count cases interpreted", n, 8)


# numpy semantics on plain lists ------------------------------------------------
class Arr(AList):
    pass


def _np_summaries():
    def searchsorted(a, v, side="left"):
        import bisect
        return bisect.bisect_left(list(a), v) if side == "left" else bisect.bisect_right(list(a), v)

    def where(mask):
        return ([i for i, m in enumerate(mask) if m],)
    return {"np.any": lambda m: any(m), "np.where": where, "np.searchsorted": searchsorted,
            "np.array": lambda x, *a, **k: Arr(list(x), "ndarray") if isinstance(x, (list, tuple)) else x,
            "max": lambda *a: max(a) if len(a) > 1 else max(a[0]), "min": lambda *a: min(a) if len(a) > 1 else min(a[0])}


def _arr_eq(a, b):
    return None


def _check_lookup(repo, res, cls, rule="R-LOOKUP"):
    """the exact-mode look-up interpreted over concrete event times and opaque state rows (loop or vectorised form)"""
    from ..core.numarr import NumArr, num_summaries
    f = repo.resolve_method(cls, "_extractObservationAtTime")
    if f is None:
        raise AnalysisError("_extractObservationAtTime vanished")
    cases = [
        ("hits, gaps and times after the last event", [0.0, 1.0, 2.5, 4.0], [0.0, 0.5, 1.0, 2.0, 2.5, 3.9, 4.0, 7.0, 9.0]),
        ("a target before the first recorded time", [1.0, 2.0, 3.0, 4.0], [0.5, 1.0]),
        ("only the initial point recorded", [0.0], [0.0, 1.0, 2.0]),
        ("last recorded event beyond the grid", [0.0, 0.7, 1.4, 6.0], [0.0, 1.0, 2.0, 3.0]),
    ]
    for label, times, targets in cases:
        X = [Tok("x%d" % i) for i in range(len(times))]
        want = []
        for tg in targets:
            ks = [i for i, tt in enumerate(times) if tt <= tg]
            want.append(X[max(ks) if ks else 0])
        for tform, tval in (("list", list(targets)), ("array", NumArr(targets))):
            summ = num_summaries()
            me = Obj("Model")
            ab = Abs({}, {}, summ, me, {})
            tag = "last-event-before(%s, %s grid)" % (label, tform)
            try:
                kind, out = ab.run_function(f.node, {f.params[1]: NumArr(X), f.params[2]: NumArr(times), f.params[3]: tval})
            except Undecided as e:
                res.undecided(rule, f, tag, "outside the modelled subset: %s" % e)
                continue
            got = out.tolist() if isinstance(out, NumArr) else (list(out) if isinstance(out, list) else out)
            res.check(kind == "return" and got == want, rule, f, tag,
                      "event times %s, targets %s: each row is the state at the last event time <= target" % (times, targets),
                      "event times %s, targets %s: the look-up returns rows %s (%s), expected %s" % (times, targets, got, kind, want), node=f.node)


def _check_interp(repo, res, cls):
    """tau-leap output: every state column is np.interp(target grid, run times, that column)"""
    from ..core.symarr import SymArr, np_summaries
    f = repo.resolve_method(cls, "_interpolateObservationAtTime")
    if f is None:
        raise AnalysisError("_interpolateObservationAtTime vanished")
    X = SymArr.symbols("X", (4, 2))
    times = [0.0, 1.0, 2.5, 4.0]
    targets = [0.0, 2.0, 4.0]
    calls = []
    summ = np_summaries()

    def interp(x, xp, fp, *a, **k):
        calls.append((list(x), list(xp), fp))
        col = len(calls) - 1
        return SymArr.symbols("I%d" % col, (len(list(x)),))
    summ["np.interp"] = interp
    try:
        kind, out = Abs({}, {}, summ, Obj("Model")).run_function(f.node, {f.params[1]: X.copy(), f.params[2]: list(times), f.params[3]: list(targets)})
    except Undecided as e:
        res.undecided("R-LOOKUP", f, "interpolate", "outside the modelled subset: %s" % e)
        return
    problems = []
    if kind != "return":
        problems.append("raises %s" % (out,))
    else:
        if len(calls) != 2:
            problems.append("%d interpolations for 2 states" % len(calls))
        for i, c in enumerate(calls[:2]):
            if c[0] != targets or c[1] != times:
                problems.append("state %d is interpolated at %s over %s, expected the target grid over the run times" % (i, c[0], c[1]))
            if not (isinstance(c[2], SymArr) and c[2].same(X[:, i])):
                problems.append("state %d interpolates %s instead of its own column" % (i, c[2]))
        if isinstance(out, SymArr) and out.shape == (3, 2) and len(calls) == 2:
            for i in range(2):
                if not out[:, i].same(SymArr.symbols("I%d" % i, (3,))):
                    problems.append("interpolated state %d is not stored in column %d" % (i, i))
        else:
            problems.append("output is %r, expected a (targets x states) array" % (out,))
    res.check(not problems, "R-LOOKUP", f, "interpolate", "tau-leap rows: column i = np.interp(target grid, run times, column i), one row per target",
              "; ".join(problems), node=f.node)


def _check_gridio(repo, res, cls):
    f = repo.resolve_method(cls, "solve_stochast")
    if f is None:
        raise AnalysisError("solve_stochast vanished")
    grid = [1.0, 2.0, 3.0]
    n_forms = 0
    for form, value in (("list", list(grid)), ("tuple", tuple(grid)), ("ndarray", Arr(list(grid), "ndarray")), ("scalar", 3.0), ("list-of-one", [3.0])):
        for exact in (True, False):
            n_forms += 1
            calls = {"jump": [], "extract": [], "interp": [], "addjumps": []}
            me = Obj("Model", _x0=Tok("x0"))

            def jump(me_, finalT, exact=False, full_output=True, seed=None, _c=calls):
                _c["jump"].append((finalT, exact, seed))
                k = len(_c["jump"])
                return (Tok("X%d" % k), Tok("J%d" % k), Tok("T%d" % k), Tok("dT%d" % k))
            summ = _np_summaries()
            summ.update({
                "np.all": lambda x: True, "np.mod": lambda a, b: Tok("mod"),
                "logging.debug": lambda *a: None, "logging.warning": lambda *a: None,
                "Model._jump": jump,
                "Model._extractObservationAtTime": lambda me_, X, t_, tt, _c=calls: (_c["extract"].append((X, t_, tt)), Tok("E(%r)" % X))[1],
                "Model._interpolateObservationAtTime": lambda me_, X, t_, tt, _c=calls: (_c["interp"].append((X, t_, tt)), Tok("I(%r)" % X))[1],
                "Model._addJumpsBetweenTime": lambda me_, dX, t_, tt, ex, _c=calls: (_c["addjumps"].append((dX, t_, tt, ex)), Tok("A(%r)" % dX))[1],
            })
            types = {"Number": lambda v: isinstance(v, (int, float)) and not isinstance(v, bool),
                     "np.ndarray": lambda v: isinstance(v, Arr)}

            def eq(a, b):
                if isinstance(a, Tok) and a.label == "mod":
                    return True
                return None
            ab = Abs({}, types, summ, me, {}, eq=eq)
            tag = "%s,exact=%s" % (form, exact)
            try:
                kind, out = ab.run_function(f.node, {"t": value, "iteration": 2, "parallel": False, "exact": exact, "full_output": True})
            except Undecided as e:
                res.undecided("R-GRIDIO", f, tag, "outside the modelled subset: %s" % e)
                continue
            if kind != "return":
                res.violated("R-GRIDIO", f, tag, "solve_stochast raises %s for a %s time argument" % (out, form), node=f.node)
                continue
            gridded = form in ("list", "tuple", "ndarray")
            problems = []
            finals = [c[0] for c in calls["jump"]]
            if len(calls["jump"]) != 2:
                problems.append("%d runs for iteration=2" % len(calls["jump"]))
            for fin in finals:
                fv = fin[0] if isinstance(fin, (list, tuple)) and len(fin) == 1 else fin
                if fv != 3.0:
                    problems.append("final time handed to the run is %r, expected the last grid point 3.0" % (fin,))
            if any(c[1] != exact for c in calls["jump"]):
                problems.append("the exact flag is not forwarded to the runs")
            if any(c[2] is not None for c in calls["jump"]):
                problems.append("serial runs receive a seed argument")
            if gridded:
                which = calls["extract"] if exact else calls["interp"]
                other = calls["interp"] if exact else calls["extract"]
                if other:
                    problems.append("states of %s runs go through %s" % ("exact" if exact else "tau-leap", "interpolation" if exact else "the last-event look-up"))
                want_args = [(Tok("X%d" % k), Tok("T%d" % k)) for k in (1, 2)]
                if [(a[0], a[1]) for a in which] != want_args or any(list(a[2]) != grid for a in which):
                    problems.append("state processing receives %s, expected (states_k, times_k, grid)" % [(a[0], a[1], a[2]) for a in which])
                if [(a[0], a[1], a[3]) for a in calls["addjumps"]] != [(Tok("J%d" % k), Tok("T%d" % k), exact) for k in (1, 2)] \
                        or any(list(a[2]) != grid for a in calls["addjumps"]):
                    problems.append("count processing receives %s, expected (counts_k, times_k, grid, exact)" % calls["addjumps"])
                if not (isinstance(out, tuple) and len(out) == 3 and list(out[2]) == grid):
                    problems.append("third output is %r, expected the grid" % (out[2] if isinstance(out, tuple) and len(out) == 3 else out,))
                else:
                    pre = "E" if exact else "I"
                    if list(out[0]) != [Tok("%s(%r)" % (pre, Tok("X%d" % k))) for k in (1, 2)]:
                        problems.append("returned states %s are not the processed runs in run order" % (out[0],))
                    if list(out[1]) != [Tok("A(%r)" % Tok("J%d" % k)) for k in (1, 2)]:
                        problems.append("returned counts %s are not the processed runs in run order" % (out[1],))
            else:
                if calls["extract"] or calls["interp"] or calls["addjumps"]:
                    problems.append("a scalar horizon triggers grid processing")
                if not (isinstance(out, tuple) and len(out) == 3 and list(out[0]) == [Tok("X1"), Tok("X2")] and list(out[2]) == [Tok("T1"), Tok("T2")]):
                    problems.append("raw runs are not returned as (states, counts, times)")
            res.check(not problems, "R-GRIDIO", f, tag, "%s time argument handled as specified" % form, "; ".join(problems), node=f.node)
    res.floor("time-argument forms", n_forms, 10)
