"""C02 - deterministic solvers return the solution at each requested time.

 S1 R-ALIAS  a value read from `.y` of a scipy.integrate.ode object (the integrator's
             internal buffer) does not escape into a return value / the solution list
             without a copying operation.
 S2 R-ROWS   integrateFuncJac: origin first iff includeOrigin, exactly one row per
             element of t on every path through the loop, row k from stepping to t[k],
             nothing reorders the list, result = np.array(list).
 S3 R-GRID   _setIntegrateTime prepends t0; _integrate hands the whole grid to odeint;
             _integrate2 hands t[0], t[1:] with includeOrigin=True.
 S4 R-PAIRFJ every integrateFuncJac / odeint call site passes a (func, jac) pair that
             belongs together with the argument order the callee uses; R-FWD the
             time-first wrappers forward their arguments to same-named parameters.
 S5 R-TABLE  integrator names chosen by the eigenvalue rule are handled by the set-up
             chain, which maps each name to the intended scipy integrator with
             tolerances, and sets the initial value (x0, t0).
 S6 R-SHAPE  jacobian stays 2-D for one-state models (needed by np.linalg.eig).
"""
import ast

from ..core.source import AnalysisError, norm, dotted, is_self_attr, walk_no_nested, kwarg, const_value
from ..core.cfg import cfg_of
from ..core.dataflow import dataflow_of
from ..rules import model as M
from ..rules import common as C
from ..rules.shape import check_shapes

TECHNIQUE = ("static analysis: taint of the integrator buffer `.y` with copy sanitisers (R-ALIAS), CFG path counting of "
             "appends per loop iteration (R-ROWS), slice/argument agreement (R-GRID), call-site pairing of func/jac and "
             "parameter-name agreement of time-first wrappers (R-PAIRFJ/R-FWD), literal table agreement (R-TABLE)")

VIEW_METHODS = {"ravel", "reshape", "view", "squeeze", "transpose", "swapaxes", "__array__"}
VIEW_FUNCS = {"np.asarray", "np.asanyarray", "np.ravel", "np.reshape", "np.atleast_1d", "np.atleast_2d",
              "np.squeeze", "np.transpose", "numpy.asarray"}
INTEGRATOR_MAKERS = ("scipy.integrate.ode", "integrate.ode", "_setupIntegrator", "set_integrator",
                     "set_initial_value", "set_f_params", "set_jac_params")


def integrator_names(repo, mod):
    """{function name: set(local names / params that hold a scipy.integrate.ode object)}"""
    typed = {f.name: set() for f in mod.functions.values()}
    changed = True
    while changed:
        changed = False
        for f in mod.functions.values():
            cfg, df = cfg_of(f), dataflow_of(f)
            for d in df.defs:
                if d.kind == "assign" and d.value is not None and d.name not in typed[f.name]:
                    rts = df.roots(d.value, d.node, depth=3)
                    if any(r[0] == "call" and r[1] and any(r[1] == m or r[1].endswith("." + m) or r[1].endswith(m) for m in INTEGRATOR_MAKERS)
                           for r in rts):
                        typed[f.name].add(d.name)
                        changed = True
            # propagate to callees' parameters
            for n, c, callee in C.calls(f):
                g = mod.functions.get(callee)
                if g is None:
                    continue
                for p, a in C.bind_args(c, g.params).items():
                    if isinstance(a, ast.Name) and a.id in typed[f.name] and p not in typed[g.name]:
                        typed[g.name].add(p)
                        changed = True
    return typed


def may_alias(expr, df, at, inames, summaries, depth=6, mod=None):
    """may `expr` evaluated at `at` be (a view of) an integrator's .y buffer?"""
    if depth <= 0 or expr is None:
        return False
    e = expr
    if isinstance(e, ast.Attribute):
        if e.attr == "y" and isinstance(e.value, ast.Name) and e.value.id in inames:
            return True
        if e.attr in ("T", "real", "flat"):
            return may_alias(e.value, df, at, inames, summaries, depth - 1, mod)
        return False
    if isinstance(e, ast.Subscript):
        # basic slicing gives a view; integer indexing of a 1-d buffer gives a scalar copy
        if isinstance(e.slice, ast.Slice) or (isinstance(e.slice, ast.Tuple) and any(isinstance(x, ast.Slice) for x in e.slice.elts)):
            return may_alias(e.value, df, at, inames, summaries, depth - 1, mod)
        # element of a returned tuple:  result[0]
        if isinstance(e.slice, ast.Constant) and isinstance(e.value, ast.Call):
            s = _callee_summary(e.value, summaries)
            return s is not None and e.slice.value in s
        return False
    if isinstance(e, ast.Call):
        dn = dotted(e.func)
        if dn in VIEW_FUNCS and e.args:
            return may_alias(e.args[0], df, at, inames, summaries, depth - 1, mod)
        if isinstance(e.func, ast.Attribute) and e.func.attr in VIEW_METHODS:
            return may_alias(e.func.value, df, at, inames, summaries, depth - 1, mod)
        s = _callee_summary(e, summaries)
        if s is not None:
            return "whole" in s
        return False
    if isinstance(e, ast.Name):
        for d in df.strong_defs(at, e.id):
            if d.kind == "assign" and d.value is not None:
                if d.slot:
                    if isinstance(d.value, ast.Call):
                        s = _callee_summary(d.value, summaries)
                        if s is not None and len(d.slot) == 1 and d.slot[0] in s:
                            return True
                    continue
                if may_alias(d.value, df, d.node, inames, summaries, depth - 1, mod):
                    return True
        return False
    if isinstance(e, ast.IfExp):
        return may_alias(e.body, df, at, inames, summaries, depth - 1, mod) or may_alias(e.orelse, df, at, inames, summaries, depth - 1, mod)
    return False


def _callee_summary(call, summaries):
    dn = dotted(call.func)
    if dn is None:
        return None
    return summaries.get(dn.split(".")[-1])


def check(repo, res, tier):
    res.rule("R-ALIAS", "the integrator's .y buffer never escapes uncopied into a return value or the solution list")
    res.rule("R-ROWS", "origin first iff includeOrigin; exactly one append per element of t on every path; row k from stepping to t[k]; result np.array(list)")
    res.rule("R-GRID", "t0 is prepended to the requested grid; _integrate/_integrate2 hand the grid on unchanged (t[0], t[1:], includeOrigin=True)")
    res.rule("R-PAIRFJ", "func/jac passed to integrateFuncJac/odeint belong together and have the argument order the callee uses")
    res.rule("R-FWD", "time-first wrappers forward each argument to the same-named parameter of the base method")
    res.rule("R-TABLE", "integrator names chosen are handled; set-up chain maps names to the intended scipy integrators, with tolerances and initial value")
    res.rule("R-SHAPE", "matrix-valued evaluators are registered as matrices")
    res.s_clauses = ["S1 R-ALIAS", "S2 R-ROWS", "S3 R-GRID", "S4 R-PAIRFJ/R-FWD", "S5 R-TABLE", "S6 R-SHAPE(jacobian)"]
    res.n_clauses = ["each row equals the true ODE solution to solver tolerance (accuracy of scipy's integrators)",
                     "quality of the eigenvalue heuristic that picks the integrator"]
    mod = repo.module(M.M_UTILS)
    ifj = repo.func(M.M_UTILS, "integrateFuncJac")
    ios = repo.func(M.M_UTILS, "_integrateOneStep")
    setup = repo.func(M.M_UTILS, "_setupIntegrator")
    choose = repo.func(M.M_UTILS, "_determineIntegratorGivenEigenValue")
    integ = repo.func(M.M_UTILS, "integrate")

    # ---------------------------------------------------------------- R-ALIAS
    typed = integrator_names(repo, mod)
    summaries = {}     # function name -> set of tuple slots / 'whole' that may alias the buffer
    n_reads = 0
    order = [f for f in mod.functions.values()]
    for _round in range(3):
        for f in order:
            inames = typed.get(f.name, set())
            cfg, df = cfg_of(f), dataflow_of(f)
            s = set()
            for n in C.returns_of(f):
                v = n.ast.value
                if v is None:
                    continue
                if isinstance(v, ast.Tuple):
                    for i, el in enumerate(v.elts):
                        if may_alias(el, df, n, inames, summaries):
                            s.add(i)
                elif may_alias(v, df, n, inames, summaries):
                    s.add("whole")
                    s.add(0)
            if s:
                summaries[f.name] = s
    for f in order:
        inames = typed.get(f.name, set())
        cfg, df = cfg_of(f), dataflow_of(f)
        for n in cfg.stmt_nodes():
            for e in df.node_exprs(n):
                for x in walk_no_nested(e):
                    if isinstance(x, ast.Attribute) and x.attr == "y" and isinstance(x.value, ast.Name) and x.value.id in inames:
                        n_reads += 1
        if not inames and f.name not in ("integrateFuncJac",):
            continue
        res.functions.add(f.construct)
        for n in C.returns_of(f):
            v = n.ast.value
            if v is None:
                continue
            for i, el in enumerate(C.tuple_elts(v)):
                al = may_alias(el, df, n, inames, summaries)
                tag = "return[%d]@%s" % (i, norm(el)[:40])
                if al:
                    res.violated("R-ALIAS", f, tag,
                                 "returns %s, the integrator's internal state buffer (or a view of it), without copying: the next "
                                 "integrate() call overwrites it, so every row collected by the caller ends up equal to the last state"
                                 % norm(el), node=n.ast)
                elif inames:
                    res.holds("R-ALIAS", f, tag, "returned value is not the integrator buffer", node=n.ast)
        # containers that outlive the step
        for d in df.defs:
            if d.kind == "append":
                al = may_alias(d.value, df, d.node, inames, summaries)
                tag = "append(%s)@%s" % (d.name, norm(d.value)[:40])
                if al:
                    res.violated("R-ALIAS", f, tag,
                                 "%s.append(%s) stores the integrator's state buffer (or a view) in a list that outlives the step; "
                                 "later steps overwrite the stored rows" % (d.name, norm(d.value)), node=d.stmt)
                elif inames or f.name == "integrateFuncJac":
                    res.holds("R-ALIAS", f, tag, "appended value is not the integrator buffer", node=d.stmt)
    res.floor(".y reads of integrator objects", n_reads, 5)

    # ----------------------------------------------------------------- R-ROWS
    _check_rows(res, ifj, ios)

    # ----------------------------------------------------------------- R-GRID
    _check_grid(repo, res)

    # -------------------------------------------------------- R-PAIRFJ / R-FWD
    _check_pairs(repo, res, integ)

    # ---------------------------------------------------------------- R-TABLE
    _check_table(res, ifj, setup, choose)

    from ..rules.sweep import gate_call_arity
    gate_call_arity(repo, res, {"pygom/model/ode_utils/__init__.py", "pygom/model/deterministic.py"})
    # ---------------------------------------------------------------- R-SHAPE
    check_shapes(repo, res, {"jacobian"}, {"jacobian": "integrateFuncJac(full_output=True), always used by integrate2, applies np.linalg.eig to it"})


# --------------------------------------------------------------------------- rows
def _check_rows(res, ifj, ios):
    """integrateFuncJac interpreted with the stepper replaced by a recorder: the rows returned must be
    ([x0] if includeOrigin) + [state after stepping to t_k for each k, in order], whatever container is used"""
    from ..core.absint import Abs, Obj, Tok, AList, Raised
    from ..core.symarr import SymArr, np_summaries
    from ..core import algebra as A
    params = ifj.params
    for need in ("t", "x0", "includeOrigin", "full_output"):
        if need not in params:
            raise AnalysisError("integrateFuncJac lost its parameter %s" % need)
    n_cases = 0
    for tform, tval, times in (("list", [1.0, 2.0, 3.5], [1.0, 2.0, 3.5]), ("tuple", (1.0, 2.0, 3.5), [1.0, 2.0, 3.5]), ("scalar", 2.0, [2.0]),
                               ("one-element", [4.0], [4.0])):
        for inc in (False, True):
            for full in (False, True):
                for method in (None, "vode"):
                    n_cases += 1
                    x0 = SymArr.symbols("x0", (2,))
                    rec = {"steps": [], "setup": []}

                    def step(r, t, func, jac, args=(), full_output=False, _rec=rec):
                        _rec["steps"].append(t)
                        row = SymArr.symbols("y@%s" % t, (2,))
                        return (row, True, Tok("e"), Tok("mx"), Tok("mn")) if full_output else row

                    def setup(func, jac, x0_, t0_, args=(), method_=None, nsteps=10000, _rec=rec):
                        _rec["setup"].append((x0_, t0_, method_))
                        return Obj("integrator")
                    summ = np_summaries()
                    arr = summ["np.array"]

                    def np_array(a, *aa, **kk):
                        try:
                            return arr(a)
                        except A.Undecided:
                            return list(a) if isinstance(a, (list, tuple)) else a
                    summ.update({"_integrateOneStep": step, "_setupIntegrator": setup, "np.array": np_array,
                                 "_determineIntegratorGivenEigenValue": lambda e: "lsoda", "np.linalg.eig": lambda m: (Tok("eig"), Tok("vec")),
                                 "is_list_like": lambda v: isinstance(v, (list, tuple)) or getattr(v, "_abs_native", False),
                                 "InputError": lambda *a: Tok("err")})
                    types = {"Number": lambda v: isinstance(v, (int, float)) and not isinstance(v, bool)}
                    env = {"func": ("py", lambda *a: Tok("f")), "jac": ("py", lambda *a: Tok("J"))}
                    ab = Abs({}, types, summ, None)
                    tag = "rows(t=%s,includeOrigin=%s,full_output=%s,method=%s)" % (tform, inc, full, method)
                    try:
                        kind, out = ab.run_function(ifj.node, dict(env, x0=x0, t0=0.0, t=tval, includeOrigin=inc, full_output=full, method=method))
                    except A.Undecided as e:
                        res.undecided("R-ROWS", ifj, tag, "outside the modelled subset: %s" % e)
                        continue
                    if kind != "return":
                        res.violated("R-ROWS", ifj, tag, "integrateFuncJac raises %s" % (out,), node=ifj.node)
                        continue
                    sol = out[0] if (full and isinstance(out, tuple)) else out
                    want_rows = ([x0] if inc else []) + [SymArr.symbols("y@%s" % t_, (2,)) for t_ in times]
                    want = SymArr.of([r_.tolist() for r_ in want_rows])
                    problems = []
                    if rec["steps"] != times:
                        problems.append("the integrator is stepped to %s, requested times are %s" % (rec["steps"], times))
                    if not isinstance(sol, SymArr):
                        problems.append("the solution returned is %r, not an array of rows" % (sol,))
                    elif sol.shape != want.shape or not sol.same(want):
                        problems.append("returned rows %s, expected %s" % (sol.tolist(), "x0 followed by " if inc else "" + "the state after each requested time in order"))
                    if full and not (isinstance(out, tuple) and len(out) == 2 and isinstance(out[1], dict)):
                        problems.append("full_output does not return (solution, info dict)")
                    if not rec["setup"] or not (isinstance(rec["setup"][0][0], SymArr) and rec["setup"][0][0].same(x0) and rec["setup"][0][1] == 0.0):
                        problems.append("the integrator is not started from (x0, t0)")
                    res.check(not problems, "R-ROWS", ifj, tag, "rows = %sstate at each requested time, in order" % ("x0, " if inc else ""),
                              "; ".join(problems), node=ifj.node)
    res.floor("row-assembly cases interpreted", n_cases, 32)
    # R-DTYPE: a pre-allocated solution container must not take its dtype from the initial state
    cfg, df = cfg_of(ifj), dataflow_of(ifj)
    for n, c, callee in C.calls(ifj):
        last = callee.split(".")[-1]
        uses_x0 = any(isinstance(x, ast.Name) and x.id == "x0" for a in list(c.args) + [k.value for k in c.keywords] for x in ast.walk(a))
        dt = kwarg(c, "dtype")
        if last in ("empty_like", "zeros_like", "full_like", "ones_like") and c.args and norm(c.args[0]) == "x0" and (dt is None or "x0" in norm(dt)):
            res.violated("R-ROWS", ifj, "container-dtype@%s" % norm(c)[:40],
                         "%s allocates the solution with the dtype of the initial state: with an integer x0 every row is truncated to whole numbers" % norm(c), node=c)
        elif last in ("empty", "zeros", "array", "full") and dt is not None and "x0" in norm(dt):
            res.violated("R-ROWS", ifj, "container-dtype@%s" % norm(c)[:40], "%s takes its dtype from the initial state" % norm(c), node=c)
    # _integrateOneStep: integrate(t) precedes every read of r.y; only successful steps return a state
    cfg2, df2 = cfg_of(ios), dataflow_of(ios)
    ip = ios.params
    r_p, t_p = ip[0], ip[1]
    integ_nodes = [n for n, c, callee in C.calls(ios) if callee == "%s.integrate" % r_p
                   and c.args and isinstance(c.args[0], ast.Name) and c.args[0].id == t_p]
    rets = C.returns_of(ios)
    res.check(bool(integ_nodes) and all(any(cfg2.dominates(i, r) for i in integ_nodes) for r in rets),
              "R-ROWS", ios, "step-to-t", "r.integrate(t) with the requested time precedes every return",
              "_integrateOneStep does not call %s.integrate(%s) before returning the state" % (r_p, t_p), node=ios.node)
    ok_s = True
    for r in rets:
        gs = C.if_guards(cfg2, r)
        if not any("successful" in norm(t.ast.test) and o is True for t, o in gs):
            ok_s = False
    res.check(ok_s and bool(rets), "R-ROWS", ios, "only-successful-steps", "a state is returned only when the integrator reports success",
              "a state is returned although the integrator did not report success", node=ios.node)
    # the state returned is the integrator's state (slot 0)
    for r in rets:
        el = C.tuple_elts(r.ast.value)[0]
        src = df2.expand(el, r)
        ok = any(isinstance(x, ast.Attribute) and x.attr == "y" and isinstance(x.value, ast.Name) and x.value.id == r_p for x in ast.walk(src))
        res.check(ok, "R-ROWS", ios, "returns-integrator-state@%s" % norm(el)[:30], "the first value returned is the integrator's state",
                  "`%s` is returned as the state, which is not %s.y" % (norm(el), r_p), node=r.ast)


def _is_array_call(v):
    return isinstance(v, ast.Call) and dotted(v.func) in ("np.array", "numpy.array", "np.asarray")


# --------------------------------------------------------------------------- grid
def _check_grid(repo, res):
    sit = repo.func(M.M_DET, "DeterministicOde._setIntegrateTime")
    cfg, df = cfg_of(sit), dataflow_of(sit)
    stores = [n for n in cfg.stmt_nodes() if n.kind == "stmt" and isinstance(n.ast, ast.Assign)
              and any(is_self_attr(t, "_odeTime") for t in n.ast.targets)]
    if not stores:
        res.violated("R-GRID", sit, "stores-grid", "self._odeTime is never assigned")
    n_forms = 0
    for s in stores:
        v = s.ast.value
        defs = df.strong_defs(s, v.id) if isinstance(v, ast.Name) else []
        vals = [(d.value, d) for d in defs] if defs else [(v, None)]
        for val, d in vals:
            n_forms += 1
            ok, why = _prepends_t0(val)
            if d is not None and d.kind == "param":
                ok, why = False, "a path stores the requested grid without the initial time"
            res.check(ok, "R-GRID", sit, "prepend-t0@%s" % norm(val)[:50], why, why + ": the output rows are shifted against the requested times",
                      node=d.stmt if d is not None and d.stmt is not None else s.ast)
    res.floor("accepted grid forms in _setIntegrateTime", n_forms, 2)
    # integrate -> _integrate(self._odeTime), integrate2 -> _integrate2(self._odeTime,...)
    for name, inner in (("integrate", "_integrate"), ("integrate2", "_integrate2")):
        f = repo.func(M.M_DET, "DeterministicOde." + name)
        cs = C.calls_to(f, "self." + inner)
        set_calls = C.calls_to(f, "self._setIntegrateTime")
        cfgf = cfg_of(f)
        ok = len(cs) >= 1 and all(c.args and is_self_attr(c.args[0], "_odeTime") for _, c, _ in cs) and bool(set_calls) \
            and all(any(cfgf.dominates(sn, n) for sn, _, _ in set_calls) for n, _, _ in cs) \
            and all(sc.args and isinstance(sc.args[0], ast.Name) and sc.args[0].id == f.params[1] for _, sc, _ in set_calls)
        res.check(ok, "R-GRID", f, "hands-full-grid", "%s builds the grid from its argument and passes self._odeTime to %s" % (name, inner),
                  "%s does not pass the grid built by _setIntegrateTime(t) to %s" % (name, inner), node=f.node)
    i1 = repo.func(M.M_DET, "DeterministicOde._integrate")
    cs = C.calls_to(i1, ("ode_utils.integrate", "integrate"))
    cs = [(n, c, d) for n, c, d in cs if d.endswith("ode_utils.integrate") or d == "integrate"]
    integ = repo.func(M.M_UTILS, "integrate")
    ok = False
    why = "no call of ode_utils.integrate"
    for n, c, d in cs:
        b = C.bind_args(c, integ.params)
        ok = isinstance(b.get("t"), ast.Name) and b["t"].id == i1.params[1] and is_self_attr(b.get("x0"), "_x0") \
            and isinstance(b.get("ode"), ast.Name) and b["ode"].id == "self"
        why = "odeint wrapper receives (self, self._x0, t)" if ok else "odeint wrapper receives ode=%s x0=%s t=%s" % (
            norm(b.get("ode")), norm(b.get("x0")), norm(b.get("t")))
    res.check(ok, "R-GRID", i1, "odeint-args", why, why, node=i1.node)
    i2 = repo.func(M.M_DET, "DeterministicOde._integrate2")
    ifj = repo.func(M.M_UTILS, "integrateFuncJac")
    cs = C.calls_to(i2, "integrateFuncJac")
    ok, why = False, "no call of integrateFuncJac"
    for n, c, d in cs:
        b = C.bind_args(c, ifj.params)
        tp = i2.params[1]
        t0, tt = b.get("t0"), b.get("t")
        t0_ok = isinstance(t0, ast.Subscript) and norm(t0.value) == tp and const_value(t0.slice) == 0
        tt_ok = isinstance(tt, ast.Subscript) and norm(tt.value) == tp and C.slice_parts(tt.slice) in (("1", None, None), ("1", None, "1"))
        io = b.get("includeOrigin")
        io_ok = const_value(io) is True
        x_ok = is_self_attr(b.get("x0"), "_x0")
        ok = t0_ok and tt_ok and io_ok and x_ok
        why = "integrateFuncJac(x0=self._x0, t0=t[0], t=t[1:], includeOrigin=True)" if ok else \
            "integrateFuncJac receives x0=%s t0=%s t=%s includeOrigin=%s" % (norm(b.get("x0")), norm(t0), norm(tt), norm(io))
    res.check(ok, "R-GRID", i2, "ode-stepper-args", why, why + ": rows no longer line up with (t0, requested times)", node=i2.node)
    # full_output handling: both return the solution first
    for f in (i1, i2):
        for r in C.returns_of(f):
            el = C.tuple_elts(r.ast.value)[0]
            res.check(is_self_attr(el, "_odeSolution"), "R-GRID", f, "returns-solution@%s" % norm(r.ast)[:40],
                      "returns the stored solution", "returns %s instead of the solution" % norm(el), node=r.ast)


def _prepends_t0(val):
    if isinstance(val, ast.Call):
        dn = dotted(val.func)
        if dn in ("np.append", "numpy.append") and len(val.args) >= 2:
            if is_self_attr(val.args[0], "_t0"):
                return True, "grid = np.append(self._t0, requested)"
            return False, "np.append(%s, %s) does not put the initial time first" % (norm(val.args[0]), norm(val.args[1]))
        if dn in ("np.insert", "numpy.insert") and len(val.args) >= 3:
            if const_value(val.args[1]) == 0 and is_self_attr(val.args[2], "_t0"):
                return True, "grid = np.insert(requested, 0, self._t0)"
            return False, "np.insert does not put the initial time first"
        if dn in ("np.concatenate", "np.hstack", "np.r_") and val.args:
            a = val.args[0]
            if isinstance(a, (ast.Tuple, ast.List)) and a.elts and "_t0" in norm(a.elts[0]):
                return True, "grid = concatenate((t0, requested))"
    return False, "stored grid `%s` does not start with the initial time" % norm(val)


# -------------------------------------------------------------------------- pairs
def _jac_partner(fname):
    if fname == "ode_T":
        return "jacobian_T"
    if fname.endswith("_T"):
        return fname[:-2] + "_jacobian_T"
    return None


def _check_pairs(repo, res, integ):
    det = repo.cls(M.M_DET, "DeterministicOde")
    sim = M.sim_class(repo)
    ifj = repo.func(M.M_UTILS, "integrateFuncJac")
    n_sites = 0
    for m in repo.modules.values():
        for f in list(m.functions.values()) + [x for c in m.classes.values() for x in list(c.methods.values()) + list(c.setters.values())]:
            if not any(isinstance(n, ast.Call) for n in ast.walk(f.node)):
                continue
            if "integrateFuncJac" not in m.src:
                continue
            for n, c, callee in C.calls(f):
                if not callee.endswith("integrateFuncJac") or f.name == "integrateFuncJac":
                    continue
                n_sites += 1
                res.functions.add(f.construct)
                b = C.bind_args(c, ifj.params)
                fn, jc = b.get("func"), b.get("jac")
                tag = "integrateFuncJac@%s" % norm(fn)[:40]
                if not (isinstance(fn, ast.Attribute) and isinstance(jc, ast.Attribute)):
                    res.undecided("R-PAIRFJ", f, tag, "func/jac are not attribute references (%s, %s)" % (norm(fn), norm(jc)), node=c)
                    continue
                same_recv = norm(fn.value) == norm(jc.value)
                want = _jac_partner(fn.attr)
                mf = repo.resolve_method(sim, fn.attr)
                mj = repo.resolve_method(sim, jc.attr)
                problems = []
                if not same_recv:
                    problems.append("func and jac come from different objects")
                if want is None or jc.attr != want:
                    problems.append("jac=%s does not belong to func=%s (expected %s)" % (jc.attr, fn.attr, want))
                for role, mm, at in (("func", mf, fn.attr), ("jac", mj, jc.attr)):
                    if mm is None:
                        problems.append("%s=%s is not a method of the model class" % (role, at))
                    elif len(mm.params) < 3 or mm.params[1] not in ("t", "time"):
                        problems.append("%s=%s is not time-first (parameters %s) but scipy.integrate.ode calls f(t, y)" % (role, at, mm.params[1:]))
                res.check(not problems, "R-PAIRFJ", f, tag, "(%s, %s) belong together and are time-first" % (fn.attr, jc.attr),
                          "; ".join(problems), node=c)
    res.floor("integrateFuncJac call sites", n_sites, 7)
    # odeint: state-first evaluators, matching Dfun, col_deriv False
    cs = C.calls_to(integ, ("scipy.integrate.odeint", "odeint"))
    if not cs:
        res.violated("R-PAIRFJ", integ, "odeint", "ode_utils.integrate no longer calls scipy.integrate.odeint")
    for n, c, callee in cs:
        b = C.bind_args(c, ["func", "y0", "t"])
        op = integ.params[0]
        fn, dj = b.get("func"), kwarg(c, "Dfun")
        problems = []
        if not (isinstance(fn, ast.Attribute) and norm(fn.value) == op and fn.attr == "ode"):
            problems.append("func=%s, expected %s.ode (state-first evaluator)" % (norm(fn), op))
        if not (isinstance(dj, ast.Attribute) and norm(dj.value) == op and dj.attr == "jacobian"):
            problems.append("Dfun=%s, expected %s.jacobian" % (norm(dj), op))
        cd = kwarg(c, "col_deriv")
        if cd is not None and const_value(cd) not in (False, 0):
            problems.append("col_deriv=%s but jacobian() returns d f_i / d x_j in row i" % norm(cd))
        tf = kwarg(c, "tfirst")
        if tf is not None and const_value(tf) not in (False, 0):
            problems.append("tfirst=%s but the evaluators take (state, t)" % norm(tf))
        if not (isinstance(b.get("y0"), ast.Name) and b["y0"].id == integ.params[1] and isinstance(b.get("t"), ast.Name) and b["t"].id == integ.params[2]):
            problems.append("y0/t are not the wrapper's x0/t")
        res.check(not problems, "R-PAIRFJ", integ, "odeint", "odeint(ode.ode, x0, t, Dfun=ode.jacobian, col_deriv=False)",
                  "; ".join(problems), node=c)
    # evaluator closures are state-first
    add_func = repo.resolve_method(sim, "add_func")
    inner = [x for x in add_func.node.body if isinstance(x, ast.FunctionDef)]
    if inner:
        ip = [a.arg for a in inner[0].args.args]
        res.check(len(ip) == 3 and ip[1] == "state" and ip[2] in ("t", "time"), "R-PAIRFJ", add_func, "evaluator-signature",
                  "registered evaluators take (state, t)", "registered evaluators take %s, odeint calls func(y, t)" % ip[1:], node=inner[0])
    # R-FWD over the time-first wrappers
    n_w = 0
    regs = {r.name for r in M.registry(repo)}
    for c_ in repo.mro(sim):
        for f in c_.methods.values():
            body = [st for st in f.node.body if not (isinstance(st, ast.Expr) and isinstance(st.value, ast.Constant))]
            if not (len(body) == 1 and isinstance(body[0], ast.Return) and isinstance(body[0].value, ast.Call)
                    and is_self_attr(body[0].value.func)):
                continue
            if not (len(f.params) >= 3 and f.params[1] in ("t", "time")):
                continue
            call = body[0].value
            base = call.func.attr
            bm = repo.resolve_method(sim, base)
            if bm is not None:
                bp = bm.params[1:]
            elif base in regs:
                bp = ["state", "t"]
            else:
                res.undecided("R-FWD", f, "forward", "cannot resolve base method %s" % base, node=call)
                continue
            n_w += 1
            bound = C.bind_args(call, bp)
            problems = []
            fp = set(f.params[1:])
            for pn, a in bound.items():
                if isinstance(a, ast.Name) and a.id in fp and a.id != pn and a.id in bp:
                    problems.append("wrapper argument `%s` is passed as the base method's `%s`" % (a.id, pn))
                if isinstance(a, ast.Name) and a.id in ("t", "time") and pn not in ("t", "time"):
                    problems.append("time is passed as `%s`" % pn)
                if pn in ("t", "time") and isinstance(a, ast.Name) and a.id not in ("t", "time"):
                    problems.append("`%s` is passed as time" % a.id)
            res.check(not problems, "R-FWD", f, "forward", "%s forwards to %s with matching roles" % (f.name, base),
                      "%s -> %s: %s" % (f.name, base, "; ".join(sorted(set(problems)))), node=call)
    res.floor("time-first wrappers", n_w, 20)


# -------------------------------------------------------------------------- table
EXPECTED_INTEGRATORS = {
    # name -> (scipy integrator, method kw or None, needs jacobian)
    "dopri5": ("dopri5", None, False),
    "dop853": ("dop853", None, False),
    "vode": ("vode", (None, "adams"), True),
    "ivode": ("vode", ("bdf",), True),
    "lsoda": ("lsoda", None, True),
}


def _check_table(res, ifj, setup, choose):
    cfg, df = cfg_of(setup), dataflow_of(setup)
    mp = "method"
    if mp not in setup.params:
        raise AnalysisError("_setupIntegrator lost its method parameter")
    handled = {}
    default_branch = []
    assigns = [n for n in cfg.stmt_nodes() if n.kind == "stmt" and isinstance(n.ast, ast.Assign)
               and isinstance(n.ast.value, ast.Call) and "set_integrator" in norm(n.ast.value.func)]
    for n in assigns:
        gs = C.if_guards(cfg, n)
        names = [const_value(t.ast.test.comparators[0]) for t, o in gs
                 if o is True and isinstance(t.ast.test, ast.Compare) and norm(t.ast.test.left) == mp
                 and isinstance(t.ast.test.ops[0], ast.Eq)]
        if names:
            handled[names[-1]] = n
        else:
            default_branch.append(n)
    for name, (integ_name, meth, needs_jac) in EXPECTED_INTEGRATORS.items():
        n = handled.get(name)
        if n is None:
            res.violated("R-TABLE", setup, "branch(%s)" % name, "method '%s' is not handled by an explicit branch" % name)
            continue
        call = n.ast.value
        first = const_value(call.args[0]) if call.args else const_value(kwarg(call, "name"))
        mk = const_value(kwarg(call, "method"))
        mk_ok = (meth is None and mk is None) or (meth is not None and mk in meth)
        ctor = call.func.value if isinstance(call.func, ast.Attribute) else None
        ctor_ok = isinstance(ctor, ast.Call) and (dotted(ctor.func) or "").endswith("integrate.ode") and ctor.args \
            and norm(ctor.args[0]) == setup.params[0] and (not needs_jac or (len(ctor.args) > 1 and norm(ctor.args[1]) == setup.params[1]))
        tol_ok = norm(kwarg(call, "atol")) == "atol" and norm(kwarg(call, "rtol")) == "rtol" and norm(kwarg(call, "nsteps")) == "nsteps"
        problems = []
        if first != integ_name:
            problems.append("sets up scipy integrator %r, expected %r" % (first, integ_name))
        if not mk_ok:
            problems.append("method=%r, expected one of %r" % (mk, meth))
        if not ctor_ok:
            problems.append("scipy.integrate.ode is not constructed from (func%s)" % (", jac" if needs_jac else ""))
        if not tol_ok:
            problems.append("atol/rtol/nsteps are not forwarded")
        res.check(not problems, "R-TABLE", setup, "branch(%s)" % name, "'%s' -> %s%s" % (name, integ_name, "" if not mk else " method=%s" % mk),
                  "method '%s': %s" % (name, "; ".join(problems)), node=n.ast)
    # names returned by the chooser are handled
    rets = set()
    ccfg, cdf = cfg_of(choose), dataflow_of(choose)
    for r in C.returns_of(choose):
        v = r.ast.value
        if isinstance(v, ast.Name):
            for d in cdf.strong_defs(r, v.id):
                rets.add(const_value(d.value))
        else:
            rets.add(const_value(v))
    res.check(rets and rets <= set(handled), "R-TABLE", choose, "names-handled", "chooser returns %s, all handled explicitly" % sorted(map(str, rets)),
              "chooser can return %s but the set-up chain only handles %s explicitly" % (sorted(map(str, rets)), sorted(handled)))
    # default when method is None and no full output
    dnode = [d for d in dataflow_of(ifj).defs if d.name == "method" and d.kind == "assign" and isinstance(d.value, ast.Constant)]
    for d in dnode:
        res.check(d.value.value in handled, "R-TABLE", ifj, "default-method", "default integrator '%s' is handled" % d.value.value,
                  "default integrator %r is not handled explicitly" % d.value.value, node=d.stmt)
    # initial value on every path, in (x0, t0) order
    siv = [(n, c) for n, c, callee in C.calls(setup) if callee.endswith("set_initial_value")]
    ok = bool(siv) and all(len(c.args) == 2 and norm(c.args[0]) == setup.params[2] and norm(c.args[1]) == setup.params[3] for n, c in siv) \
        and cfg.must_pass_after(cfg.entry, [n for n, c in siv])
    res.check(ok, "R-TABLE", setup, "initial-value", "set_initial_value(x0, t0) on every path",
              "set_initial_value is not called with (x0, t0) on every path", node=siv[0][1] if siv else setup.node)
    # integrateFuncJac hands (func, jac, x0, t0) to the set-up and restarts from (o1, deltaT)
    for n, c, callee in C.calls_to(ifj, "_setupIntegrator"):
        b = C.bind_args(c, setup.params)
        res.check(norm(b.get("func")) == "func" and norm(b.get("jac")) == "jac", "R-TABLE", ifj, "setup-args@%s" % norm(b.get("x0")),
                  "set-up receives the caller's func/jac", "set-up receives func=%s jac=%s" % (norm(b.get("func")), norm(b.get("jac"))), node=c)
