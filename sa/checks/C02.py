"""C02 - deterministic solvers return the solution at each requested time.

 S1 R-ALIAS  a value read from `.y` of a scipy.integrate.ode object (the integrator's
             internal buffer) does not escape into a return value / the solution list
             without a copying operation.
 S2 R-ROWS   integrateFuncJac: origin first iff includeOrigin, exactly one row per
             element of t on every path through the loop, row k from stepping to t[k],
             nothing reorders the list, result = np.array(list).
 S3 R-GRID   _setIntegrateTime prepends t0; _integrate hands the whole grid to odeint;
             _integrate2 hands t[0], t[1:] with includeOrigin=True.
 S4 R-PAIRFJ every integrateFuncJac / odeint call site passes a (func, jac) pair that
             belongs together with the argument order the callee uses; R-FWD the
             time-first wrappers forward their arguments to same-named parameters.
 S5 R-TABLE  integrator names chosen by the eigenvalue rule are handled by the set-up
             chain, which maps each name to the intended scipy integrator with
             tolerances, and sets the initial value (x0, t0).
 S6 R-SHAPE  jacobian stays 2-D for one-state models (needed by np.linalg.eig).
"""
import ast

from ..core.source import AnalysisError, norm, dotted, is_self_attr, walk_no_nested, kwarg, const_value
from ..core.cfg import cfg_of
from ..core.dataflow import dataflow_of
from ..rules import model as M
from ..rules import common as C
from ..rules.shape import check_shapes

TECHNIQUE = ("static analysis: taint of the integrator buffer `.y` with copy sanitisers (R-ALIAS), CFG path counting of "
             "appends per loop iteration (R-ROWS), slice/argument agreement (R-GRID), call-site pairing of func/jac and "
             "parameter-name agreement of time-first wrappers (R-PAIRFJ/R-FWD), literal table agreement (R-TABLE)")

VIEW_METHODS = {"ravel", "reshape", "view", "squeeze", "transpose", "swapaxes", "__array__"}
VIEW_FUNCS = {"np.asarray", "np.asanyarray", "np.ravel", "np.reshape", "np.atleast_1d", "np.atleast_2d",
              "np.squeeze", "np.transpose", "numpy.asarray"}
INTEGRATOR_MAKERS = ("scipy.integrate.ode", "integrate.ode", "_setupIntegrator", "set_integrator",
                     "set_initial_value", "set_f_params", "set_jac_params")


def integrator_names(repo, mod):
    """{function name: set(local names / params that hold a scipy.integrate.ode object)}"""
    typed = {f.name: set() for f in mod.functions.values()}
    changed = True
    while changed:
        changed = False
        for f in mod.functions.values():
            cfg, df = cfg_of(f), dataflow_of(f)
            for d in df.defs:
                if d.kind == "assign" and d.value is not None and d.name not in typed[f.name]:
                    rts = df.roots(d.value, d.node, depth=3)
                    if any(r[0] == "call" and r[1] and any(r[1] == m or r[1].endswith("." + m) or r[1].endswith(m) for m in INTEGRATOR_MAKERS)
                           for r in rts):
                        typed[f.name].add(d.name)
                        changed = True
            # propagate to callees' parameters
            for n, c, callee in C.calls(f):
                g = mod.functions.get(callee)
                if g is None:
                    continue
                for p, a in C.bind_args(c, g.params).items():
                    if isinstance(a, ast.Name) and a.id in typed[f.name] and p not in typed[g.name]:
                        typed[g.name].add(p)
                        changed = True
    return typed


def may_alias(expr, df, at, inames, summaries, depth=6, mod=None):
    """may `expr` evaluated at `at` be (a view of) an integrator's .y buffer?"""
    if depth <= 0 or expr is None:
        return False
    e = expr
    if isinstance(e, ast.Attribute):
        if e.attr == "y" and isinstance(e.value, ast.Name) and e.value.id in inames:
            return True
        if e.attr in ("T", "real", "flat"):
            return may_alias(e.value, df, at, inames, summaries, depth - 1, mod)
        return False
    if isinstance(e, ast.Subscript):
        # basic slicing gives a view; integer indexing of a 1-d buffer gives a scalar copy
        if isinstance(e.slice, ast.Slice) or (isinstance(e.slice, ast.Tuple) and any(isinstance(x, ast.Slice) for x in e.slice.elts)):
            return may_alias(e.value, df, at, inames, summaries, depth - 1, mod)
        # element of a returned tuple:  result[0]
        if isinstance(e.slice, ast.Constant) and isinstance(e.value, ast.Call):
            s = _callee_summary(e.value, summaries)
            return s is not None and e.slice.value in s
        return False
    if isinstance(e, ast.Call):
        dn = dotted(e.func)
        if dn in VIEW_FUNCS and e.args:
            return may_alias(e.args[0], df, at, inames, summaries, depth - 1, mod)
        if isinstance(e.func, ast.Attribute) and e.func.attr in VIEW_METHODS:
            return may_alias(e.func.value, df, at, inames, summaries, depth - 1, mod)
        s = _callee_summary(e, summaries)
        if s is not None:
            return "whole" in s
        return False
    if isinstance(e, ast.Name):
        for d in df.strong_defs(at, e.id):
            if d.kind == "assign" and d.value is not None:
                if d.slot:
                    if isinstance(d.value, ast.Call):
                        s = _callee_summary(d.value, summaries)
                        if s is not None and len(d.slot) == 1 and d.slot[0] in s:
                            return True
                    continue
                if may_alias(d.value, df, d.node, inames, summaries, depth - 1, mod):
                    return True
        return False
    if isinstance(e, ast.IfExp):
        return may_alias(e.body, df, at, inames, summaries, depth - 1, mod) or may_alias(e.orelse, df, at, inames, summaries, depth - 1, mod)
    return False


def _callee_summary(call, summaries):
    dn = dotted(call.func)
    if dn is None:
        return None
    return summaries.get(dn.split(".")[-1])


def check(repo, res, tier):
    res.rule("R-ROWS", "integrateFuncJac, interpreted against a model of scipy.integrate.ode whose integrate() advances exactly along the test problem y' = c and reuses "
             "its state buffer, returns ([x0] if includeOrigin) + [x0 + c (t_k - t0)] for every grid form, method, full_output and eigenvalue schedule; integrators are "
             "set up with names scipy knows, the caller's functions, tolerances and step budget; a failed step raises")
    res.rule("R-GRID", "integrate(t) / integrate2(t, method), interpreted down to the library boundary, return the initial state followed by the solution at each requested time, "
             "and hand the library integrators functions with the argument order the library uses")
    res.rule("R-PAIRFJ", "func/jac passed to integrateFuncJac belong together (same object, matching names) and are time-first")
    res.rule("R-FWD", "time-first wrappers forward each argument to the same-named parameter of the base method")
    res.rule("R-SHAPE", "matrix-valued evaluators are registered as matrices")
    res.s_clauses = ["S1/S2/S5 R-ROWS (rows, buffer aliasing, integrator table)", "S3 R-GRID", "S4 R-PAIRFJ/R-FWD", "S6 R-SHAPE(jacobian)"]
    res.n_clauses = ["each row equals the true ODE solution to solver tolerance (accuracy of scipy's integrators; the model integrator is exact by construction)",
                     "quality of the eigenvalue heuristic that picks the integrator"]
    integ = repo.func(M.M_UTILS, "integrate")
    from ..rules import integx as IX
    from ..core import absint as _ai
    _ai.INLINED.clear()
    n = IX.check_rows(repo, res)
    res.floor("row-assembly cases interpreted", n, 140)
    res.rule("R-BUDGET", "all solving entry points give their library integrator the same internal step budget per output interval")
    n2 = IX.check_entrypoints(repo, res)
    res.rule("R-FRESH", "a solve returns the solution of the model as it stands: no stale result after the initial state, initial time or parameters change")
    n3 = IX.check_histories(repo, res, tier=tier)
    res.floor("solve histories interpreted", n3, 300)
    res.floor("entry-point cases interpreted", n2, 36)
    res.functions |= set(_ai.INLINED)

    # -------------------------------------------------------- R-PAIRFJ / R-FWD
    _check_pairs(repo, res, integ)

    from ..rules.sweep import gate_call_arity
    gate_call_arity(repo, res, {"pygom/model/ode_utils/__init__.py", "pygom/model/deterministic.py"})
    # ---------------------------------------------------------------- R-SHAPE
    check_shapes(repo, res, {"jacobian"}, {"jacobian": "integrateFuncJac(full_output=True), always used by integrate2, applies np.linalg.eig to it"})


# -------------------------------------------------------------------------- pairs
def _jac_partner(fname):
    if fname == "ode_T":
        return "jacobian_T"
    if fname.endswith("_T"):
        return fname[:-2] + "_jacobian_T"
    return None


def _check_pairs(repo, res, integ):
    det = repo.cls(M.M_DET, "DeterministicOde")
    sim = M.sim_class(repo)
    ifj = repo.func(M.M_UTILS, "integrateFuncJac")
    n_sites = 0
    for m in repo.modules.values():
        for f in list(m.functions.values()) + [x for c in m.classes.values() for x in list(c.methods.values()) + list(c.setters.values())]:
            if not any(isinstance(n, ast.Call) for n in ast.walk(f.node)):
                continue
            if "integrateFuncJac" not in m.src:
                continue
            for n, c, callee in C.calls(f):
                if not callee.endswith("integrateFuncJac") or f.name == "integrateFuncJac":
                    continue
                n_sites += 1
                res.functions.add(f.construct)
                b = C.bind_args(c, ifj.params)
                fn, jc = b.get("func"), b.get("jac")
                df_ = dataflow_of(f)
                if isinstance(fn, ast.Name):
                    fn = df_.expand(fn, n)          # local alias of the callable (rhs = model.ode_T)
                if isinstance(jc, ast.Name):
                    jc = df_.expand(jc, n)
                tag = "integrateFuncJac@%s" % norm(fn)[:40]
                if not (isinstance(fn, ast.Attribute) and isinstance(jc, ast.Attribute)):
                    res.undecided("R-PAIRFJ", f, tag, "func/jac are not attribute references (%s, %s)" % (norm(fn), norm(jc)), node=c)
                    continue
                if isinstance(fn.value, ast.Name):
                    fn = ast.Attribute(value=df_.expand(fn.value, n), attr=fn.attr, ctx=ast.Load())    # model = self._ode
                if isinstance(jc.value, ast.Name):
                    jc = ast.Attribute(value=df_.expand(jc.value, n), attr=jc.attr, ctx=ast.Load())
                same_recv = norm(fn.value) == norm(jc.value)
                want = _jac_partner(fn.attr)
                mf = repo.resolve_method(sim, fn.attr)
                mj = repo.resolve_method(sim, jc.attr)
                problems = []
                if not same_recv:
                    problems.append("func and jac come from different objects")
                if want is None or jc.attr != want:
                    problems.append("jac=%s does not belong to func=%s (expected %s)" % (jc.attr, fn.attr, want))
                for role, mm, at in (("func", mf, fn.attr), ("jac", mj, jc.attr)):
                    if mm is None:
                        problems.append("%s=%s is not a method of the model class" % (role, at))
                    elif len(mm.params) < 3 or mm.params[1] not in ("t", "time"):
                        problems.append("%s=%s is not time-first (parameters %s) but scipy.integrate.ode calls f(t, y)" % (role, at, mm.params[1:]))
                res.check(not problems, "R-PAIRFJ", f, tag, "(%s, %s) belong together and are time-first" % (fn.attr, jc.attr),
                          "; ".join(problems), node=c)
    res.floor("integrateFuncJac call sites", n_sites, 7)
    # odeint: state-first evaluators, matching Dfun, col_deriv False
    cs = C.calls_to(integ, ("scipy.integrate.odeint", "odeint"))
    if not cs:
        res.violated("R-PAIRFJ", integ, "odeint", "ode_utils.integrate no longer calls scipy.integrate.odeint")
    for n, c, callee in cs:
        b = C.bind_args(c, ["func", "y0", "t"])
        op = integ.params[0]
        fn, dj = b.get("func"), kwarg(c, "Dfun")
        problems = []
        if not (isinstance(fn, ast.Attribute) and norm(fn.value) == op and fn.attr == "ode"):
            problems.append("func=%s, expected %s.ode (state-first evaluator)" % (norm(fn), op))
        if not (isinstance(dj, ast.Attribute) and norm(dj.value) == op and dj.attr == "jacobian"):
            problems.append("Dfun=%s, expected %s.jacobian" % (norm(dj), op))
        cd = kwarg(c, "col_deriv")
        if cd is not None and const_value(cd) not in (False, 0):
            problems.append("col_deriv=%s but jacobian() returns d f_i / d x_j in row i" % norm(cd))
        tf = kwarg(c, "tfirst")
        if tf is not None and const_value(tf) not in (False, 0):
            problems.append("tfirst=%s but the evaluators take (state, t)" % norm(tf))
        if not (isinstance(b.get("y0"), ast.Name) and b["y0"].id == integ.params[1] and isinstance(b.get("t"), ast.Name) and b["t"].id == integ.params[2]):
            problems.append("y0/t are not the wrapper's x0/t")
        res.check(not problems, "R-PAIRFJ", integ, "odeint", "odeint(ode.ode, x0, t, Dfun=ode.jacobian, col_deriv=False)",
                  "; ".join(problems), node=c)
    # evaluator closures are state-first
    add_func = repo.resolve_method(sim, "add_func")
    inner = [x for x in add_func.node.body if isinstance(x, ast.FunctionDef)]
    if inner:
        ip = [a.arg for a in inner[0].args.args]
        res.check(len(ip) == 3 and ip[1] == "state" and ip[2] in ("t", "time"), "R-PAIRFJ", add_func, "evaluator-signature",
                  "registered evaluators take (state, t)", "registered evaluators take %s, odeint calls func(y, t)" % ip[1:], node=inner[0])
    # R-FWD over the time-first wrappers
    n_w = 0
    regs = {r.name for r in M.registry(repo)}
    for c_ in repo.mro(sim):
        for f in c_.methods.values():
            body = [st for st in f.node.body if not (isinstance(st, ast.Expr) and isinstance(st.value, ast.Constant))]
            if not (len(body) == 1 and isinstance(body[0], ast.Return) and isinstance(body[0].value, ast.Call)
                    and is_self_attr(body[0].value.func)):
                continue
            if not (len(f.params) >= 3 and f.params[1] in ("t", "time")):
                continue
            call = body[0].value
            base = call.func.attr
            bm = repo.resolve_method(sim, base)
            if bm is not None:
                bp = bm.params[1:]
            elif base in regs:
                bp = ["state", "t"]
            else:
                res.undecided("R-FWD", f, "forward", "cannot resolve base method %s" % base, node=call)
                continue
            n_w += 1
            bound = C.bind_args(call, bp)
            problems = []
            fp = set(f.params[1:])
            for pn, a in bound.items():
                if isinstance(a, ast.Name) and a.id in fp and a.id != pn and a.id in bp:
                    problems.append("wrapper argument `%s` is passed as the base method's `%s`" % (a.id, pn))
                if isinstance(a, ast.Name) and a.id in ("t", "time") and pn not in ("t", "time"):
                    problems.append("time is passed as `%s`" % pn)
                if pn in ("t", "time") and isinstance(a, ast.Name) and a.id not in ("t", "time"):
                    problems.append("`%s` is passed as time" % a.id)
            res.check(not problems, "R-FWD", f, "forward", "%s forwards to %s with matching roles" % (f.name, base),
                      "%s -> %s: %s" % (f.name, base, "; ".join(sorted(set(problems)))), node=call)
    res.floor("time-first wrappers", n_w, 20)


