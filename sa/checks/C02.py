"""C02 - deterministic solvers return the solution at each requested time.

 S1 R-ALIAS  a value read from `.y` of a scipy.integrate.ode object (the integrator's
             internal buffer) does not escape into a return value / the solution list
             without a copying operation.
 S2 R-ROWS   integrateFuncJac: origin first iff includeOrigin, exactly one row per
             element of t on every path through the loop, row k from stepping to t[k],
             nothing reorders the list, result = np.array(list).
 S3 R-GRID   _setIntegrateTime prepends t0; _integrate hands the whole grid to odeint;
             _integrate2 hands t[0], t[1:] with includeOrigin=True.
 S4 R-PAIRFJ every integrateFuncJac / odeint call site passes a (func, jac) pair that
             belongs together with the argument order the callee uses; R-FWD the
             time-first wrappers forward their arguments to same-named parameters.
 S5 R-TABLE  integrator names chosen by the eigenvalue rule are handled by the set-up
             chain, which maps each name to the intended scipy integrator with
             tolerances, and sets the initial value (x0, t0).
 S6 R-SHAPE  jacobian stays 2-D for one-state models (needed by np.linalg.eig).
"""
import ast

from ..core.source import AnalysisError, norm, dotted, is_self_attr, walk_no_nested, kwarg, const_value
from ..core.cfg import cfg_of
from ..core.dataflow import dataflow_of
from ..rules import model as M
from ..rules import common as C
from ..rules.shape import check_shapes

TECHNIQUE = ("static analysis: taint of the integrator buffer `.y` with copy sanitisers (R-ALIAS), CFG path counting of "
             "appends per loop iteration (R-ROWS), slice/argument agreement (R-GRID), call-site pairing of func/jac and "
             "parameter-name agreement of time-first wrappers (R-PAIRFJ/R-FWD), literal table agreement (R-TABLE)")

VIEW_METHODS = {"ravel", "reshape", "view", "squeeze", "transpose", "swapaxes", "__array__"}
VIEW_FUNCS = {"np.asarray", "np.asanyarray", "np.ravel", "np.reshape", "np.atleast_1d", "np.atleast_2d",
              "np.squeeze", "np.transpose", "numpy.asarray"}
INTEGRATOR_MAKERS = ("scipy.integrate.ode", "integrate.ode", "_setupIntegrator", "set_integrator",
                     "set_initial_value", "set_f_params", "set_jac_params")


def integrator_names(repo, mod):
    """{function name: set(local names / params that hold a scipy.integrate.ode object)}"""
    typed = {f.name: set() for f in mod.functions.values()}
    changed = True
    while changed:
        changed = False
        for f in mod.functions.values():
            cfg, df = cfg_of(f), dataflow_of(f)
            for d in df.defs:
                if d.kind == "assign" and d.value is not None and d.name not in typed[f.name]:
                    rts = df.roots(d.value, d.node, depth=3)
                    if any(r[0] == "call" and r[1] and any(r[1] == m or r[1].endswith("." + m) or r[1].endswith(m) for m in INTEGRATOR_MAKERS)
                           for r in rts):
                        typed[f.name].add(d.name)
                        changed = True
            # propagate to callees' parameters
            for n, c, callee in C.calls(f):
                g = mod.functions.get(callee)
                if g is None:
                    continue
                for p, a in C.bind_args(c, g.params).items():
                    if isinstance(a, ast.Name) and a.id in typed[f.name] and p not in typed[g.name]:
                        typed[g.name].add(p)
                        changed = True
    return typed


def may_alias(expr, df, at, inames, summaries, depth=6, mod=None):
    """may `expr` evaluated at `at` be (a view of) an integrator's .y buffer?"""
    if depth <= 0 or expr is None:
        return False
    e = expr
    if isinstance(e, ast.Attribute):
        if e.attr == "y" and isinstance(e.value, ast.Name) and e.value.id in inames:
            return True
        if e.attr in ("T", "real", "flat"):
            return may_alias(e.value, df, at, inames, summaries, depth - 1, mod)
        return False
    if isinstance(e, ast.Subscript):
        # basic slicing gives a view; integer indexing of a 1-d buffer gives a scalar copy
        if isinstance(e.slice, ast.Slice) or (isinstance(e.slice, ast.Tuple) and any(isinstance(x, ast.Slice) for x in e.slice.elts)):
            return may_alias(e.value, df, at, inames, summaries, depth - 1, mod)
        # element of a returned tuple:  result[0]
        if isinstance(e.slice, ast.Constant) and isinstance(e.value, ast.Call):
            s = _callee_summary(e.value, summaries)
            return s is not None and e.slice.value in s
        return False
    if isinstance(e, ast.Call):
        dn = dotted(e.func)
        if dn in VIEW_FUNCS and e.args:
            return may_alias(e.args[0], df, at, inames, summaries, depth - 1, mod)
        if isinstance(e.func, ast.Attribute) and e.func.attr in VIEW_METHODS:
            return may_alias(e.func.value, df, at, inames, summaries, depth - 1, mod)
        s = _callee_summary(e, summaries)
        if s is not None:
            return "whole" in s
        return False
    if isinstance(e, ast.Name):
        for d in df.strong_defs(at, e.id):
            if d.kind == "assign" and d.value is not None:
                if d.slot:
                    if isinstance(d.value, ast.Call):
                        s = _callee_summary(d.value, summaries)
                        if s is not None and len(d.slot) == 1 and d.slot[0] in s:
                            return True
                    continue
                if may_alias(d.value, df, d.node, inames, summaries, depth - 1, mod):
                    return True
        return False
    if isinstance(e, ast.IfExp):
        return may_alias(e.body, df, at, inames, summaries, depth - 1, mod) or may_alias(e.orelse, df, at, inames, summaries, depth - 1, mod)
    return False


def _callee_summary(call, summaries):
    dn = dotted(call.func)
    if dn is None:
        return None
    return summaries.get(dn.split(".")[-1])


def check(repo, res, tier):
    res.rule("R-ROWS", "integrateFuncJac, interpreted against a model of scipy.integrate.ode whose integrate() advances exactly along the test problem y' = c and reuses "
             "its state buffer, returns ([x0] if includeOrigin) + [x0 + c (t_k - t0)] for every grid form, method, full_output and eigenvalue schedule; integrators are "
             "set up with names scipy knows, the caller's functions, tolerances and step budget; a failed step raises")
    res.rule("R-GRID", "integrate(t) / integrate2(t, method), interpreted down to the library boundary, return the initial state followed by the solution at each requested time, "
             "and hand the library integrators functions with the argument order the library uses")
    res.rule("R-PAIRFJ", "at every integrateFuncJac call site the two callables, called as scipy.integrate.ode calls them - f(t, y), jac(t, y) - on symbolic vectors, "
             "compute one of the model's right-hand sides at (y, t) and that system's own Jacobian routine at the same point")
    res.rule("R-FWD", "every time-first twin X_T(t, ...) returns what X returns for the same roles (recorder for X with opaque roles; sized symbolic inputs when the twin does not go through X)")
    res.rule("R-SHAPE", "matrix-valued evaluators are registered as matrices")
    res.s_clauses = ["S1/S2/S5 R-ROWS (rows, buffer aliasing, integrator table)", "S3 R-GRID", "S4 R-PAIRFJ/R-FWD", "S6 R-SHAPE(jacobian)"]
    res.n_clauses = ["each row equals the true ODE solution to solver tolerance (accuracy of scipy's integrators; the model integrator is exact by construction)",
                     "quality of the eigenvalue heuristic that picks the integrator"]
    integ = repo.func(M.M_UTILS, "integrate")
    from ..rules import integx as IX
    from ..core import absint as _ai
    _ai.INLINED.clear()
    n = IX.check_rows(repo, res)
    res.floor("row-assembly cases interpreted", n, 140)
    res.rule("R-BUDGET", "all solving entry points give their library integrator the same internal step budget per output interval")
    n2 = IX.check_entrypoints(repo, res)
    res.rule("R-FRESH", "a solve returns the solution of the model as it stands: no stale result after the initial state, initial time or parameters change")
    n3 = IX.check_histories(repo, res, tier=tier)
    res.floor("solve histories interpreted", n3, 300)
    res.floor("entry-point cases interpreted", n2, 36)
    res.functions |= set(_ai.INLINED)

    # -------------------------------------------------------- R-PAIRFJ / R-FWD
    _check_pairs(repo, res, integ)

    from ..rules.sweep import gate_call_arity
    gate_call_arity(repo, res, {"pygom/model/ode_utils/__init__.py", "pygom/model/deterministic.py"})
    # ---------------------------------------------------------------- R-SHAPE
    check_shapes(repo, res, {"jacobian"}, {"jacobian": "integrateFuncJac(full_output=True), always used by integrate2, applies np.linalg.eig to it"})


# -------------------------------------------------------------------------- pairs
def _jac_partner(fname):
    if fname == "ode_T":
        return "jacobian_T"
    if fname.endswith("_T"):
        return fname[:-2] + "_jacobian_T"
    return None


def _check_pairs(repo, res, integ):
    """S4 by calling things (rules/pairx.py): the callables handed to integrateFuncJac are called as scipy.integrate.ode calls
    them and compared with the model's systems; the time-first twins are compared with their state-first routines; the
    odeint side (state-first evaluators, Dfun, col_deriv, tfirst) is probed by the library model of R-GRID"""
    from ..rules import pairx as PX
    n_sites = PX.check_callsites(repo, res, "R-PAIRFJ")
    res.floor("integrateFuncJac call sites", n_sites, 7)
    # registered evaluators are state-first: the closure add_func binds is applied to (x, t) and must hand _getEvalParam those roles
    from ..rules import evalx as EX
    sim = M.sim_class(repo)
    add_func = repo.resolve_method(sim, "add_func")
    bad, n_h = EX.run_histories(repo, sim, maxlen=1)
    res.check(not bad, "R-PAIRFJ", add_func, "evaluator-signature", "registered evaluators, applied to (x, t), evaluate the compiled function at (state=x, time=t) (%d applications)" % n_h,
              "; ".join(bad[:2]), node=add_func.node)
    n_w = PX.check_twins(repo, res, "R-FWD")
    res.floor("time-first wrappers", n_w, 18)


