"""C12 - equivalent ways of specifying a model give the same model.

 S1 R-NORM   every API route (Event object, Transition carrying its own rate handed to
             add_event, legacy add_transition / add_birth_death) normalises one process to
             the same event descriptor (rate, [(type, origin, destination, magnitude)]);
             the list setters delegate every element, in order, to the add_* method
 S2 R-BIRTH  Transition.__init__: a birth named by origin is stored exactly like one named
             by destination; type strings map to the enum as documented
 S3 R-NULL   Event.__init__ over all input classes {1..3 transitions} x {which carry an
             equation} x {rate given or not}: accepted iff exactly one rate is supplied, and
             then self.rate is that rate (never None)
 S4 R-SPLIT  string declarations are split identically by both declaration helpers and
             agree with the list form
 S5 R-ACCUM  builders accumulate additively (order independence)
Each S-clause is decided by abstract execution of one function body over a finite,
completely enumerated class of abstract inputs; callees are replaced by summaries that
are themselves obligations (see core/absint.py).
"""
import ast
import itertools
import re as _re

from ..core.source import AnalysisError, norm, dotted, is_self_attr, walk_no_nested, const_value
from ..core.absint import Abs, Obj, Tok, Raised
from ..core.algebra import Undecided
from ..rules import model as M
from ..rules import common as C
from . import C01

TECHNIQUE = ("static analysis: intra-procedural abstract execution of the normalisation routines over completely "
             "enumerated abstract input classes with verified callee summaries; descriptor equality across API routes")

TT = Obj("TransitionTypeEnum", B=Tok("B", "enum"), D=Tok("D", "enum"), T=Tok("T", "enum"), ODE=Tok("ODE", "enum"))
TYPES = {
    "Transition": lambda v: isinstance(v, Obj) and v.cls == "Transition",
    "Event": lambda v: isinstance(v, Obj) and v.cls == "Event",
    "TransitionType": lambda v: isinstance(v, Tok) and v.kind == "enum",
    "ODEVariable": lambda v: isinstance(v, Obj) and v.cls == "ODEVariable",
}


def _lib_summaries():
    from ..core.numarr import num_summaries
    return dict(num_summaries())


def mk_transition(origin=None, equation=None, transition_type="ODE", destination=None, magnitude="1", ID=None, name=None):
    """summary of Transition(...) as verified by R-BIRTH on Transition.__init__"""
    tt = transition_type
    if isinstance(tt, str):
        table = {"t": "T", "between states": "T", "ode": "ODE", "ode equation": "ODE", "b": "B", "birth process": "B", "d": "D", "death process": "D"}
        if tt.lower() not in table:
            from ..core.absint import Raised
            raise Raised("TransitionTypeError(Unknown input string)")
        tt = TT.attrs[table[tt.lower()]]
    o, d = origin, destination
    if tt == TT.attrs["B"]:
        d = origin if origin is not None else destination
        o = None
    t = Obj("Transition", transition_type=tt, _magnitude=magnitude, equation=("alias", "_equation"), _equation=equation, ID=ID, name=name)
    t.attrs["origin"] = o
    t.attrs["destination"] = d
    return t


def mk_event(transition_list=None, rate=None):
    """summary of Event(...) as verified by R-NULL on Event.__init__"""
    tl = transition_list if isinstance(transition_list, list) else [transition_list]
    if rate is None:
        eqs = [t.attrs["_equation"] for t in tl if t.attrs.get("_equation") is not None]
        rate = eqs[0] if len(eqs) == 1 else None
    return Obj("Event", rate=rate, transition_list=tl)


def descriptor(ev):
    return (ev.attrs["rate"], tuple((t.attrs["transition_type"], t.attrs.get("origin"), t.attrs.get("destination"), t.attrs["_magnitude"])
                                    for t in ev.attrs["transition_list"]))


def check(repo, res, tier):
    res.rule("R-NORM", "all API routes normalise a process to the same (rate, [(type, origin, destination, magnitude)])")
    res.rule("R-BIRTH", "birth by origin == birth by destination; type strings map to the enum")
    res.rule("R-NULL", "Event.__init__ accepts iff exactly one rate is supplied and stores that rate")
    res.rule("R-SPLIT", "string declarations split identically in both helpers and agree with the list form")
    res.rule("R-ACCUM", "additive accumulation in the builders")
    res.s_clauses = ["S1 R-NORM", "S2 R-BIRTH", "S3 R-NULL", "S4 R-SPLIT", "S5 R-ACCUM"]
    res.n_clauses = ["numeric identity of evaluations of two variants (follows from equal symbolic models plus C01's N-clauses)",
                     "sympy-level equality of differently written but equal rate strings"]
    _check_event_init(repo, res)
    _check_transition_init(repo, res)
    _check_routes(repo, res)
    _check_accumulating(repo, res)
    _check_setters(repo, res)
    _check_split(repo, res)
    cls = M.sim_class(repo)
    from ..rules import buildx as BX
    nb = BX.check_builders(repo, res, ["get_ode_eqn", "get_StateChangeMatrix"])
    res.floor("builder interpretations", nb, 18)


# ------------------------------------------------------------------- R-NULL
def _check_event_init(repo, res):
    f = repo.func(M.M_TRANS, "Event.__init__")
    n_cases = 0
    bad = {}
    for n in (1, 2, 3):
        for pattern in itertools.product([False, True], repeat=n):
            for rate_given in (False, True):
                for unlisted in ((False, True) if n == 1 else (False,)):
                    n_cases += 1
                    trs = [Obj("Transition", equation=(Tok("eq%d" % i, "sym") if has else None), transition_type=TT.attrs["T"])
                           for i, has in enumerate(pattern)]
                    rate = Tok("RATE", "sym") if rate_given else None
                    supplied = ([rate] if rate_given else []) + [t.attrs["equation"] for t in trs if t.attrs["equation"] is not None]
                    me = Obj("Event")
                    ab = Abs({"TransitionType": TT}, TYPES, _lib_summaries(), me)
                    ab.consts = {"TransitionType": TT}
                    try:
                        kind, val = ab.run_function(f.node, {"transition_list": trs[0] if unlisted else list(trs), "rate": rate})
                    except Undecided as e:
                        res.undecided("R-NULL", f, "abstract-execution", "Event.__init__ is outside the modelled subset: %s" % e)
                        return
                    label = "%d transition(s), equations on %s, rate %s" % (n, [i for i, h in enumerate(pattern) if h] or "none",
                                                                          "given" if rate_given else "absent")
                    if len(supplied) == 1:
                        if kind == "raise":
                            bad.setdefault("rejects-valid", []).append(label)
                        elif me.attrs.get("rate") != supplied[0]:
                            bad.setdefault("rate-lost", []).append("%s -> self.rate = %r" % (label, me.attrs.get("rate")))
                        elif [id(t) for t in me.attrs.get("transition_list", [])] != [id(t) for t in trs]:
                            bad.setdefault("list-lost", []).append(label)
                    else:
                        if kind != "raise":
                            bad.setdefault("accepts-invalid", []).append("%s -> self.rate = %r" % (label, me.attrs.get("rate")))
    res.floor("Event.__init__ input classes", n_cases, 30)
    msgs = {"rate-lost": "an accepted Event ends with the wrong rate",
            "accepts-invalid": "an Event with no rate / more than one rate is accepted",
            "rejects-valid": "an Event with exactly one supplied rate is rejected",
            "list-lost": "the transition list is not stored as given"}
    for key, text in msgs.items():
        cases = bad.get(key, [])
        res.check(not cases, "R-NULL", f, key, "no input class where " + text,
                  "%s: %s" % (text, "; ".join(cases[:3]) + (" ... (%d cases)" % len(cases) if len(cases) > 3 else "")), node=f.node)
    # ODE members rejected
    me = Obj("Event")
    ab = Abs({"TransitionType": TT}, TYPES, _lib_summaries(), me)
    ab.consts = {"TransitionType": TT}
    kind, _ = ab.run_function(f.node, {"transition_list": [Obj("Transition", equation=Tok("e", "sym"), transition_type=TT.attrs["ODE"])], "rate": None})
    res.check(kind == "raise", "R-NULL", f, "rejects-ODE-member", "ODE-type members are rejected", "an ODE-type transition is accepted inside an Event")


# ------------------------------------------------------------------ R-BIRTH
def build_transition(repo, **kw):
    """interpret Transition.__init__ (its helpers and properties are interpreted from their own source) and read the
    object back through its public properties -> (kind, {property: value})"""
    cls = repo.cls(M.M_TRANS, "Transition")
    f = cls.methods["__init__"]
    me = Obj("Transition")
    ab = Abs({}, TYPES, {}, me)
    ab.consts = {"TransitionType": TT}
    ab.class_methods = set(cls.methods) | set(cls.getters)
    kind, out = ab.run_function(f.node, dict(kw))
    if kind != "return":
        return kind, out
    view = {}
    for prop in ("origin", "destination", "equation", "transition_type", "magnitude"):
        if prop == "magnitude" and prop not in cls.getters:
            view[prop] = me.attrs.get("_magnitude")      # no public property on this tree: the builders read the field itself
            continue
        try:
            view[prop] = ab.getattr(me, prop)
        except Raised as r:
            view[prop] = None if "AttributeError" in str(r.exc) else "raises %s" % r.exc     # a field that was never set
    return kind, view


def _check_transition_init(repo, res):
    cls = repo.cls(M.M_TRANS, "Transition")
    f = cls.methods["__init__"]
    eq, mg = Tok("eq", "sym"), Tok("m", "sym")
    try:
        # type strings and enum members
        bad = []
        for s_, k in {"T": "T", "t": "T", "B": "B", "b": "B", "D": "D", "d": "D", "ODE": "ODE", "ode": "ODE"}.items():
            for tt in (s_, TT.attrs[k]):
                kind, v = build_transition(repo, origin="X", destination="Y" if k == "T" else None, transition_type=tt, equation=eq, magnitude=mg)
                if kind != "return" or v.get("transition_type") != TT.attrs[k]:
                    bad.append("%r -> %r" % (tt, v.get("transition_type") if kind == "return" else v))
        res.check(not bad, "R-BIRTH", f, "type-strings", "type strings and enum members map to the right TransitionType",
                  "transition type mapping is wrong for %s" % bad[:4], node=f.node)
        # births: every spelling x every magnitude / equation gives the same object
        diffs = []
        for magn in (mg, "1", "2", "c"):
            for eqn in (eq, None):
                k1, a = build_transition(repo, origin="X", destination=None, transition_type="B", equation=eqn, magnitude=magn)
                k2, b = build_transition(repo, origin=None, destination="X", transition_type="B", equation=eqn, magnitude=magn)
                if not (k1 == k2 == "return"):
                    diffs.append("magnitude=%r equation=%r: by origin %s, by destination %s" % (magn, eqn, k1 if k1 != "return" else "ok", k2 if k2 != "return" else "ok"))
                    continue
                want = {"origin": None, "destination": "X", "equation": eqn, "transition_type": TT.attrs["B"], "magnitude": magn}
                for lab, got in (("named by origin", a), ("named by destination", b)):
                    dd = {p_: (got.get(p_), want[p_]) for p_ in want if got.get(p_) != want[p_] and not (p_ == "origin" and got.get(p_) in (None, "X"))}
                    if dd:
                        diffs.append("birth %s with magnitude=%r equation=%r is stored with %s" % (lab, magn, eqn, ", ".join("%s=%r (expected %r)" % (k_, v_[0], v_[1]) for k_, v_ in dd.items())))
        res.check(not diffs, "R-BIRTH", f, "birth-origin==destination",
                  "a birth named by origin and one named by destination store the same destination, magnitude and equation (8 magnitude/equation combinations)",
                  "; ".join(diffs[:2]), node=f.node)
        k3, _ = build_transition(repo, origin=None, destination=None, transition_type="B", equation=eq, magnitude=mg)
        res.check(k3 == "raise", "R-BIRTH", f, "birth-needs-a-state", "a birth without any state is rejected", "a birth without origin and destination is accepted")
        # the other types keep their fields where they were put
        bad = []
        for tt, o, d_ in (("T", "S", "I"), ("D", "S", None), ("ODE", "S", None)):
            for magn in (mg, "1", "3"):
                k_, v = build_transition(repo, origin=o, destination=d_, transition_type=tt, equation=eq, magnitude=magn)
                want = {"origin": o, "destination": d_, "equation": eq, "magnitude": magn, "transition_type": TT.attrs[tt]}
                if k_ != "return":
                    bad.append("%s(%s -> %s, magnitude %r) is rejected" % (tt, o, d_, magn))
                else:
                    dd = [p_ for p_ in want if v.get(p_) != want[p_] and not (p_ == "destination" and tt != "T")]
                    if dd:
                        bad.append("%s(%s -> %s, magnitude %r) stores %s" % (tt, o, d_, magn, {p_: v.get(p_) for p_ in dd}))
        res.check(not bad, "R-BIRTH", f, "fields-kept", "origin/destination/magnitude/equation are stored as given for T, D and ODE",
                  "; ".join(bad[:3]), node=f.node)
        same, _ = build_transition(repo, origin="S", destination="S", transition_type="T", equation=eq, magnitude=mg)
        res.check(same == "raise", "R-BIRTH", f, "T-distinct-states", "a transition from a state to itself is rejected", "origin == destination is accepted for type T")
    except Undecided as e:
        res.undecided("R-BIRTH", f, "abstract-execution", "Transition.__init__ is outside the modelled subset: %s" % e)


# ------------------------------------------------------------------- R-NORM
class Canary:
    pass


def _model_self():
    me = Obj("Model", _eventList=[], _transitionList=[], _birthDeathList=[], _odeList=[], _explicitOde=False,
             _stateList=[Obj("ODEVariable", ID=n, name=n) for n in ("S", "I", "R")], _paramList=[Obj("ODEVariable", ID=n, name=n) for n in ("a", "b")])
    me.attrs["_hasNewTransition"] = Obj("Canary", tripped=0)
    return me


def _model_summaries():
    def trip(c, *names):
        c.attrs["tripped"] += 1
    return {"Transition": mk_transition, "Event": mk_event, "Canary.trip": trip}


def _run_add(repo, name, arg):
    cls = M.sim_class(repo)
    f = repo.resolve_method(cls, name)
    if f is None:
        raise AnalysisError("%s vanished" % name)
    me = _model_self()
    ab = Abs({"TransitionType": TT}, TYPES, _model_summaries(), me)
    ab.consts = {"TransitionType": TT}
    kind, _ = ab.run_function(f.node, {f.params[1]: arg})
    return kind, me, f


def _check_routes(repo, res, rule="R-NORM"):
    rate, mag = Tok("r", "sym"), Tok("m", "sym")
    n = 0
    specs = {
        "T": dict(origin="S", destination="I"),
        "B": dict(destination="S"),
        "D": dict(origin="S"),
    }
    for tt, states in specs.items():
        # reference: an Event object carrying the rate, transition without equation
        ref_tr = mk_transition(transition_type=tt, magnitude=mag, **states)
        ref = mk_event(transition_list=[ref_tr], rate=rate)
        routes = [("add_event(Event)", "add_event", ref)]
        carrying = mk_transition(transition_type=tt, magnitude=mag, equation=rate, **states)
        routes.append(("add_event(Transition with equation)", "add_event", carrying))
        legacy = mk_transition(transition_type=tt, magnitude=mag, equation=rate, **states)
        routes.append(("add_transition" if tt == "T" else "add_birth_death", "add_transition" if tt == "T" else "add_birth_death", legacy))
        if tt == "B":
            by_origin = mk_transition(transition_type="B", magnitude=mag, equation=rate, origin="S")
            routes.append(("add_birth_death(birth by origin)", "add_birth_death", by_origin))
            routes.append(("add_event(birth by origin)", "add_event", mk_transition(transition_type="B", magnitude=mag, equation=rate, origin="S")))
        want = descriptor(ref)
        for label, meth, arg in routes:
            n += 1
            try:
                kind, me, f = _run_add(repo, meth, arg)
            except Undecided as e:
                res.undecided(rule, "pygom/model/base_ode_model.py::BaseOdeModel.%s" % meth, "route(%s,%s)" % (tt, label), "outside the modelled subset: %s" % e)
                continue
            tag = "route(%s,%s)" % (tt, label)
            if kind == "raise":
                res.violated(rule, f, tag, "%s raises for a valid %s process" % (label, tt), node=f.node)
                continue
            evs = me.attrs["_eventList"]
            if len(evs) != 1:
                res.violated(rule, f, tag, "%s adds %d events for one process" % (label, len(evs)), node=f.node)
                continue
            got = descriptor(evs[0])
            res.check(got == want, rule, f, tag, "%s yields (rate, [(type, origin, destination, magnitude)]) = %s" % (label, want),
                      "the same %s process entered through %s becomes %s instead of %s (field lost or altered on this route)" % (tt, label, got, want),
                      node=f.node, extra={"descriptor": repr(got)})
    res.floor("API routes compared", n, 11)
    # wrong-type inputs are rejected by the legacy routes
    for meth, bad_tt in (("add_transition", "B"), ("add_birth_death", "T"), ("add_ode", "T")):
        try:
            kind, me, f = _run_add(repo, meth, mk_transition(transition_type=bad_tt, origin="S", destination="I" if bad_tt == "T" else None, equation=rate))
        except Undecided as e:
            res.undecided(rule, "pygom/model/base_ode_model.py::BaseOdeModel.%s" % meth, "rejects(%s)" % bad_tt, "outside the modelled subset: %s" % e)
            continue
        res.check(kind == "raise", rule, f, "rejects(%s)" % bad_tt, "%s rejects a %s-type input" % (meth, bad_tt),
                  "%s accepts a %s-type input" % (meth, bad_tt))
    # add_ode keeps the object as is
    ode = mk_transition(transition_type="ODE", origin="S", equation=rate)
    try:
        kind, me, f = _run_add(repo, "add_ode", ode)
    except Undecided as e:
        res.undecided(rule, "pygom/model/base_ode_model.py::BaseOdeModel.add_ode", "route(ODE,add_ode)", "outside the modelled subset: %s" % e)
        return
    res.check(kind == "return" and len(me.attrs["_odeList"]) == 1 and me.attrs["_odeList"][0] is ode and not me.attrs["_eventList"],
              rule, f, "route(ODE,add_ode)", "add_ode stores the ODE transition itself in the ODE list",
              "add_ode does not store the given ODE transition in the ODE list", node=f.node)


def _check_accumulating(repo, res):
    """a second process / a second explicit term for the same state is added, not substituted"""
    cls = M.sim_class(repo)
    rate1, rate2 = Tok("r1", "sym"), Tok("r2", "sym")
    specs = [("add_ode", "_odeList", lambda r: mk_transition(transition_type="ODE", origin="S", equation=r)),
             ("add_transition", "_eventList", lambda r: mk_transition(transition_type="T", origin="S", destination="I", equation=r)),
             ("add_birth_death", "_eventList", lambda r: mk_transition(transition_type="D", origin="S", equation=r)),
             ("add_event", "_eventList", lambda r: mk_event(transition_list=[mk_transition(transition_type="T", origin="S", destination="I")], rate=r))]
    for meth, store, mk in specs:
        f = repo.resolve_method(cls, meth)
        me = _model_self()
        try:
            ab = Abs({"TransitionType": TT}, TYPES, _model_summaries(), me)
            ab.consts = {"TransitionType": TT}
            k1, _ = ab.run_function(f.node, {f.params[1]: mk(rate1)})
            ab = Abs({"TransitionType": TT}, TYPES, _model_summaries(), me)
            ab.consts = {"TransitionType": TT}
            k2, _ = ab.run_function(f.node, {f.params[1]: mk(rate2)})
        except Undecided as e:
            res.undecided("R-NORM", f, "accumulates", "outside the modelled subset: %s" % e)
            continue
        items = me.attrs[store]

        def rate_of(x):
            return x.attrs.get("rate") if x.cls == "Event" else x.attrs.get("_equation")
        got = [rate_of(x) for x in items]
        res.check(k1 == k2 == "return" and got == [rate1, rate2], "R-NORM", f, "accumulates",
                  "two %s calls for the same state(s) keep both processes, in order" % meth,
                  "after two %s calls on the same state(s) the model holds %s instead of both [r1, r2]: the same set of processes "
                  "entered term by term gives a different ODE" % (meth, got), node=f.node)


def _class_eq(repo):
    """equality of two abstract Transition / Event objects as the class's own __eq__ defines it (identity when it defines none)"""
    def eq(x, y):
        from .C09 import eq_hook as _var_eq
        r = _var_eq(x, y)           # a declared state / parameter compares equal to its name
        if r is not None:
            return r
        if not (isinstance(x, Obj) and isinstance(y, Obj) and x.cls == y.cls and x.cls in ("Transition", "Event")):
            return None
        try:
            ci = repo.cls(M.M_TRANS, x.cls)
        except Exception:
            return None
        f = ci.methods.get("__eq__")
        if f is None:
            return x is y
        ab = Abs({}, TYPES, {}, x)
        ab.consts = {"TransitionType": TT}
        kind, out = ab.run_function(f.node, {f.params[1]: y})
        if kind != "return":
            raise Raised(str(out))
        return bool(out)
    return eq


def _check_setters(repo, res):
    cls = M.sim_class(repo)
    rate, rate2 = Tok("r", "sym"), Tok("q", "sym")
    members = {
        # two processes that differ only in magnitude, a different one, and the first one listed again (a process listed twice acts twice)
        "transition_list": lambda: [mk_transition(transition_type="T", origin="S", destination="I", equation=rate, magnitude="1"),
                                    mk_transition(transition_type="T", origin="S", destination="I", equation=rate, magnitude="2"),
                                    mk_transition(transition_type="T", origin="I", destination="R", equation=rate2),
                                    mk_transition(transition_type="T", origin="S", destination="I", equation=rate, magnitude="1")],
        "birth_death_list": lambda: [mk_transition(transition_type="B", destination="S", equation=rate, magnitude="1"),
                                     mk_transition(transition_type="B", destination="S", equation=rate, magnitude="3"),
                                     mk_transition(transition_type="D", origin="S", equation=rate2),
                                     mk_transition(transition_type="B", destination="S", equation=rate, magnitude="1")],
        "ode_list": lambda: [mk_transition(transition_type="ODE", origin="S", equation=rate), mk_transition(transition_type="ODE", origin="I", equation=rate),
                             mk_transition(transition_type="ODE", origin="S", equation=rate2), mk_transition(transition_type="ODE", origin="S", equation=rate)],
        "event_list": lambda: [mk_event([mk_transition(transition_type="T", origin="S", destination="I", magnitude="1")], rate),
                               mk_event([mk_transition(transition_type="T", origin="S", destination="I", magnitude="2")], rate),
                               mk_event([mk_transition(transition_type="D", origin="I")], rate2),
                               mk_event([mk_transition(transition_type="T", origin="S", destination="I", magnitude="1")], rate)],
    }
    store = {"transition_list": "_transitionList", "birth_death_list": "_birthDeathList", "ode_list": "_odeList", "event_list": "_eventList"}
    for prop, target in (("transition_list", "add_transition"), ("event_list", "add_event"),
                         ("birth_death_list", "add_birth_death"), ("ode_list", "add_ode")):
        s = repo.resolve_setter(cls, prop)
        if s is None:
            raise AnalysisError("setter %s vanished" % prop)
        for held in (0, 1):
            # held = 1: the model already holds the first process (entered incrementally before the list is assigned)
            items = members[prop]()
            calls = []
            me = _model_self()
            if held:
                me.attrs[store[prop]].append(members[prop]()[0])

            def record(me_, x, _c=calls, _st=store[prop]):
                _c.append(x)
                me_.attrs[_st].append(x)          # what the add_* routine does with it (decided by the route checks)
            summ = dict(_model_summaries())
            summ["Model." + target] = record
            ab = Abs({"TransitionType": TT}, TYPES, summ, me, eq=_class_eq(repo))
            ab.consts = {"TransitionType": TT}
            tag = "delegates" if not held else "delegates(first process already held)"
            try:
                kind, _ = ab.run_function(s.node, {s.params[1]: list(items)})
            except Undecided as e:
                res.undecided("R-NORM", s, tag, "outside the modelled subset: %s" % e)
                continue
            ok = kind == "return" and [id(c) for c in calls] == [id(i) for i in items]
            res.check(ok, "R-NORM", s, tag, "every listed process (also two that differ only in magnitude, and one listed twice) is handed to %s, in order" % target,
                      "the %s setter hands %d of %d listed processes to %s: a listed process is skipped (processes that differ only in magnitude, or a process listed twice, are different entries)"
                      % (prop, len(calls), len(items), target), node=s.node)
    # constructor: BaseOdeModel.__init__ interpreted with the five list setters replaced by recorders - every keyword list reaches the setter
    # of its own kind, unchanged
    init = repo.func(M.M_BASE, "BaseOdeModel.__init__")
    given = {"transition": [Tok("T1"), Tok("T2")], "event": [Tok("E1")], "birth_death": [Tok("B1"), Tok("B2")], "ode": [Tok("O1")],
             "derived_param": [("d", "a*b")]}
    want = {"transition": "transition_list", "event": "event_list", "birth_death": "birth_death_list", "ode": "ode_list", "derived_param": "derived_param_list"}
    got = {}
    me = Obj("Model")
    summ = {"symbols": lambda *a, **k: Tok("t", "sym"), "sympy.symbols": lambda *a, **k: Tok("t", "sym"), "HasNewTransition": lambda *a: Obj("Canary"),
            "Model._add_list_attr_with_limits": lambda me_, *a, **k: None, "Model._add_list_attr": lambda me_, *a, **k: None}
    for prop in want.values():
        summ["set:Model." + prop] = (lambda me_, v, _p=prop: got.setdefault(_p, []).append(v))
    try:
        ab = Abs({}, TYPES, summ, me)
        ab.module = init.module
        kind, out = ab.run_function(init.node, dict({"state": ["S", "I"], "param": ["a", "b"]}, **given))
    except Undecided as e:
        res.undecided("R-NORM", init, "constructor-routes", "outside the modelled subset: %s" % e)
        kind = None
    if kind is not None:
        problems = []
        if kind != "return":
            problems.append("the constructor raises %s" % (out,))
        for kw_, prop in want.items():
            vals = got.get(prop, [])
            if len(vals) != 1 or vals[0] is not given[kw_]:
                problems.append("constructor argument `%s` reaches the %s setter as %r (expected once, unchanged)" % (kw_, prop, vals))
        res.check(not problems, "R-NORM", init, "constructor-routes", "every keyword list of the constructor goes through the setter of its own kind, unchanged",
                  "; ".join(problems[:2]), node=init.node)


# ------------------------------------------------------------------ R-SPLIT
def _check_split(repo, res):
    base = repo.module(M.M_BASE)
    pat = None
    for st in base.tree.body:
        if isinstance(st, ast.Assign) and isinstance(st.targets[0], ast.Name) and st.targets[0].id == "re_split_string" \
                and isinstance(st.value, ast.Call) and dotted(st.value.func) == "re.compile":
            pat = const_value(st.value.args[0])
    if not isinstance(pat, str):
        res.undecided("R-SPLIT", base.rel + "::re_split_string", None, "cannot read the splitting regex")
        return
    rx = _re.compile(pat)
    f1 = repo.func(M.M_BASE, "BaseOdeModel._add_list_attr")
    f2 = repo.func(M.M_BASE, "BaseOdeModel._add_list_attr_with_limits")
    inputs = ["a,b,c", "a b c", "a, b ,c", " a  b,", "S,I R", "beta gamma,N", "x"]
    bad = []
    from .C11 import _run_decl
    for s in inputs:
        outs = []
        me = Obj("Model")
        summ = {"re_split_string.split": lambda x: rx.split(x),
                "Model.__setattr__": lambda me_, n, v: me_.attrs.__setitem__(n, v)}
        ab = Abs({}, dict(TYPES), summ, me)
        try:
            kind, _ = ab.run_function(f1.node, {"attr": s, "attr_list_name": "names"})
            outs.append((kind, me.attrs.get("names")))
            # the state helper with the real state_list setter behind it: the names are the states the model ends up with
            kind, _, got = _run_decl(repo, s)
            outs.append((kind, [n_ for n_, _l in got]))
            want = [x for x in _re.split(r"[,\s]", s) if x.strip()]
            kind, _, got = _run_decl(repo, list(want))
            outs.append((kind, [n_ for n_, _l in got]))
        except Undecided as e:
            res.undecided("R-SPLIT", f2, "abstract-execution", "outside the modelled subset: %s" % e)
            return
        if not all(k == "return" and o == want for k, o in outs):
            bad.append("%r -> %s (expected %s)" % (s, [o for _, o in outs], want))
    res.check(not bad, "R-SPLIT", f2, "agree", "both helpers and the list form give the same names for %d declaration strings" % len(inputs),
              "declaration forms disagree: %s" % "; ".join(bad[:3]), node=f2.node)
    # the constructor uses the limits helper for states and the plain one for parameters
    init = repo.func(M.M_BASE, "BaseOdeModel.__init__")
    cs = {callee.split(".")[-1]: [const_value(a) for a in c.args[1:]] for n, c, callee in C.calls(init) if "_add_list_attr" in callee}
    res.check(cs.get("_add_list_attr_with_limits") == ["state_list"] and cs.get("_add_list_attr") == ["param_list"], "R-SPLIT", init, "wiring",
              "state declaration -> state_list, parameter declaration -> param_list", "declaration helpers are wired as %s" % cs)
