"""Runs the both-ways self-test of one property's rules on scratch copies (static only)."""
import importlib
import json
import os
import shutil
import subprocess
import tempfile
from concurrent.futures import ProcessPoolExecutor

from ..core.source import Repo, REPO, AnalysisError
from .. import report
from .variants import VARIANTS

VERIF = os.path.dirname(os.path.dirname(os.path.dirname(os.path.abspath(__file__))))
SEEDED = os.path.join(VERIF, "seeded")


def _copy_src(root, tmp):
    shutil.copytree(os.path.join(root, "src"), os.path.join(tmp, "src"),
                    ignore=shutil.ignore_patterns("*.so", "__pycache__", "*.c", "*.pyc"))


def _analyse(prop, tmp):
    repo = Repo(tmp)
    from ..run import _register_abstract_classes
    _register_abstract_classes(repo)
    mod = importlib.import_module("sa.checks." + prop)
    res = report.Result(prop, repo)
    mod.check(repo, res, "quick")
    known = {(k["rule"], k["construct"]) for k in report.load_known() if k.get("property") == prop and k.get("status") == "known"}
    viol = [(o.rule, o.construct) for o in res.obs if o.status == report.VIOLATED and (o.rule, o.construct) not in known]
    und = [(o.rule, o.construct, o.msg) for o in res.obs if o.status == report.UNDECIDED]
    return viol, und


def run_variant(job):
    kind, prop, payload, root = job
    tmp = tempfile.mkdtemp(prefix="sa_selftest_")
    try:
        _copy_src(root, tmp)
        if kind == "edit":
            rel, old, new = payload
            p = os.path.join(tmp, "src", "pygom", rel)
            with open(p, newline="") as fh:
                s = fh.read().replace("\r\n", "\n")
            if s.count(old) < 1:
                return {"status": "stale", "why": "pattern not found in %s" % rel}
            s = s.replace(old, new, 1)
            try:
                compile(s, p, "exec")
            except SyntaxError as e:
                return {"status": "stale", "why": "variant does not compile: %s" % e}
            with open(p, "w") as fh:
                fh.write(s)
        else:
            patch = payload
            r = subprocess.run(["patch", "-p1", "-s", "-d", tmp, "-i", patch], capture_output=True, text=True)
            if r.returncode != 0:
                return {"status": "stale", "why": "patch does not apply: %s" % (r.stdout + r.stderr)[:200]}
        try:
            viol, und = _analyse(prop, tmp)
        except AnalysisError as e:
            return {"status": "undecided", "why": str(e)}
        except Exception as e:      # checker crash on a variant = checker defect
            return {"status": "crash", "why": "%s: %s" % (type(e).__name__, e)}
        return {"status": "ok", "violations": viol, "undecided": und}
    finally:
        shutil.rmtree(tmp, ignore_errors=True)


def seeded_for(prop):
    out = []
    if not os.path.isdir(SEEDED):
        return out
    for d in sorted(os.listdir(SEEDED)):
        mp = os.path.join(SEEDED, d, "meta.json")
        pp = os.path.join(SEEDED, d, "patch.diff")
        if os.path.exists(mp) and os.path.exists(pp):
            meta = json.load(open(mp))
            if prop in meta.get("caught_by", []):
                out.append((d, pp, meta))
    return out


def run(prop, root=None, jobs=16):
    root = root or REPO
    mine = [v for v in VARIANTS if v[0] == prop]
    work = [("edit", prop, (v[1], v[2], v[3]), root) for v in mine]
    seeds = seeded_for(prop)
    work += [("patch", prop, pp, root) for _d, pp, _m in seeds]
    refs = refactor_diffs()
    work += [("patch", prop, pp, root) for _d, pp in refs]
    results = []
    if work:
        step = max(jobs, 1) * 8          # a fresh pool per batch, so that no worker lives long enough to grow
        for k in range(0, len(work), step):
            with ProcessPoolExecutor(max_workers=min(jobs, len(work))) as ex:
                results += list(ex.map(run_variant, work[k:k + step]))
    tally = {"faults_applied": 0, "faults_detected": 0, "refactorings_applied": 0, "refactorings_silent": 0,
             "seeded_applied": 0, "seeded_detected": 0, "stale": 0, "misses": [], "samples": []}
    for v, r in zip(mine, results[:len(mine)]):
        expect = v[4]
        label = "%s: %s -> %s" % (v[1], v[2].strip().splitlines()[0][:50], v[3].strip().splitlines()[0][:50] if v[3].strip() else "(deleted)")
        if r["status"] == "stale":
            tally["stale"] += 1
            tally["misses"].append({"variant": label, "problem": r["why"]})
            continue
        if r["status"] != "ok":
            tally["misses"].append({"variant": label, "problem": "%s: %s" % (r["status"], r["why"])})
            continue
        rules = sorted({x[0] for x in r["violations"]})
        if expect is None:
            tally["refactorings_applied"] += 1
            if not r["violations"] and not r["undecided"]:
                tally["refactorings_silent"] += 1
            else:
                tally["misses"].append({"variant": label, "problem": "refactoring reported: %s %s" % (r["violations"][:2], r["undecided"][:1])})
        else:
            tally["faults_applied"] += 1
            if rules:          # reported by this property's check (the rule id that reports it is recorded, not prescribed)
                tally["faults_detected"] += 1
                if len(tally["samples"]) < 6:
                    tally["samples"].append({"variant": label, "reported": r["violations"][0][1], "rule": r["violations"][0][0]})
            else:
                tally["misses"].append({"variant": label, "problem": "expected %s, reported %s%s" % (expect, rules, " undecided: %s" % r["undecided"][:1] if r["undecided"] else "")})
    for (d, pp, meta), r in zip(seeds, results[len(mine):len(mine) + len(seeds)]):
        tally["seeded_applied"] += 1
        if r["status"] == "ok" and r["violations"]:
            tally["seeded_detected"] += 1
        else:
            tally["misses"].append({"variant": "seeded/%s" % d, "problem": "%s %s" % (r["status"], r.get("why", "no violation reported"))})
    # behaviour-preserving refactorings written by independent sub-agents: this property's check must stay silent on every one
    tally["agent_refactorings_applied"] = 0
    tally["agent_refactorings_silent"] = 0
    for (d, pp), r in zip(refs, results[len(mine) + len(seeds):]):
        if r["status"] == "stale":
            continue
        tally["agent_refactorings_applied"] += 1
        if r["status"] == "ok" and not r["violations"] and not r["undecided"]:
            tally["agent_refactorings_silent"] += 1
        else:
            tally["misses"].append({"variant": "refactors/%s" % d, "problem": "behaviour-preserving refactoring reported: %s %s %s" % (
                r["status"], r.get("violations", [])[:1], (r.get("undecided") or [r.get("why", "")])[:1])})
    return tally


def refactor_diffs():
    out = []
    base = os.path.join(VERIF, "refactors")
    if not os.path.isdir(base):
        return out
    for pid in sorted(os.listdir(base)):
        dd = os.path.join(base, pid)
        if not os.path.isdir(dd):
            continue
        skip = {}
        mp = os.path.join(dd, "meta.json")
        if os.path.exists(mp):
            try:
                skip = json.load(open(mp)).get("not_equivalent", {})
            except Exception:
                skip = {}
        for fn in sorted(os.listdir(dd)):
            if fn.endswith(".diff") and fn not in skip:
                out.append(("%s/%s" % (pid, fn), os.path.join(dd, fn)))
    return out
