"""Both-ways self-test of the checker: seeded faults (must be reported, naming the
expected rule) and behaviour-preserving refactorings (must stay silent).

Each variant is (property, relative file under src/pygom, old text, new text,
expected rule id or None).  Text is LF-normalised; the scratch copy lives in a
tempfile directory outside /repo and /verif and is removed afterwards.  The
variants are only ever *analysed*, never executed.
"""

B = "model/base_ode_model.py"
D = "model/deterministic.py"
S = "model/simulate.py"
ST = "model/stochastic_simulation.py"
U = "model/ode_utils/__init__.py"
T = "model/transition.py"
V = "model/_model_verification.py"
L = "loss/base_loss.py"
LT = "loss/loss_type.py"
OL = "loss/ode_loss.py"
R = "utilR/distn.py"
A = "approximate_bayesian_computation/approximate_bayesian_computation.py"

VARIANTS = [
    # ------------------------------------------------------------------ C01
    ("C01", D, "                    between_state_ode[destination_index] += rate_of_change", "                    between_state_ode[destination_index] -= rate_of_change", "R-EFFECT"),
    ("C01", D, "                    origin_index=self.state_list.index(transition.origin)\n                    birth_death_ode[origin_index] -= rate_of_change", "                    origin_index=self.state_list.index(transition.origin)\n                    birth_death_ode[origin_index] += rate_of_change", "R-EFFECT"),
    ("C01", D, "                rate_of_change=magnitude*rate\n                if transition.transition_type==TransitionType.B:\n                    destination_index=self.state_list.index(transition.destination)\n                    birth_death_ode", "                rate_of_change=rate\n                if transition.transition_type==TransitionType.B:\n                    destination_index=self.state_list.index(transition.destination)\n                    birth_death_ode", "R-EFFECT"),
    ("C01", B, "                    self._vMat[origin_index, event_index] -= magnitude\n                    self._vMat[destination_index, event_index] += magnitude", "                    self._vMat[destination_index, event_index] -= magnitude\n                    self._vMat[origin_index, event_index] += magnitude", "R-EFFECT"),
    ("C01", D, "        self._ode = between_state_ode + birth_death_ode + pure_ode", "        self._ode = between_state_ode + pure_ode", "R-ACCUM"),
    ("C01", D, "            eval_param = list(state) + [time]", "            eval_param = [time] + list(state)", "R-ARGORDER"),
    ("C01", B, "        for i, event in enumerate(self.event_list):\n            self._eventRateVector[i]=", "        for i, event in enumerate(reversed(self.event_list)):\n            self._eventRateVector[i]=", "R-IDX"),
    ("C01", U, "                return lambda x: a(*x)\n", "                return lambda x: a(*x).T\n", "R-SHAPE"),
    ("C01", V, "                for _key, _value in derived_var.items():\n                    _eqn = eval", "                for _key, _value in list(derived_var.items())[:1]:\n                    _eqn = eval", "R-DERIVED"),
    ("C01", B, "            index = self.get_param_index(key)\n            self._paramValue[index] = val", "            index = list(self._parameters).index(key)\n            self._paramValue[index] = val", "R-ARGORDER"),
    ("C01", S, '        self.add_func("vMat", self.get_StateChangeMatrix, oT="mat")', '        self.add_func("vMat", self.get_StateChangeMatrix)', "R-SHAPE"),
    ("C01", D, "                rate_of_change=magnitude*rate\n                if transition.transition_type==TransitionType.B:\n                    destination_index=self.state_list.index(transition.destination)\n                    birth_death_ode", "                rate_of_change=rate*magnitude\n                if transition.transition_type is TransitionType.B:\n                    destination_index=self.state_list.index(transition.destination)\n                    birth_death_ode", None),
    ("C01", D, "                    between_state_ode[origin_index] -= rate_of_change\n                    between_state_ode[destination_index] += rate_of_change", "                    between_state_ode[destination_index] = between_state_ode[destination_index] + rate_of_change\n                    between_state_ode[origin_index] = between_state_ode[origin_index] - magnitude*rate", None),
    # ------------------------------------------------------------------ C02
    ("C02", U, "return r.y.copy(), r.successful()", "return r.y, r.successful()", None),   # harmless on this tree: on the full_output path every step builds a new integrator object, whose buffer is never stepped again
    ("C02", U, "            return r.y.copy()\n", "            out = np.asarray(r.y)\n            return out\n", "R-ROWS"),
    ("C02", U, "            o1 = _integrateOneStep(r, deltaT, func, jac, args, False)\n        # append solution, same thing whether the output is full or not\n        solution.append(o1)", "            o1 = _integrateOneStep(r, deltaT, func, jac, args, False)\n            solution.append(o1)", "R-ROWS"),
    ("C02", D, "t[0], t[1::],", "t[0], t[2::],", "R-GRID"),
    ("C02", D, "                t = np.append(self._t0, t)", "                t = np.append(t, self._t0)", "R-GRID"),
    ("C02", U, "'vode', method='bdf',", "'vode', method='adams',", "R-ROWS"),
    ("C02", D, "        return self.ode_and_sensitivity_jacobian(state_param, t, by_state)", "        return self.ode_and_sensitivity_jacobian(t, state_param, by_state)", "R-FWD"),
    ("C02", L, "        solution = ode_utils.integrateFuncJac(self._ode.ode_T,\n                                              self._ode.jacobian_T,", "        solution = ode_utils.integrateFuncJac(self._ode.ode_T,\n                                              self._ode.grad_T,", "R-PAIRFJ"),
    ("C02", U, "    r.set_initial_value(x0, t0)", "    r.set_initial_value(t0, x0)", "R-ROWS"),
    ("C02", U, "    if includeOrigin:\n        solution.append(x0)", "    if not includeOrigin:\n        solution.append(x0)", "R-ROWS"),
    ("C02", D, '        self.add_func("jacobian", self.get_jacobian_eqn, oT="mat")', '        self.add_func("jacobian", self.get_jacobian_eqn)', "R-SHAPE"),
    ("C02", U, "            return r.y.copy()\n", "            out = np.array(r.y)\n            return out\n", None),
    ("C02", U, "    solution = list()", "    solution = []", None),
    # time-first twins and call sites, decided by calling them (rules/pairx.py)
    ("C02", D, "    def ode_T(self, t, state):", "    def ode_T(self, tt, state, t=None):\n        t = tt", None),
    ("C02", D, "        return self.forwardforward(ff, t, state, s)", "        return self.forwardforward(s=s, state=state, t=t, ff=ff)", None),
    ("C02", D, "        return self.forwardforward(ff, t, state, s)", "        return self.forwardforward(ff, t, s, state)", "R-FWD"),
    ("C02", D, "        return self.sensitivity(sens, t, state, by_state)", "        return self.sensitivity(sens, t, state)", "R-FWD"),
    ("C02", D, "        return self.sensitivity(sens, t, state, by_state)", "        return self.sensitivity(sens, t, state, by_state=bool(by_state))", None),
    ("C02", D, "        return self.ode_and_sensitivity(state_param, t, by_state)", "        if by_state:\n            return self.ode_and_sensitivity(state_param, t, True)\n        return np.append(self.ode(state_param[:self.num_state], t), self.sensitivity(state_param[self.num_state:], t, state_param[:self.num_state]))", None),
    ("C02", D, "        return self.ode_and_sensitivity(state_param, t, by_state)", "        if by_state:\n            return self.ode_and_sensitivity(state_param, t, True)\n        return np.append(self.ode(state_param[:self.num_state], t), self.sensitivity(state_param[self.num_state:], t, state_param[:self.num_state], True))", "R-FWD"),
    ("C02", L, "        solution = ode_utils.integrateFuncJac(self._ode.ode_T,\n                                              self._ode.jacobian_T,", "        model = self._ode\n        solution = ode_utils.integrateFuncJac(lambda t, y: model.ode(y, t),\n                                              lambda t, y: model.jacobian(y, t),", None),
    ("C02", L, "        solution = ode_utils.integrateFuncJac(self._ode.ode_T,\n                                              self._ode.jacobian_T,", "        model = self._ode\n        solution = ode_utils.integrateFuncJac(lambda t, y: model.ode(t, y),\n                                              lambda t, y: model.jacobian(y, t),", "R-PAIRFJ"),
    ("C02", L, "            s_iv = f(self._ode.ode_and_sensitivityIV_T,\n                     self._ode.ode_and_sensitivityIV_jacobian_T,", "            s_iv = f(self._ode.ode_and_sensitivityIV_T,\n                     self._ode.ode_and_sensitivity_jacobian_T,", "R-PAIRFJ"),
    ("C02", L, "        s_out_all = f(self._ode.ode_and_forwardforward_T,\n                      self._ode.ode_and_forwardforward_jacobian_T,", "        rhs, drhs = self._ode.ode_and_forwardforward_T, self._ode.ode_and_forwardforward_jacobian_T\n        s_out_all = f(rhs,\n                      drhs,", None),
    ("C02", L, "        s_out_all = f(self._ode.ode_and_forwardforward_T,\n                      self._ode.ode_and_forwardforward_jacobian_T,", "        s_out_all = f(self._ode.ode_and_forwardforward,\n                      self._ode.ode_and_forwardforward_jacobian,", "R-PAIRFJ"),
    # ------------------------------------------------------------------ C03
    ("C03", D, "                self._Grad[i,j] = eqn", "                self._Grad[j % self.num_state,i % self.num_param] = eqn", "R-DERIV"),
    ("C03", D, "                    z = k*self.num_state + i", "                    z = i*self.num_param + k", "R-DERIV"),
    ("C03", S, "                sigma2[event_index_i] += F[event_index_i, event_index_j] * F[event_index_i, event_index_j] * rate_j", "                sigma2[event_index_i] += F[event_index_i, event_index_j] * rate_j", "R-CAO"),
    ("C03", S, "                    F[event_index_i, event_index_j] += diffEqn*self._vMat[state_index, event_index_j]", "                    F[event_index_i, event_index_j] += diffEqn*self._vMat[state_index, event_index_i]", "R-CAO"),
    ("C03", D, "        self.get_ode_eqn()\n        states = [s for s in self._iterStateList()]", "        states = [s for s in self._iterStateList()]", "R-REFRESH"),
    ("C03", D, "                    J[i,j], D2 = simplifyEquation(diff(diffEqn, sj, 1))", "                    J[i,j], D2 = simplifyEquation(diff(diffEqn, si, 1))", "R-DERIV"),
    ("C03", S, "F[event_index_i, event_index_j] * F[event_index_i, event_index_j] * rate_j", "rate_j * F[event_index_i, event_index_j]**2", None),
    # ------------------------------------------------------------------ C04
    ("C04", ST, "    jumps[min_index]=1", "    jumps[min_index-1]=1", "R-STEP"),
    ("C04", ST, "    return x + state_change_mat[:, transition_index]*n", "    return x + state_change_mat[transition_index, :]*n", "R-STEP"),
    ("C04", ST, "        jumps[i]=n_event_occurances\n        new_x = _updateStateWithJump(new_x, i, changes, n_event_occurances)", "        jumps[i]=n_event_occurances\n        new_x = _updateStateWithJump(new_x, i, changes, rpois(1, tau_scale*r, seed=seed))", "R-STEP"),
    ("C04", S, "                if success:\n                    xList.append(x.copy())", "                if True:\n                    xList.append(x.copy())", None),   # equivalent on this tree: every failing path breaks out of the loop before the record (was flagged by the retired syntactic rule)
    ("C04", S, "                        t, x = t_new, x_new", "                        t, x = t_new, x", "R-STEP"),
    ("C04", S, "        x = copy.deepcopy(self._x0)", "        x = self._x0", None),   # equivalent on this tree: the steppers never modify their input state in place, x is only rebound
    ("C04", ST, "            elif x_max is None:\n                if x_new[i]<x_min:", "            elif x_max is None:\n                if x_new[i]<=x_min:", "R-LIMIT"),
    # ------------------------------------------------------------------ C05
    ("C05", ST, "    min_index = np.argmin(jump_times)", "    min_index = np.argmax(jump_times)", "R-FR"),
    ("C05", ST, "    tau = [rexp(1, r, seed=seed) if r > 0 else np.inf for r in rates]", "    tau = [rexp(1, 1.0/r, seed=seed) if r > 0 else np.inf for r in rates]", "R-FR"),
    ("C05", ST, "    tau = [rexp(1, r, seed=seed) if r > 0 else np.inf for r in rates]", "    tau = [rexp(1, sum(rates), seed=seed) if r > 0 else np.inf for r in rates]", "R-FR"),
    ("C05", R, "        return rvs(scale=1.0/rate, size=n)[0]", "        return rvs(scale=rate, size=n)[0]", "R-WRAP"),
    ("C05", ST, "    return _checkJump(x, new_x, x_lims, t, jump_times[min_index], jumps)", "    return _checkJump(x, new_x, x_lims, t, jump_times[min_index]/2, jumps)", "R-FR"),
    ("C05", R, "        return rvs(scale=1.0/rate, size=n)[0]", "        return rvs(scale=1/rate, size=n)[0]", None),
    # python pitfalls: a mutable default argument is one object for all calls; lambdas look their free variables up when called
    ("C05", ST, "def _newJumpTimes(rates, seed=None):\n    \"\"\"\n    Generate the new jump times assuming that the rates follow an exponential\n    distribution\n    \"\"\"\n\n    tau = [rexp(1, r, seed=seed) if r > 0 else np.inf for r in rates]\n    return np.array(tau)", "def _newJumpTimes(rates, seed=None, tau=[]):\n    tau.extend(rexp(1, r, seed=seed) if r > 0 else np.inf for r in rates)\n    return np.array(tau)", "R-FR"),
    ("C05", ST, "def _newJumpTimes(rates, seed=None):\n    \"\"\"\n    Generate the new jump times assuming that the rates follow an exponential\n    distribution\n    \"\"\"\n\n    tau = [rexp(1, r, seed=seed) if r > 0 else np.inf for r in rates]\n    return np.array(tau)", "def _newJumpTimes(rates, seed=None, tau=None):\n    tau = [] if tau is None else tau\n    tau.extend(rexp(1, r, seed=seed) if r > 0 else np.inf for r in rates)\n    return np.array(tau)", None),
    ("C05", ST, "def _newJumpTimes(rates, seed=None):\n    \"\"\"\n    Generate the new jump times assuming that the rates follow an exponential\n    distribution\n    \"\"\"\n\n    tau = [rexp(1, r, seed=seed) if r > 0 else np.inf for r in rates]\n    return np.array(tau)", "def _newJumpTimes(rates, seed=None):\n    draws = [lambda: rexp(1, r, seed=seed) for r in rates]\n    tau = [d() if r > 0 else np.inf for d, r in zip(draws, rates)]\n    return np.array(tau)", "R-FR"),
    ("C05", ST, "def _newJumpTimes(rates, seed=None):\n    \"\"\"\n    Generate the new jump times assuming that the rates follow an exponential\n    distribution\n    \"\"\"\n\n    tau = [rexp(1, r, seed=seed) if r > 0 else np.inf for r in rates]\n    return np.array(tau)", "def _newJumpTimes(rates, seed=None):\n    draws = [lambda r=r: rexp(1, r, seed=seed) for r in rates]\n    tau = [d() if r > 0 else np.inf for d, r in zip(draws, rates)]\n    return np.array(tau)", None),
    # an iterator can be walked once
    ("C05", ST, "def _newJumpTimes(rates, seed=None):\n    \"\"\"\n    Generate the new jump times assuming that the rates follow an exponential\n    distribution\n    \"\"\"\n\n    tau = [rexp(1, r, seed=seed) if r > 0 else np.inf for r in rates]\n    return np.array(tau)", "def _newJumpTimes(rates, seed=None):\n    tau = (rexp(1, r, seed=seed) if r > 0 else np.inf for r in rates)\n    n_clocks = sum(1 for _ in tau)\n    return np.array(list(tau))", "R-FR"),
    ("C05", ST, "def _newJumpTimes(rates, seed=None):\n    \"\"\"\n    Generate the new jump times assuming that the rates follow an exponential\n    distribution\n    \"\"\"\n\n    tau = [rexp(1, r, seed=seed) if r > 0 else np.inf for r in rates]\n    return np.array(tau)", "def _newJumpTimes(rates, seed=None):\n    tau = [rexp(1, r, seed=seed) if r > 0 else np.inf for r in rates]\n    n_clocks = sum(1 for _ in tau)\n    return np.array(list(tau))", None),
    ("C05", ST, "def _newJumpTimes(rates, seed=None):\n    \"\"\"\n    Generate the new jump times assuming that the rates follow an exponential\n    distribution\n    \"\"\"\n\n    tau = [rexp(1, r, seed=seed) if r > 0 else np.inf for r in rates]\n    return np.array(tau)", "def _newJumpTimes(rates, seed=None):\n    pairs = zip(rates, [seed] * len(rates))\n    positive = [r for r, _s in pairs if r > 0]\n    return np.array([rexp(1, r, seed=s) if r > 0 else np.inf for r, s in pairs])", "R-FR"),
    # ------------------------------------------------------------------ C06
    ("C06", L, "                                              self._observeT,\n                                              full_output=False,", "                                              self._t,\n                                              full_output=False,", "R-ROWMATCH"),
    ("C06", L, "                        thetaDict[self._targetParam[i]] = theta[i]", "                        thetaDict[self._targetParam[i]] = theta[l1-1-i]", "R-KV"),
    ("C06", B, "                return [self._extractStateIndexSingle(i) for i in input_str]", "                return sorted(self._extractStateIndexSingle(i) for i in input_str)", "R-COLUMNS"),
    ("C06", OL, "        self._lossObj = Normal(self._y, self._weight, self._spread_param)", "        self._lossObj = Normal(self._y, self._spread_param, self._weight)", "R-WIRE"),
    ("C06", OL, "        super().__init__(theta, ode, x0, t0, t, y,\n                         state_name, state_weight, shape, target_param, target_state)", "        super().__init__(theta, ode, x0, t0, t, y,\n                         state_name, shape, state_weight, target_param, target_state)", "R-WIRE"),
    ("C06", L, "                self._setX0(theta[-self._num_state:])\n                self._setParam(theta[:self._num_param])\n        else:", "                self._setX0(theta[:self._num_state])\n                self._setParam(theta[-self._num_param:])\n        else:", "R-KV"),
    ("C06", L, "        self._observeT = t.copy()", "        self._observeT = t[::-1].copy()", "R-KV"),
    # ------------------------------------------------------------------ C07
    ("C07", L, "        sens = np.reshape(sens, (n, num_s, num_out), 'F')\n        for j in range(num_out):\n            sens[:, :, j] *= self._weight\n\n        grad", "        sens = np.reshape(sens, (n, num_s, num_out))\n        for j in range(num_out):\n            sens[:, :, j] *= self._weight\n\n        grad", "R-GRADSEL"),
    ("C07", L, "                    index_out.append(j + (i + 1 + n_p)*n_s)\n        else:", "                    index_out.append(j + (i + n_p)*n_s)\n        else:", "R-GRADSEL"),
    ("C07", L, "        init_state_sens = np.append(self._x0, np.zeros(num_sens))", "        init_state_sens = np.append(self._x0, np.ones(num_sens))", "R-INIT"),
    ("C07", L, "            grad = np.append(grad, grad_iv)\n\n            return grad\n", "            grad = np.append(grad_iv, grad)\n\n            return grad\n", "R-SLOT"),
    ("C07", L, "        return self.sens_to_grad(sens[:, index_out], diffLoss)\n\n    def _sensToGradIVWithoutIndex", "        return self.sens_to_grad(sens[:, sorted(index_out)], diffLoss)\n\n    def _sensToGradIVWithoutIndex", "R-GRADSEL"),
    # ------------------------------------------------------------------ C08
    ("C08", B, "                self._birthDeathList.append(death_event)\n                self._hasNewTransition.trip()", "                self._birthDeathList.append(death_event)", "R-TRIP"),
    ("C08", S, '              "transitionMean",', "", "R-REG"),
    ("C08", D, "self._hasNewTransition.reset(method_name)", "self._hasNewTransition.reset('ode')", "R-GUARD"),
    ("C08", D, "        self.get_ode_eqn()\n        states = ", "        states = ", "R-CACHE"),
    ("C08", D, "if not hasattr(self, compiled_obj_name) or getattr(self._hasNewTransition, method_name):", "if not hasattr(self, compiled_obj_name):", "R-GUARD"),
    ("C08", B, "                self._odeList.append(eqn)\n                self._hasNewTransition.trip()", "                self._odeList.append(eqn)", "R-TRIP"),
    ("C08", D, "    @property\n    def _SAUtil(self):", "    @property\n    def _SAUtil_unused(self):", None),
    # writes through a local alias of the definition lists (C08.local_aliases)
    ("C08", B, "                self._odeList.append(eqn)\n                self._hasNewTransition.trip()", "                for target, item in ((self._odeList, eqn),):\n                    target.append(item)\n                self._hasNewTransition.trip()", None),
    ("C08", B, "                self._odeList.append(eqn)\n                self._hasNewTransition.trip()", "                for target, item in ((self._odeList, eqn),):\n                    target.append(item)", "R-TRIP"),
    ("C08", B, "                self._odeList.append(eqn)\n                self._hasNewTransition.trip()", "                terms = self._odeList\n                terms += [eqn]", "R-TRIP"),
    ("C08", B, "                self._odeList.append(eqn)\n                self._hasNewTransition.trip()", "                terms = list(self._odeList)\n                terms.append(eqn)\n                self._odeList = terms\n                self._hasNewTransition.trip()", None),
    # ------------------------------------------------------------------ C09
    ("C09", B, "                            index_temp = f(parameters[i][0])\n                            value_temp = parameters[i][1]", "                            index_temp = f(parameters[i][0])\n                            value_temp = parameters[-i][1]", "R-KV"),
    ("C09", B, '                if hasattr(self, "_parameters"):\n                    param_out = self._parameters', "                if False:\n                    param_out = self._parameters", "R-KEEP"),
    ("C09", B, '        if input_str in self._paramDict:\n            return self._paramList.index(self._paramDict[input_str])\n        else:\n            raise InputError("Input parameter: %s does not exist" % input_str)', "        if input_str in self._paramDict:\n            return self._paramList.index(self._paramDict[input_str])\n        else:\n            return 0", "R-REJECT"),
    ("C09", B, "        for key, val in self._parameters.items():\n            index = self.get_param_index(key)", "        for index, (key, val) in enumerate(self._parameters.items()):", "R-KV"),
    # ------------------------------------------------------------------ C10
    ("C10", B, "                    self._vMat[destination_index, event_index] += magnitude\n            \n", "                    self._vMat[destination_index, event_index] += 1\n            \n", "R-EFFECT"),
    ("C10", ST, "    new_x = new_x + determ_changes*tau_scale", "    new_x = new_x + determ_changes*tau_scale + 1", "R-STEP"),
    ("C10", ST, "    return x + state_change_mat[:, transition_index]*n", "    return x + state_change_mat[transition_index, :]*n", "R-STEP"),
    # ------------------------------------------------------------------ C11
    ("C11", ST, "                if x_new[i]<x_min or x_new[i]>x_max:", "                if x_new[i]<x_min and x_new[i]>x_max:", "R-LIMIT"),
    ("C11", ST, "        success=False\n        x_new=x\n        t_new=t", "        success=False\n        t_new=t", "R-LIMIT"),
    ("C11", B, "                            lim_list.append( (0, None) )   # We assume", "                            lim_list.append( (None, None) )   # We assume", "R-DEFAULT"),
    ("C11", S, "                if success:\n                    xList.append(x.copy())", "                if True:\n                    xList.append(x.copy())", None),   # equivalent on this tree (see C04)
    # ------------------------------------------------------------------ C12
    ("C12", T, "                destination=origin\n            elif destination is None:", "                pass\n            elif destination is None:", "R-BIRTH"),
    ("C12", B, "            rate=event.equation\n            event._equation=None", "            event._equation=None\n            rate=event.equation", "R-NORM"),
    ("C12", B, "            for t in transition_list:\n                self.add_transition(t)", "            for t in transition_list[:-1]:\n                self.add_transition(t)", "R-NORM"),
    ("C12", B, "                trans=Transition(origin=transition.origin,\n                                 destination=transition.destination,", "                trans=Transition(origin=transition.destination,\n                                 destination=transition.origin,", "R-NORM"),
    ("C12", B, "                                 magnitude=transition._magnitude)", "                                 )", "R-NORM"),
    ("C12", T, "            elif (n_eq==1) and (rate is not None):", "            elif (n_eq==1) and (rate is None):", "R-NULL"),
    ("C12", T, "                self.rate=rate if rate is not None else member_rate", "                self.rate=rate", "R-NULL"),
    # ------------------------------------------------------------------ C13
    ("C13", U, "    return np.reshape(s, (numState, numParam), 'F')", "    return np.reshape(s, (numState, numParam))", "R-LAYOUT"),
    ("C13", D, "        outJ = np.kron(np.eye(self.num_param), J)\n        # Jacobian of the gradient", "        outJ = np.kron(J, np.eye(self.num_param))\n        # Jacobian of the gradient", "R-JAC"),
    ("C13", D, "        A = np.dot(J, S) + G\n\n        if by_state:", "        A = np.dot(S.T, J).T + G\n\n        if by_state:", "R-VAR"),
    ("C13", D, "        return self._SAUtil.matToVecSens(A), B.flatten('F')", "        return self._SAUtil.matToVecSens(A), B.flatten()", "R-VARIV"),
    ("C13", D, "            self._SAUtil.vecToMatSens(sens)).transpose(), (nS*nP, nS)))", "            self._SAUtil.vecToMatSens(sens)), (nS*nP, nS)))", "R-JAC"),
    ("C13", D, "                [A, np.zeros((nS*nS, nS*nP)), np.kron(np.eye(nS), J)]", "                [A, np.zeros((nS*nS, nS*nP)), np.kron(J, np.eye(nS))]", "R-JAC"),
    ("C13", D, "        A = np.dot(J, S) + G\n\n        if by_state:", "        A = G + J.dot(S)\n\n        if by_state:", None),
    # ------------------------------------------------------------------ C14
    ("C14", LT, "        logpdf_p3 = -np.log(np.pi)/2", "        logpdf_p3 = -np.log(np.pi)", "R-ALG(value)"),
    ("C14", LT, "        return (-dpois(self._y, yhat, True)).sum()", "        return (-dpois(yhat, self._y, True)).sum()", "R-ALG(value)"),
    ("C14", LT, "        return shape*(residual+self._y)/yhat**3", "        return shape*(residual+self._y)/yhat**2", "R-ALG(d2)"),
    ("C14", LT, "        first_derivs_yhat = k*-residual/(yhat*(k+yhat))", "        first_derivs_yhat = k*-residual/(yhat*(k-yhat))", "R-ALG(d1)"),
    ("C14", R, "    logpdf_p3= -shape*np.log(mu/shape)", "    logpdf_p3= -shape*np.log(mu*shape)", "R-ALG(value)"),
    ("C14", LT, "        logpdf_p1 = -np.log(2)\n        logpdf_p2 = np.log(2)/2", "        logpdf_p1 = -np.log(2)/2\n        logpdf_p2 = 0", None),
    # ------------------------------------------------------------------ C15
    ("C15", S, "                index = max(np.searchsorted(t, t_target) - 1, 0)", "                index = max(np.searchsorted(t, t_target), 0)", "R-LOOKUP"),
    ("C15", S, "                index = max(np.searchsorted(t, t_target) - 1, 0)", "                index = np.searchsorted(t, t_target) - 1", "R-LOOKUP"),
    ("C15", S, "                    x = self._extractObservationAtTime(simX, simT, t)", "                    x = self._extractObservationAtTime(simX, t, simT)", "R-GRIDRUN"),
    ("C15", S, "weights=dX[:,i])", "weights=dX[:,0])", "R-LOOPDEP"),
    ("C15", S, "            hist, bin_edges=np.histogram(t[1:], bins=targetTime,", "            hist, bin_edges=np.histogram(t, bins=targetTime,", "R-LOOPDEP"),
    # ------------------------------------------------------------------ C16
    ("C16", R, "    if seed is None:\n        rvs = np.random.poisson", "    if seed is None:\n        rvs = np.random.default_rng().poisson", "R-RNG"),
    ("C16", ST, "    tau = [rexp(1, r, seed=seed) if r > 0 else np.inf for r in rates]", "    tau = [rexp(1, r, seed=True) if r > 0 else np.inf for r in rates]", "R-RNG"),
    ("C16", S, "        x = copy.deepcopy(self._x0)", "        x = self._x0", None),   # equivalent on this tree (see C04)
    ("C16", ST, "    new_x = x.copy()                # updated state populations", "    new_x = x                # updated state populations\n    x += 0", None),   # equivalent: `x += 0` changes nothing and new_x is rebound to a fresh array by the first update
    # ------------------------------------------------------------------ C17
    ("C17", A, "                cost = self.obj.cost()\n                if cost < tolerance:\n                    if generation == 0:", "                cost = self.obj.cost()\n                if cost <= tolerance:\n                    if generation == 0:", "R-ACCEPT"),
    ("C17", A, "        return (w1/w2, rejections, trial_params, cost)", "        return (w1/w2, rejections, cost, trial_params)", "R-SLOT"),
    ("C17", A, "                return np.quantile(self.dist,self.q)", "                return np.quantile(self.dist,1-self.q)", "R-SCHED"),
    ("C17", A, '            assert tol <= self.final_tol, "The initial', '            assert tol >= 0, "The initial', "R-SCHED"),
    # ------------------------------------------------------------------ C18
    ("C18", L, "        box_bounds = np.reshape(np.append(lb, ub), (len(lb), 2), 'F')", "        box_bounds = np.reshape(np.append(lb, ub), (len(lb), 2))", "R-LAYOUT"),
    ("C18", L, "        box_bounds = np.reshape(np.append(lb, ub), (len(lb), 2), 'F')", "        box_bounds = np.reshape(np.append(ub, lb), (len(lb), 2), 'F')", "R-LAYOUT"),
    ("C18", L, "            if len(lb) != len(x):", "            if len(lb) > len(x):", "R-WIRE"),
    ("C18", L, "        box_bounds = np.reshape(np.append(lb, ub), (len(lb), 2), 'F')", "        box_bounds = np.column_stack((lb, ub))", None),
    # ------------------------------------------------------------------ C19
    ("C19", R, "return st.gamma.logcdf(q, a=shape, scale=1.0/rate)", "return st.gamma.logcdf(q, a=shape, scale=rate)", "R-WRAP"),
    ("C19", R, "logpmf_p3= k*(np.log(k) - np.log(k + mu))", "logpmf_p3= k*(np.log(k) - np.log(mu))", "R-ALG"),
    ("C19", R, "        rvs = test_seed(seed).poisson", "        rvs = np.random.RandomState().poisson", "R-SEED"),
    ("C19", R, "        return st.chi2.cdf(x, df=df)", "        return st.chi2.pdf(x, df=df)", "R-WRAP"),
    ("C19", R, "        return st.norm.pdf(x, loc=mean, scale=sd)", "        y = st.norm\n        return y.pdf(x, mean, sd)", None),
    # ------------------------------------------------------------------ C20
    ("C20", L, "                J += np.dot(s.T, s)", "                J += np.dot(s.T, s)*2", "R-GRAM"),
    ("C20", L, "            E[self._stateIndex] += diff_loss[i]", "            E[self._stateIndex] += -diff_loss[i]", "R-SIGN"),
    ("C20", L, "        HJTJ += 2*JTJ", "        HJTJ += JTJ", "R-SIGN"),
    ("C20", D, "        outFF = self._SAUtil.kronParam(J).dot(FF)", "        outFF = self._SAUtil.kronParam(J, pre=True).dot(FF)", "R-TERMS"),
]

REFACTORINGS = [
    ("C04", S, "                    if success==False:\n                        break\n                else:", "                    if not success:\n                        break\n                else:", None),
    ("C04", ST, "    jumps=[0]*len(rates)\n    jumps[min_index]=1", "    jumps = [0] * len(rates)\n    jumps[min_index] = 1", None),
    ("C06", L, "        self._observeT = t.copy()", "        self._observeT = np.copy(t)", None),
    ("C07", L, "        num_sens =  self._num_state*self._num_param\n        init_state_sens", "        num_sens =  self._num_param*self._num_state\n        init_state_sens", None),
    ("C07", L, "        grad = functools.reduce(np.add,map(np.dot, diff_loss, sens)).ravel()", "        grad = functools.reduce(np.add, [np.dot(d_, s_) for d_, s_ in zip(diff_loss, sens)]).ravel()", None),
    ("C08", B, "            self._eventList.append(event)\n            self._hasNewTransition.trip()\n        elif isinstance(event, Transition):", "            self._hasNewTransition.trip()\n            self._eventList.append(event)\n        elif isinstance(event, Transition):", None),
    ("C09", B, "                            index_temp = f(parameters[i][0])\n                            value_temp = parameters[i][1]\n                            param_out[index_temp] = value_temp", "                            name_i, value_i = parameters[i][0], parameters[i][1]\n                            param_out[f(name_i)] = value_i", None),
    ("C10", ST, "                if x_new[i]<x_min or x_new[i]>x_max:", "                if x_min>x_new[i] or x_max<x_new[i]:", None),
    ("C11", ST, "                if x_new[i]<x_min or x_new[i]>x_max:", "                if x_min>x_new[i] or x_max<x_new[i]:", None),
    ("C11", ST, "        if x_lim != (None, None):", "        if not (x_lim[0] is None and x_lim[1] is None):", None),
    ("C12", B, "            if t is TransitionType.B:", "            if t == TransitionType.B:", None),
    ("C15", S, "            X_out[:,i]=hist            ", "            X_out[:, i] = hist", None),
    ("C16", S, "        x = copy.deepcopy(self._x0)", "        x = self._x0.copy()", None),
    ("C17", A, "            if w1:\n                # converting from log-scale and ensuring total population size is conserved\n                model_params = self._log_parameters(trial_params.copy())\n                par_update(model_params[self.par_order])\n                if hasattr(self,\"con_state\"): ", "            if w1 > 0:\n                # converting from log-scale and ensuring total population size is conserved\n                model_params = self._log_parameters(trial_params.copy())\n                par_update(model_params[self.par_order])\n                if hasattr(self,\"con_state\"): ", None),
    ("C20", L, "                J += np.dot(s.T, s)", "                J += s.T.dot(s)", None),
    ("C13", D, "        return np.append(out1, out2)\n\n    def ode_and_sensitivity_T", "        return np.append(np.asarray(out1), out2)\n\n    def ode_and_sensitivity_T", None),
    ("C03", D, "                eqn, isDifficult = simplifyEquation(diff(ode[i], p, 1))\n                self._Grad[i,j] = eqn", "                d_ip = diff(ode[i], p, 1)\n                eqn, isDifficult = simplifyEquation(d_ip)\n                self._Grad[i,j] = eqn", None),
    ("C02", U, "        solution.append(o1)\n    # finish integration", "        solution += [o1]\n    # finish integration", None),
    # refactorings of the constructs the wave-3 rules look at
    ("C01", V, "                for _key, _value in derived_var.items():\n                    _eqn = eval", "                for _k, _v in derived_var.items():\n                    _key, _value = _k, _v\n                    _eqn = eval", None),
    ("C08", "model/ode_utils/compile_canary.py", "        self._states = dict([(state, True) for state in self.states])", "        self._states = {state: True for state in self.states}", None),
    ("C06", L, "            self._targetParam = ode_utils.str_or_list(target_param)", "            self._targetParam = list(ode_utils.str_or_list(target_param))", None),
    ("C18", L, "        self._stateName = state_name\n", "        self._stateName = list(state_name)\n", None),
    ("C19", R, "    if log:\n        return st.norm.logpdf(x, loc=mean, scale=sd)\n    else:\n        return st.norm.pdf(x, loc=mean, scale=sd)", "    density = st.norm.logpdf if log else st.norm.pdf\n    return density(x, loc=mean, scale=sd)", None),
    ("C19", R, "    if log:\n        return st.norm.logpdf(x, loc=mean, scale=sd)\n    else:\n        return st.norm.pdf(x, loc=mean, scale=sd)", "    return st.norm.logpdf(x, loc=mean, scale=sd) if log else st.norm.pdf(x, loc=mean, scale=sd)", None),
    ("C17", L, "        self._ode.parameters = self._theta\n        # TODO: is this the correct approach", "        ode = self._ode\n        ode.parameters = self._theta\n        # TODO: is this the correct approach", None),
]
VARIANTS += REFACTORINGS
