"""E4 - effect tables of the model builders.

For a builder of the shape
    for [k,] event in [enumerate(] self.event_list [)]:
        for transition in event.transition_list:
            if transition.transition_type == TransitionType.X: ...
extract, per transition type X, the multiset of
    (container, index roles, sign in {+,-,set}, canonical value)
where index roles are read off the reaching definition of the index variables
(self.state_list.index(transition.origin|destination), the enumerate counter of the
event loop) and the value is a canonical product over the atoms
MAG = checkEquation(<transition>._magnitude, ..), RATE = checkEquation(<event>.rate, ..).
"""
import ast

from ..core.source import norm, dotted, is_self_attr, walk_no_nested, AnalysisError
from ..core.cfg import cfg_of
from ..core.dataflow import dataflow_of
from ..core import algebra as A
from . import model as M
from . import common as C


class Effect:
    def __init__(self, ttype, container, roles, sign, value, node, stmt):
        self.ttype = ttype          # 'B' 'D' 'T' 'ODE' or None (unguarded)
        self.container = container
        self.roles = roles          # tuple of role strings per subscript position
        self.sign = sign
        self.value = value          # algebra.Rat or None
        self.node = node
        self.stmt = stmt

    def key(self):
        return (self.roles, self.sign)

    def __repr__(self):
        return "<%s %s[%s] %s %r>" % (self.ttype, self.container, ",".join(self.roles), self.sign, self.value)


class BuilderShape:
    def __init__(self, func):
        self.func = func
        self.event_loop = None
        self.event_var = None
        self.event_idx = None
        self.trans_loop = None
        self.trans_var = None
        self.ode_loop = None
        self.ode_var = None


def _loop_target(it_node):
    """(index var, element var, iterable expr) of a for loop header"""
    st = it_node.ast
    it = st.iter
    if isinstance(it, ast.Call) and dotted(it.func) == "enumerate" and it.args and isinstance(st.target, ast.Tuple) and len(st.target.elts) == 2:
        i, e = st.target.elts
        if isinstance(i, ast.Name) and isinstance(e, ast.Name):
            return i.id, e.id, it.args[0]
    if isinstance(st.target, ast.Name):
        return None, st.target.id, it
    return None, None, it


def find_shape(repo, cls, func):
    cfg, df = cfg_of(func), dataflow_of(func)
    sh = BuilderShape(func)
    for n in cfg.nodes:
        if n.kind != "iter":
            continue
        idx, el, it = _loop_target(n)
        base = it
        if is_self_attr(base):
            t = M.getter_target(repo, cls, base.attr) or base.attr
            if t == "_eventList" and sh.event_loop is None:
                sh.event_loop, sh.event_var, sh.event_idx = n, el, idx
            elif t == "_odeList" and sh.ode_loop is None:
                sh.ode_loop, sh.ode_var = n, el
        elif isinstance(base, ast.Attribute) and base.attr == "transition_list" and isinstance(base.value, ast.Name):
            if sh.event_var is not None and base.value.id == sh.event_var:
                sh.trans_loop, sh.trans_var = n, el
    return sh


def _ttype_of_test(test, tvars):
    """('B'|'D'|'T'|'ODE', var) if test is <var>.transition_type ==/is TransitionType.K"""
    if isinstance(test, ast.Compare) and len(test.ops) == 1 and isinstance(test.ops[0], (ast.Eq, ast.Is)):
        l, r = test.left, test.comparators[0]
        for a, b in ((l, r), (r, l)):
            if isinstance(a, ast.Attribute) and a.attr == "transition_type" and isinstance(a.value, ast.Name) and a.value.id in tvars:
                d = dotted(b)
                if d and d.startswith("TransitionType."):
                    return d.split(".")[1], a.value.id
            if isinstance(a, ast.Name):
                pass
    return None


def branch_type(cfg, df, node, tvars):
    """transition type under which `node` executes (from the positive guards)"""
    pos = []
    for t, o in cfg.guards_of(node):
        if not isinstance(t.ast, ast.If):
            continue
        test = t.ast.test
        # t = birth_death.transition_type ; if t is TransitionType.B
        tt = _ttype_of_test(test, tvars)
        if tt is None and isinstance(test, ast.Compare) and isinstance(test.left, ast.Name):
            ex = df.expand(test.left, t)
            if isinstance(ex, ast.Attribute):
                test2 = ast.Compare(left=ex, ops=test.ops, comparators=test.comparators)
                tt = _ttype_of_test(test2, tvars)
        if tt is not None and o is True:
            pos.append(tt[0])
    if len(pos) == 1:
        return pos[0]
    if not pos:
        return None
    return "+".join(pos)


def index_role(expr, df, at, sh, repo, cls):
    """role of a subscript index expression"""
    e = df.expand(expr, at)
    if isinstance(e, ast.Name):
        d = df.single_def(at, e.id)
        if d is not None and d.kind == "for":
            idx, el, it = _loop_target(d.node)
            if idx == e.id:
                base = it
                if is_self_attr(base):
                    t = M.getter_target(repo, cls, base.attr) or base.attr
                    return {"_eventList": "event", "_stateList": "state#", "_paramList": "param#"}.get(t, "enum(%s)" % norm(base))
                if isinstance(base, ast.Call) and is_self_attr(base.func):
                    return {"_iterStateList": "state#", "_iterParamList": "param#"}.get(base.func.attr, "enum(%s)" % norm(base))
                if is_self_attr(base) is False and isinstance(base, ast.Attribute):
                    return "enum(%s)" % norm(base)
                return "enum(%s)" % norm(base)
            if isinstance(d.value, ast.Call) and dotted(d.value.func) == "range":
                return "range(%s)" % ",".join(norm(a) for a in d.value.args)
        return "var(%s)" % e.id
    if isinstance(e, ast.Call) and isinstance(e.func, ast.Attribute) and e.func.attr == "index" and len(e.args) == 1:
        lst = e.func.value
        arg = e.args[0]
        lst_t = None
        if is_self_attr(lst):
            lst_t = M.getter_target(repo, cls, lst.attr) or lst.attr
        if lst_t == "_stateList" and isinstance(arg, ast.Attribute) and isinstance(arg.value, ast.Name):
            who = arg.value.id
            if who in (sh.trans_var, sh.ode_var):
                return arg.attr            # origin | destination
            return "%s.%s" % (who, arg.attr)
        return "index(%s in %s)" % (norm(arg), norm(lst))
    if isinstance(e, ast.Constant):
        return "const(%r)" % e.value
    return "expr(%s)" % norm(e)[:40]


def value_of(expr, df, at, sh):
    """canonical value over MAG / RATE / ODE_EQ atoms, or None"""
    e = df.expand(expr, at)

    def hook(dn, call, it):
        if dn == "checkEquation" and call.args:
            a = call.args[0]
            if isinstance(a, ast.Attribute) and isinstance(a.value, ast.Name):
                if a.value.id == sh.trans_var and a.attr == "_magnitude":
                    return A.sym("MAG")
                if a.value.id == sh.event_var and a.attr == "rate":
                    return A.sym("RATE")
                if a.value.id == sh.ode_var and a.attr == "equation":
                    return A.sym("ODE_EQ")
                if a.value.id == sh.trans_var and a.attr == "equation":
                    return A.sym("TRANS_EQ")
                return A.sym("checkEquation(%s)" % norm(a))
        return None
    try:
        return A.lift(A.Interp({}, {}, hook).ev(e))
    except A.Undecided:
        return None


def effects_of(repo, cls, func):
    """-> (shape, [Effect])"""
    cfg, df = cfg_of(func), dataflow_of(func)
    sh = find_shape(repo, cls, func)
    out = []
    tvars = {v for v in (sh.trans_var,) if v}
    for n in cfg.stmt_nodes():
        st = n.ast
        if n.kind != "stmt":
            continue
        tgt, sign, val = None, None, None
        if isinstance(st, ast.AugAssign) and isinstance(st.target, ast.Subscript):
            tgt, val = st.target, st.value
            sign = "+" if isinstance(st.op, ast.Add) else "-" if isinstance(st.op, ast.Sub) else "op(%s)" % type(st.op).__name__
        elif isinstance(st, ast.Assign) and len(st.targets) == 1 and isinstance(st.targets[0], ast.Subscript):
            tgt, val, sign = st.targets[0], st.value, "set"
            # X[i] = X[i] + v  /  X[i] = X[i] - v
            if isinstance(val, ast.BinOp) and isinstance(val.op, (ast.Add, ast.Sub)) and norm(val.left) == norm(tgt):
                sign = "+" if isinstance(val.op, ast.Add) else "-"
                val = val.right
            elif isinstance(val, ast.BinOp) and isinstance(val.op, ast.Add) and norm(val.right) == norm(tgt):
                sign, val = "+", val.left
        else:
            continue
        in_trans = sh.trans_loop is not None and cfg.reaches(cfg.edge_node(sh.trans_loop, "body"), n, avoid=[sh.trans_loop])
        in_ode = sh.ode_loop is not None and cfg.reaches(cfg.edge_node(sh.ode_loop, "body"), n, avoid=[sh.ode_loop])
        in_event = sh.event_loop is not None and cfg.reaches(cfg.edge_node(sh.event_loop, "body"), n, avoid=[sh.event_loop])
        if not (in_trans or in_ode or in_event):
            continue
        cont = norm(tgt.value)
        idxs = tgt.slice.elts if isinstance(tgt.slice, ast.Tuple) else [tgt.slice]
        roles = tuple(index_role(i, df, n, sh, repo, cls) for i in idxs)
        ttype = branch_type(cfg, df, n, tvars) if in_trans else ("ODE" if in_ode else None)
        out.append(Effect(ttype, cont, roles, sign, value_of(val, df, n, sh), n, st))
    return sh, out


# canonical tables ------------------------------------------------------------
SIGNED = {"B": {(("destination",), "+")},
          "D": {(("origin",), "-")},
          "T": {(("origin",), "-"), (("destination",), "+")}}


def with_event(table):
    return {k: {((r[0], "event"), s) for r, s in v} for k, v in table.items()}
