"""E7 - thin-wrapper normal form.

A wrapper is executed *abstractly* under a finite set of scenarios for its flag
parameters (log in {True, False}, seed in {None, an int}, n in {1, 3}, ...):
control flow is decided from the flags, everything else stays symbolic, local
aliases (rvs = np.random.exponential) are substituted.  The result per scenario
is the returned expression, 'raise', or None (falls off the end)."""
import ast
import copy

from ..core.source import norm, dotted
from ..core.algebra import Undecided


class Opaque:
    """a symbolic, truthy, non-None value"""
    def __init__(self, name):
        self.name = name

    def __repr__(self):
        return "<%s>" % self.name


class _Raise(Exception):
    pass


class _Return(Exception):
    def __init__(self, v):
        self.v = v


BUILTIN_TYPES = {"int": int, "float": float, "bool": bool, "str": str, "list": list, "tuple": tuple, "dict": dict}


class Scenario:
    def __init__(self, func_node, flags):
        self.fn = func_node
        self.flags = dict(flags)      # param -> python value | Opaque
        self.alias = {}               # local name -> ast expr (already substituted)

    # -- concrete evaluation of tests
    def val(self, e):
        if isinstance(e, ast.Constant):
            return e.value
        if isinstance(e, ast.Name):
            if e.id in self.flags:
                return self.flags[e.id]
            if e.id in self.alias:
                return self.val(self.alias[e.id])
            return Opaque(e.id)
        if isinstance(e, ast.UnaryOp) and isinstance(e.op, ast.Not):
            return not self.truth(e.operand)
        if isinstance(e, ast.BoolOp):
            vals = [self.truth(v) for v in e.values]
            return all(vals) if isinstance(e.op, ast.And) else any(vals)
        if isinstance(e, ast.Compare) and len(e.ops) == 1:
            a, b = self.val(e.left), self.val(e.comparators[0])
            op = e.ops[0]
            if isinstance(op, ast.Is):
                if isinstance(a, Opaque) or isinstance(b, Opaque):
                    if b is None or a is None or isinstance(b, bool) or isinstance(a, bool):
                        return False     # an opaque value is neither None nor a bool singleton
                    raise Undecided("identity of opaque values")
                return a is b
            if isinstance(op, ast.IsNot):
                if isinstance(a, Opaque) or isinstance(b, Opaque):
                    if b is None or a is None or isinstance(b, bool) or isinstance(a, bool):
                        return True
                    raise Undecided("identity of opaque values")
                return a is not b
            if isinstance(a, Opaque) or isinstance(b, Opaque):
                raise Undecided("comparison on a symbolic value: %s" % norm(e))
            try:
                if isinstance(op, ast.Eq):
                    return a == b
                if isinstance(op, ast.NotEq):
                    return a != b
                if isinstance(op, ast.Gt):
                    return a > b
                if isinstance(op, ast.GtE):
                    return a >= b
                if isinstance(op, ast.Lt):
                    return a < b
                if isinstance(op, ast.LtE):
                    return a <= b
            except TypeError:
                raise Undecided("comparison %s" % norm(e))
        if isinstance(e, ast.Call) and dotted(e.func) == "isinstance" and len(e.args) == 2:
            v = self.val(e.args[0])
            if isinstance(v, Opaque):
                raise Undecided("isinstance of symbolic value")
            tnames = e.args[1].elts if isinstance(e.args[1], ast.Tuple) else [e.args[1]]
            res = False
            for t in tnames:
                tn = dotted(t)
                if tn in BUILTIN_TYPES:
                    res = res or isinstance(v, BUILTIN_TYPES[tn])
                # foreign classes (np.random.RandomState ...): a python scalar is not one
            return res
        raise Undecided("cannot evaluate test %s" % norm(e))

    def truth(self, e):
        v = self.val(e)
        if isinstance(v, Opaque):
            raise Undecided("truth of symbolic value %s" % v.name)
        return bool(v)

    # -- symbolic substitution of aliases
    def subst(self, e):
        sc = self

        class T(ast.NodeTransformer):
            def visit_Name(self, node):
                if isinstance(node.ctx, ast.Load) and node.id in sc.alias:
                    return copy.deepcopy(sc.alias[node.id])
                return node

            def visit_Lambda(self, node):
                return node

            def visit_IfExp(self, node):
                # a conditional expression on a flag is control flow: take the branch the scenario selects
                try:
                    taken = node.body if sc.truth(node.test) else node.orelse
                except Undecided:
                    return self.generic_visit(node)
                return self.visit(taken)
        return T().visit(copy.deepcopy(e))

    def run(self, stmts):
        for st in stmts:
            if isinstance(st, ast.Expr):
                continue
            if isinstance(st, ast.Pass):
                continue
            if isinstance(st, ast.Assign):
                v = self.subst(st.value)
                for t in st.targets:
                    if isinstance(t, ast.Name):
                        self.alias[t.id] = v
                        self.flags.pop(t.id, None)
                    else:
                        raise Undecided("store to %s" % norm(t))
                continue
            if isinstance(st, ast.If):
                if self.truth(st.test):
                    self.run(st.body)
                else:
                    self.run(st.orelse)
                continue
            if isinstance(st, ast.Return):
                raise _Return(self.subst(st.value) if st.value is not None else None)
            if isinstance(st, ast.Raise):
                raise _Raise()
            if isinstance(st, ast.Assert):
                continue
            raise Undecided("statement %s in wrapper" % type(st).__name__)

    def result(self):
        """-> ('return', expr-or-None) | ('raise', None)"""
        try:
            self.run(self.fn.body)
        except _Return as r:
            return ("return", r.v)
        except _Raise:
            return ("raise", None)
        return ("return", None)


def run_scenario(func_node, flags):
    return Scenario(func_node, flags).result()


def call_parts(e):
    """(callee dotted text, positional arg exprs, {kw: expr}, trailing subscript or None)"""
    sub = None
    if isinstance(e, ast.Subscript):
        sub = e.slice
        e = e.value
    if not isinstance(e, ast.Call):
        return None
    callee = dotted(e.func)
    if callee is None:
        # method on a call result:  test_seed(seed).exponential
        if isinstance(e.func, ast.Attribute):
            callee = norm(e.func)
        else:
            callee = norm(e.func)
    pos = [a for a in e.args]
    kw = {k.arg: k.value for k in e.keywords}
    return callee, pos, kw, sub
