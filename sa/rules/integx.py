"""Semantic rules for the per-time-point integration driver (ode_utils.integrateFuncJac and its helpers), decided by
abstract execution against a model of scipy.integrate.ode.

`integrateFuncJac` is interpreted (its helpers `_setupIntegrator`, `_integrateOneStep`,
`_determineIntegratorGivenEigenValue` are interpreted from their own source) with `scipy.integrate.ode` replaced by
an integrator object written from scipy's documented interface:

 * set_integrator / set_f_params / set_jac_params / set_initial_value return the object, set_initial_value stores a
   float copy of the state and the start time;
 * integrate(t) advances the state *exactly* along the flow of the test problem y' = c (so y(t) = y(s) + c (t - s)
   whatever the step sequence) and - like the lsoda / vode wrappers - **updates its state buffer in place**;
 * successful() reports what the scenario scripts.

The rows returned must be ([x0] if includeOrigin) + [x0 + c (t_k - t0) for every requested t_k, in order]; the
set-up calls must name a scipy integrator that exists, with the caller's functions, tolerances and step budget; a
failed step must raise instead of returning a state.  Only values are compared.
"""
from ..core.absint import Abs, Obj, Tok, Raised
from ..core.algebra import Undecided
from ..core.numarr import NumArr, num_summaries
from ..core.source import AnalysisError
from . import model as M

SCIPY_INTEGRATORS = {"vode", "zvode", "lsoda", "dopri5", "dop853"}
EXPECTED = {  # repo method name -> (scipy integrator, extra keyword values that must be passed, needs the jacobian)
    "dopri5": ("dopri5", {}, False), "dop853": ("dop853", {}, False), "vode": ("vode", {}, True),
    "ivode": ("vode", {"method": "bdf"}, True), "lsoda": ("lsoda", {}, True),
}
C = [0.5, -2.0]          # velocity of the test problem


class OdeWorld:
    def __init__(self, fail_at=None, eig=None):
        self.setups, self.steps, self.fail_at = [], [], fail_at
        self.eig = eig or (lambda t: [0.3, -1.0])
        self.objs = []
        self.budgets = []                # (library routine, internal steps allowed between two output times)
        self.vel = lambda: list(C)       # velocity of the test problem (a session makes it depend on the model's current parameter value)


class OdeObj:
    _abs_native = True

    def __init__(self, world, f, jac=None):
        self.world, self.f, self.jac = world, f, jac
        self.name, self.kw, self.y, self.t, self._ok = None, {}, None, None, True
        world.objs.append(self)

    def set_integrator(self, name, **kw):
        self.name, self.kw = name, dict(kw)
        self.world.setups.append(self)
        self.world.budgets.append((name, kw.get("nsteps", 500)))         # scipy's default for every integrator of scipy.integrate.ode
        return self

    def set_f_params(self, *a):
        self.f_params = a
        return self

    def set_jac_params(self, *a):
        self.jac_params = a
        return self

    def set_initial_value(self, y, t=0.0):
        if isinstance(t, bool) or not isinstance(t, (int, float)) or not isinstance(y, (NumArr, list, tuple)):
            raise Raised("ValueError(set_initial_value(y, t) expects the state array first and a scalar time, got (%s, %s))" % (type(y).__name__, type(t).__name__))
        # the integrator keeps its own state buffer (confirmed on this scipy: rows collected from successive *new* integrator objects
        # started at an earlier row stay intact, rows read from one object's .y without copying all end up equal to the last state)
        self.y = NumArr([float(v) for v in y])
        self.t = t
        return self

    def integrate(self, t, step=False, relax=False):
        if self.y is None or self.name is None:
            raise Raised("RuntimeError(integrate before set_integrator / set_initial_value)")
        self.world.steps.append((self.name, self.t, t))
        if self.world.fail_at is not None and len(self.world.steps) == self.world.fail_at:
            self._ok = False
        new = [yi + ci * (t - self.t) for yi, ci in zip(self.y.data, self.world.vel())]
        self.y._written()
        self.y._data[:] = new          # the wrapper reuses its state buffer
        self.t = t
        return self.y

    def successful(self):
        return self._ok


def _world_summaries(world):
    s = dict(num_summaries())

    def ode(f, jac=None):
        return OdeObj(world, f, jac)

    def eig(J):
        t = J[1] if isinstance(J, tuple) and len(J) > 1 else 0.0
        return (NumArr(list(world.eig(t))), Tok("eigenvectors"))
    s.update({"scipy.integrate.ode": ode, "integrate.ode": ode, "ode": ode, "np.linalg.eig": eig, "numpy.linalg.eig": eig,
              "scipy.linalg.eig": eig, "np.linalg.eigvals": lambda J: eig(J)[0],
              "is_list_like": lambda v: isinstance(v, (list, tuple, NumArr)), "str": lambda v: v if isinstance(v, str) else "<str>",
              "InputError": lambda *a: "InputError", "IntegrationError": lambda *a: "IntegrationError"})
    s.pop("max", None)
    s.pop("min", None)
    return s


def run(repo, t, include_origin, full_output, method, fail_at=None, eig=None, x0=(10.0, 20.0), t0=0.5, int_x0=False):
    f = repo.try_func(M.M_UTILS, "integrateFuncJac")
    if f is None:
        raise AnalysisError("ode_utils.integrateFuncJac vanished")
    world = OdeWorld(fail_at, eig)
    summ = _world_summaries(world)
    types = {"Number": lambda v: isinstance(v, (int, float)) and not isinstance(v, bool),
             "np.ndarray": lambda v: isinstance(v, NumArr), "numbers.Number": lambda v: isinstance(v, (int, float)) and not isinstance(v, bool)}
    ab = Abs({}, types, summ, None, {}, budget=100000)
    ab.module = f.module
    func = ("py", lambda *a: ("f",) + tuple(a[:1]))
    jac = ("py", lambda t_, y_, *a: ("J", t_))
    x0v = NumArr([int(v) for v in x0] if int_x0 else list(x0))
    names = f.params
    args = {"func": func, "jac": jac, "x0": x0v, "t0": t0, "t": t, "includeOrigin": include_origin, "full_output": full_output, "method": method}
    args = {k: v for k, v in args.items() if k in names}
    kind, out = ab.run_function(f.node, args)
    return f, kind, out, world, (func, jac)


def want_rows(times, include_origin, x0=(10.0, 20.0), t0=0.5):
    rows = [[float(v) for v in x0]] if include_origin else []
    for tk in times:
        rows.append([xi + ci * (tk - t0) for xi, ci in zip(x0, C)])
    return rows


def _close(a, b):
    if isinstance(a, NumArr):
        a = a.tolist()
    if isinstance(a, (list, tuple)) and isinstance(b, (list, tuple)):
        return len(a) == len(b) and all(_close(x, y) for x, y in zip(a, b))
    if isinstance(a, (int, float)) and isinstance(b, (int, float)) and not isinstance(a, bool):
        return abs(a - b) <= 1e-9 * max(1.0, abs(a), abs(b))
    return False


EIG = {
    "steady": lambda t: [0.3, -1.0],                                   # always 'lsoda'
    "switching": lambda t: [-1.0, -0.5] if t < 1.6 else ([-5.0, -1.0] if t < 2.6 else [0.2, -3.0]),   # dopri5 -> vode -> lsoda
}


def check_rows(repo, res, rule="R-ROWS"):
    n = 0
    f = repo.try_func(M.M_UTILS, "integrateFuncJac")
    grids = [("list", [1.0, 2.0, 3.5], [1.0, 2.0, 3.5]), ("tuple", (1.0, 2.0, 3.5), [1.0, 2.0, 3.5]), ("array", NumArr([0.75, 1.0, 3.0, 3.25]), [0.75, 1.0, 3.0, 3.25]),
             ("scalar", 2.0, [2.0]), ("one-element", [4.0], [4.0])]
    for tform, tval, times in grids:
        for inc in (False, True):
            for full in (False, True):
                for method in (None, "lsoda", "vode", "ivode", "dopri5", "dop853"):
                    for ename in (("steady", "switching") if (method is None and full) else ("steady",)):
                        for int_x0 in ((False, True) if (tform == "list" and method in (None, "vode")) else (False,)):
                            tag = "rows(t=%s,includeOrigin=%s,full_output=%s,method=%s%s%s)" % (
                                tform, inc, full, method, ",eigenvalues %s" % ename if ename != "steady" else "", ",integer x0" if int_x0 else "")
                            try:
                                tv = tval.copy() if isinstance(tval, NumArr) else tval
                                f, kind, out, world, fj = run(repo, tv, inc, full, method, eig=EIG[ename], int_x0=int_x0)
                            except Undecided as e:
                                res.undecided(rule, f, tag, "outside the modelled subset: %s" % e)
                                continue
                            n += 1
                            problems = []
                            if kind != "return":
                                problems.append("integrateFuncJac raises %s" % (out,))
                            else:
                                sol = out[0] if (full and isinstance(out, tuple)) else out
                                want = want_rows(times, inc)
                                if not _close(sol, want):
                                    got = sol.tolist() if isinstance(sol, NumArr) else sol
                                    problems.append("rows %s; the solution of the test problem y' = %s from (%s, t0=0.5) at %s%s is %s" % (
                                        got, C, [10.0, 20.0], times, " preceded by the initial state" if inc else "", want))
                                if full and not (isinstance(out, tuple) and len(out) == 2 and isinstance(out[1], dict)):
                                    problems.append("full_output does not return (solution, info dict)")
                                problems += _setup_problems(world, fj, method, full)
                            res.check(not problems, rule, f, tag, "rows = %sthe solution at each requested time, in order" % ("x0, " if inc else ""),
                                      "; ".join(problems[:3]), node=f.node)
    # a step the integrator reports as failed must not produce a row
    for full in (False, True):
        for fail_at in (1, 2):
            tag = "failed-step(full_output=%s,step %d)" % (full, fail_at)
            try:
                f, kind, out, world, fj = run(repo, [1.0, 2.0, 3.5], False, full, "lsoda", fail_at=fail_at)
            except Undecided as e:
                res.undecided(rule, f, tag, "outside the modelled subset: %s" % e)
                continue
            n += 1
            res.check(kind == "raise", rule, f, tag, "a step the integrator reports as unsuccessful raises instead of returning a state",
                      "the integrator reports failure at step %d but integrateFuncJac returns %s: a state that is not a solution value is handed to the caller" % (
                          fail_at, out.tolist() if isinstance(out, NumArr) else out), node=f.node)
    return n


def _setup_problems(world, fj, method, full):
    problems = []
    func, jac = fj
    if not world.setups:
        return ["no integrator is set up"]
    for k, o in enumerate(world.setups):
        if o.name not in SCIPY_INTEGRATORS:
            problems.append("set_integrator(%r): scipy has no such integrator" % (o.name,))
            continue
        if o.f is not func:
            problems.append("integrator %d is built on %r, not on the caller's func" % (k, o.f))
        if o.name in ("vode", "lsoda") and o.jac is not jac:
            problems.append("integrator %r is built without the caller's jacobian" % o.name)
        for key in ("nsteps", "atol", "rtol"):
            if key not in o.kw:
                problems.append("set_integrator(%r) is not given %s" % (o.name, key))
        if o.kw.get("nsteps", 10000) != 10000:
            problems.append("set_integrator(%r) gets nsteps=%r, the caller's step budget is 10000" % (o.name, o.kw.get("nsteps")))
    first = world.setups[0]
    if method is not None:
        exp = EXPECTED[method]
        for o in world.setups if not full else world.setups[:1]:
            if o.name != exp[0] or any(o.kw.get(k_) != v_ for k_, v_ in exp[1].items()) or (method == "vode" and o.kw.get("method") == "bdf"):
                problems.append("method=%r is set up as %s(%s), expected %s%s" % (method, o.name, ", ".join("%s=%r" % kv for kv in sorted(o.kw.items()) if kv[0] == "method"),
                                                                               exp[0], "(method='bdf')" if exp[1] else ""))
    elif not full and first.name != "lsoda":
        problems.append("the default integrator is %s, documented default is lsoda" % first.name)
    return problems


# --------------------------------------------------------------------------- model-level entry points
class _Roles:
    """evaluators of the abstract model: they check the roles of what they are called with"""

    def __init__(self):
        self.errors = []

    def state_first(self, name):
        def ev(state, t, *a):
            if not isinstance(state, NumArr) or not (isinstance(t, (int, float)) and not isinstance(t, bool)):
                self.errors.append("%s is called with (%s, %s): the state-first evaluator receives its arguments in the wrong order" % (
                    name, type(state).__name__, type(t).__name__))
            return (name, t)
        return ("py", ev)


def run_entry(repo, entry, t, full_output, method=None, session=None):
    """interpret DeterministicOde.integrate / integrate2 / solve_determ down to the library boundary (scipy.integrate.ode / odeint models);
    with a `session` the same abstract model object lives on across calls"""
    cls = M.sim_class(repo)
    fn = repo.resolve_method(cls, entry)
    if fn is None:
        raise AnalysisError("%s vanished" % entry)
    world = OdeWorld(eig=EIG["switching"])
    if session is not None:
        world.vel = session.vel
    roles = _Roles()
    summ = _world_summaries(world)
    holder = {}

    def call(fv, *a):
        return holder["ab"].apply(fv, list(a), {})
    # the library integrators call the functions they are given: f(t, y) / jac(t, y) for scipy.integrate.ode, func(y, t) / Dfun(y, t) for odeint
    orig_integrate = OdeObj.integrate

    class CallingOde(OdeObj):
        def integrate(self, tt, step=False, relax=False):
            call(self.f, self.t, self.y.copy())
            if self.jac is not None:
                call(self.jac, self.t, self.y.copy())
            return orig_integrate(self, tt)
    summ["scipy.integrate.ode"] = lambda f, jac=None: CallingOde(world, f, jac)
    summ["integrate.ode"] = summ["scipy.integrate.ode"]

    def odeint(func, y0, t, args=(), Dfun=None, col_deriv=0, full_output=0, tfirst=False, **k):
        ts = list(t)
        y0l = [float(v) for v in y0]
        first = (ts[0], NumArr(list(y0l))) if tfirst else (NumArr(list(y0l)), ts[0])
        call(func, *first)
        if Dfun is not None:
            call(Dfun, *first)
        if col_deriv:
            roles.errors.append("odeint is told col_deriv=%r but jacobian() returns d f_i / d x_j in row i" % (col_deriv,))
        rows = NumArr([[yi + ci * (tk - ts[0]) for yi, ci in zip(y0l, world.vel())] for tk in ts])
        world.steps.append(("odeint", ts[0], ts[-1]))
        mx = k.get("mxstep", 0)
        world.budgets.append(("odeint", 500 if not mx else mx))        # scipy: mxstep=0 means the solver's default of 500
        return (rows, {"message": "ok"}) if full_output else rows
    summ["scipy.integrate.odeint"] = odeint
    summ["odeint"] = odeint
    summ["integrate.odeint"] = odeint
    summ["check_array_type"] = lambda v: v if isinstance(v, NumArr) else NumArr(list(v))
    types = {"Number": lambda v: isinstance(v, (int, float)) and not isinstance(v, bool), "np.ndarray": lambda v: isinstance(v, NumArr)}
    if session is not None:
        me = session.me
        me.attrs["ode"], me.attrs["jacobian"] = roles.state_first("ode"), roles.state_first("jacobian")
        summ.update(session.summaries)
        types.update(session.types)
    else:
        me = Obj("Model", _x0=NumArr([10.0, 20.0]), _t0=0.5, _stochasticParam=None, _intName=None,
                 ode=roles.state_first("ode"), jacobian=roles.state_first("jacobian"))
    ab = Abs({}, types, summ, me, dict(session.getters) if session is not None else {}, budget=200000, eq=session.eq if session is not None else None)
    ab.class_methods = set(repo.all_methods(cls)) | {g for c in repo.mro(cls) for g in c.getters}
    ab.self_class = (repo, cls)
    ab.module = fn.module
    holder["ab"] = ab
    args = {"t": t}
    if "full_output" in fn.params:
        args["full_output"] = full_output
    if "method" in fn.params:
        args["method"] = method
    kind, out = ab.run_function(fn.node, args)
    return fn, kind, out, roles, world


class Session:
    """one abstract model object across a history of solves and assignments (initial state / time / values, parameters)"""

    def __init__(self, repo):
        from ..checks import C09
        self.repo = repo
        self.cls = M.sim_class(repo)
        me = C09.model(["p"])
        me.attrs.update(dict(_x0=NumArr([10.0, 20.0]), _t0=0.5, _intName=None, _odeSolution=None, _odeTime=None, _odeOutput=None, _paramValue=[1.0],
                             _stateList=[Obj("ODEVariable", ID="a", name="a"), Obj("ODEVariable", ID="b", name="b")], num_state=2))
        self.me = me
        self.summaries = dict(C09.helper_summaries(["p"]))
        self.types = dict(C09.TYPES)
        self.getters = dict(C09.GETTERS)
        self.getters["num_state"] = lambda m: 2
        self.eq = C09.eq_hook
        self.x0, self.t0, self.p = [10.0, 20.0], 0.5, 1.0         # what the user has set so far

    def vel(self):
        pv = self.me.attrs.get("_paramValue")
        p = float(pv[0]) if isinstance(pv, (list, NumArr)) and len(pv) else 1.0
        return [c * p for c in C]

    def assign(self, prop, value):
        setter = self.repo.resolve_setter(self.cls, prop)
        if setter is None:
            raise AnalysisError("setter %s vanished" % prop)
        summ = dict(num_summaries())
        summ.update(self.summaries)
        types = {"Number": lambda v: isinstance(v, (int, float)) and not isinstance(v, bool), "np.ndarray": lambda v: isinstance(v, NumArr)}
        types.update(self.types)
        types["np.ndarray"] = lambda v: isinstance(v, NumArr)
        ab = Abs({}, types, summ, self.me, dict(self.getters), budget=100000, eq=self.eq)
        ab.class_methods = set(self.repo.all_methods(self.cls)) | {g for c in self.repo.mro(self.cls) for g in c.getters}
        ab.self_class = (self.repo, self.cls)
        ab.module = setter.module
        kind, out = ab.run_function(setter.node, {setter.params[1]: value})
        if kind != "return":
            raise Raised("assigning %s raises %s" % (prop, out))
        if prop == "initial_state":
            self.x0 = [float(v) for v in value]
        elif prop == "initial_time":
            self.t0 = float(value[0] if isinstance(value, (list, tuple, NumArr)) else value)
        elif prop == "initial_values":
            self.x0, self.t0 = [float(v) for v in value[0]], float(value[1])
        elif prop == "parameters":
            self.p = float(list(value.values())[0])

    def want(self, times):
        return [[float(v) for v in self.x0]] + [[xi + ci * self.p * (tk - self.t0) for xi, ci in zip(self.x0, C)] for tk in times]


def check_histories(repo, res, rule="R-FRESH", tier="quick"):
    """histories [solve, assignments..., solve] on one model object: every solve returns the solution of the problem as it is *now*
    (current initial state, initial time and parameter values), whatever was solved or stored before"""
    import itertools
    G1, G2 = [1.0, 2.0, 3.5], [0.75, 1.0, 3.0]
    assigns = {
        "initial_state": lambda: ("initial_state", NumArr([4.0, 8.0])),
        "initial_state(list)": lambda: ("initial_state", [4.0, 8.0]),
        "initial_time": lambda: ("initial_time", 0.25),
        "initial_time(one-element list)": lambda: ("initial_time", [0.75]),
        "initial_state(tuple)": lambda: ("initial_state", (5.0, 7.0)),
        "initial_values": lambda: ("initial_values", (NumArr([6.0, 3.0]), 0.125)),
        "parameters": lambda: ("parameters", {"p": 2.0}),
    }
    entries = ["solve_determ", "integrate", "integrate2"]
    cls = M.sim_class(repo)
    fn0 = repo.resolve_method(cls, "solve_determ") or repo.resolve_method(cls, "integrate")
    bad, n = [], 0
    mids = [()] + [(a,) for a in assigns] + [(a, b) for a in assigns for b in assigns if a.split("(")[0] != b.split("(")[0]]
    if tier == "thorough":
        mids += [(a, b, c_) for a in assigns for b in assigns for c_ in assigns if len({a.split("(")[0], b.split("(")[0], c_.split("(")[0]}) == 3]
    for first, mid, last, same_grid in itertools.product(entries, mids, entries, (True, False)):
        if repo.resolve_method(cls, first) is None or repo.resolve_method(cls, last) is None:
            continue
        if not mid and same_grid and first == last and first != "solve_determ":
            continue
        ses = Session(repo)
        label = "%s(G1) -> %s -> %s(%s)" % (first, ", ".join("set " + m for m in mid) or "(nothing)", last, "G1" if same_grid else "G2")
        try:
            _, kind, out, _, _ = run_entry(repo, first, list(G1), False, None, session=ses)
            if kind != "return":
                bad.append("%s: the first solve raises %s" % (label, out))
                n += 1
                continue
            for m in mid:
                prop, value = assigns[m]()
                ses.assign(prop, value)
            g = G1 if same_grid else G2
            _, kind, out, _, _ = run_entry(repo, last, list(g), False, None, session=ses)
        except Undecided as e:
            res.undecided(rule, fn0, "histories", "outside the modelled subset (%s): %s" % (label, e))
            return n
        except Raised as r:
            bad.append("%s: %s" % (label, r.exc))
            n += 1
            continue
        n += 1
        want = ses.want(g)
        if kind != "return":
            bad.append("%s: the last solve raises %s" % (label, out))
        elif not _close(out, want):
            got = out.tolist() if isinstance(out, NumArr) else out
            bad.append("%s: the last solve returns %s; the problem as it stands (x0=%s, t0=%s, parameter=%s) has the solution %s" % (label, got, ses.x0, ses.t0, ses.p, want))
    res.check(not bad, rule, fn0, "histories", "%d histories [solve, up to two (thorough tier: three) assignments of initial state / time / values / parameters, solve again on the same or another grid] over "
              "solve_determ / integrate / integrate2: every solve returns the solution of the current problem" % n, "; ".join(bad[:2]), node=fn0.node if fn0 else None)
    return n


def check_entrypoints(repo, res, rule="R-GRID"):
    """integrate(t) / integrate2(t, method): one row per requested time preceded by the initial state, every row the solution of the
    test problem at its own time; the functions handed to the library integrators have the argument order the library uses"""
    n = 0
    budgets = {}
    grids = [("list", [1.0, 2.0, 3.5], [1.0, 2.0, 3.5]), ("tuple", (1.0, 2.0, 3.5), [1.0, 2.0, 3.5]), ("array", NumArr([0.75, 1.0, 3.0]), [0.75, 1.0, 3.0]), ("scalar", 2.0, [2.0]),
             ("starting-at-t0", [0.5, 1.0, 2.0], [0.5, 1.0, 2.0])]
    for entry, methods in (("integrate", (None,)), ("integrate2", (None, "vode", "dopri5"))):
        for tform, tval, times in grids:
            for full in (False, True):
                for method in methods:
                    tag = "%s(t=%s,full_output=%s%s)" % (entry, tform, full, ",method=%s" % method if entry == "integrate2" else "")
                    fn = repo.resolve_method(M.sim_class(repo), entry)
                    try:
                        tv = tval.copy() if isinstance(tval, NumArr) else tval
                        fn, kind, out, roles, world = run_entry(repo, entry, tv, full, method)
                    except Undecided as e:
                        res.undecided(rule, fn, tag, "outside the modelled subset: %s" % e)
                        continue
                    n += 1
                    problems = []
                    if kind != "return":
                        problems.append("%s raises %s" % (entry, out))
                    else:
                        sol = out[0] if (full and isinstance(out, tuple)) else out
                        want = want_rows(times, True)
                        if full and not (isinstance(out, tuple) and len(out) == 2):
                            problems.append("full_output does not return (solution, information)")
                        elif not _close(sol, want):
                            got = sol.tolist() if isinstance(sol, NumArr) else sol
                            problems.append("returns %s; the initial state followed by the solution of the test problem y' = %s at %s is %s" % (got, C, times, want))
                        problems += roles.errors[:2]
                    res.check(not problems, rule, fn, tag, "rows = initial state, then the solution at each requested time; evaluators called with the library's argument order",
                              "; ".join(problems[:3]), node=fn.node)
                    if kind == "return":
                        for lib, b_ in world.budgets:
                            budgets.setdefault(entry, set()).add((lib, b_))
    # sibling agreement: every entry point lets its library integrator take the same number of internal steps between two requested times,
    # so a (sparse) grid that one entry point solves is solved by the others; the libraries do not raise when the budget runs out
    vals = {b_ for bs in budgets.values() for _lib, b_ in bs}
    fn = repo.resolve_method(M.sim_class(repo), "integrate")
    res.check(len(vals) <= 1 and bool(vals), "R-BUDGET", fn, "same-step-budget", "all solving entry points allow the same number of internal solver steps per output interval (%s)" % sorted(vals),
              "the entry points allow different numbers of internal solver steps between two requested times: %s - on a grid with a long gap the one with the smaller budget stops "
              "mid-gap and returns rows that are not the solution (odeint only warns)" % {e: sorted(bs) for e, bs in budgets.items()}, node=fn.node if fn else None)
    return n
