"""R-STEP / R-FR / R-LIMIT / R-SLOT: typestate and data-flow rules over the stochastic
steppers (stochastic_simulation.firstReaction, tauLeap, _checkJump,
_updateStateWithJump, _newJumpTimes) and SimulateOde._jump."""
import ast

from ..core.source import AnalysisError, norm, dotted, is_self_attr, walk_no_nested, const_value, kwarg
from ..core.cfg import cfg_of
from ..core.dataflow import dataflow_of
from ..core import algebra as A
from . import model as M
from . import common as C

STEPPERS = ("firstReaction", "tauLeap")
# frozen, named exceptions for return-arity mismatches: (function, normalised statement) -> reason
ARITY_EXCEPTIONS = {
    ("firstReaction", "return (x, t, False)"):
        "guarded by np.all(jump_times == inf) after `all(rates == 0)` was excluded: needs a negative rate, outside the property's domain",
    ("tauLeap", "return (x, t, False)"):
        "guarded by `safe is False`; _cy_test_tau_leap_safety can only bail out via the count>256 loop which cannot trigger: the loss "
        "matrix built from a 0/1 reactant matrix is identically zero, so the first pass is safe",
    ("_cy_test_tau_leap_safety", "return False"):
        "count > 256 bail-out of the safety loop; unreachable for the same reason (max_cdf is 0 on the first pass)",
}


class Ctx:
    def __init__(self, repo):
        self.repo = repo
        self.mod = repo.module(M.M_STOCH)
        self.fr = repo.func(M.M_STOCH, "firstReaction")
        self.tl = repo.func(M.M_STOCH, "tauLeap")
        self.cj = repo.func(M.M_STOCH, "_checkJump")
        self.up = repo.func(M.M_STOCH, "_updateStateWithJump")
        self.nj = repo.func(M.M_STOCH, "_newJumpTimes")
        self.jump = repo.func(M.M_SIM, "SimulateOde._jump")
        self.cls = M.sim_class(repo)


def sources(df, node, name, depth=5, seen=None):
    """where the value of local `name` at `node` can come from:
    [(kind, detail, slot, Def)] with kind in call|param|for|other|aug ; aliases are followed"""
    out = []
    seen = seen or set()
    for d in df.strong_defs(node, name):
        if d.idx in seen:
            continue
        seen = seen | {d.idx}
        if d.kind == "param":
            out.append(("param", d.name, (), d))
        elif d.kind == "for":
            out.append(("for", norm(d.value), d.slot, d))
        elif d.kind == "aug":
            out.append(("aug", norm(d.value), (), d))
        elif d.kind == "assign" and d.value is not None:
            v = d.value
            if isinstance(v, ast.Name) and not d.slot and depth > 0:
                out += sources(df, d.node, v.id, depth - 1, seen)
            elif isinstance(v, ast.Call):
                out.append(("call", dotted(v.func) or norm(v.func), d.slot, d))
            else:
                out.append(("other", norm(v), d.slot, d))
        else:
            out.append(("other", d.kind, d.slot, d))
    return out


def return_slots(func):
    """role names of the returned tuple of a function with a single tuple return of Names"""
    out = []
    for r in C.returns_of(func):
        v = r.ast.value
        if isinstance(v, ast.Tuple) and all(isinstance(e, ast.Name) for e in v.elts):
            out.append([e.id for e in v.elts])
    return out


# ------------------------------------------------------------------ _checkJump
def check_checkjump(ctx, res, rule="R-LIMIT", boundary=False):
    f = ctx.cj
    cfg, df = cfg_of(f), dataflow_of(f)
    p = f.params      # x, x_new, x_lims, t, jump_time, jumps
    if len(p) < 6:
        raise AnalysisError("_checkJump signature changed: %s" % p)
    x, x_new, x_lims, t, jump_time, jumps = p[:6]
    rs = return_slots(f)
    if len(rs) != 1 or len(rs[0]) != 5:
        res.undecided(rule, f, "return-shape", "_checkJump does not end in a single 5-tuple of names")
        return None
    t_new_n, jt_n, xn_n, jumps_n, succ_n = rs[0]
    ret = C.returns_of(f)[0]
    # success flag: True only on the path where no limit was violated
    loops = [n for n in cfg.nodes if n.kind == "iter"]
    lim_loop = None
    for ln in loops:
        if x_lims in {n_.id for n_ in ast.walk(ln.ast.iter) if isinstance(n_, ast.Name)}:
            lim_loop = ln
    if lim_loop is None:
        res.violated(rule, f, "loops-over-all-limits", "_checkJump does not loop over the per-state limits", node=f.node)
        return None
    idx, el, it = None, None, lim_loop.ast.iter
    tgt = lim_loop.ast.target
    if isinstance(it, ast.Call) and dotted(it.func) == "enumerate" and norm(it.args[0]) == x_lims and isinstance(tgt, ast.Tuple) \
            and len(tgt.elts) == 2 and isinstance(tgt.elts[0], ast.Name):
        idx, el = tgt.elts[0].id, tgt.elts[1]       # el: a name or a (lower, upper) pattern
        res.holds(rule, f, "loops-over-all-limits", "one check per state: for %s in enumerate(%s)" % (norm(tgt), x_lims), node=lim_loop.ast)
    else:
        res.violated(rule, f, "loops-over-all-limits", "limit loop `%s` does not enumerate every state's limit" % norm(lim_loop.ast), node=lim_loop.ast)
        return None
    has_break = any(isinstance(n_, (ast.Break, ast.Continue)) for st in lim_loop.ast.body for n_ in ast.walk(st))
    # comparisons present for each bound shape
    fail_var = None
    fails = [n for n in cfg.stmt_nodes() if n.kind == "stmt" and isinstance(n.ast, ast.Assign) and const_value(n.ast.value) is True
             and cfg.reaches(cfg.edge_node(lim_loop, "body"), n, avoid=[lim_loop])]
    names = {n.ast.targets[0].id for n in fails if isinstance(n.ast.targets[0], ast.Name)}
    if len(names) != 1:
        res.violated(rule, f, "failure-flag", "no single failure flag is raised inside the limit loop", node=lim_loop.ast)
        return None
    fail_var = names.pop()
    # abstract evaluation of the loop body over the 4 bound shapes x {below, inside, above}
    body = lim_loop.ast.body
    bad_cases = []
    n_cases = 0
    shapes = [(lo, hi) for lo in (None, 0) for hi in (None, 10)] + [(-5, 0), (None, 0), (-5, None)]   # zero and negative bounds are bounds too
    for lo, hi in shapes:
        if True:
            lo_v = -10 ** 6 if lo is None else lo
            hi_v = 10 ** 6 if hi is None else hi
            mid = 5 if (lo, hi) in ((None, None), (0, None), (None, 10), (0, 10)) else (-2 if hi == 0 else 3)
            vals = [(mid, "inside")]
            if lo is not None:
                vals.append((lo - 1, "below"))
            else:
                vals.append((-1 if hi != 0 else -7, "inside"))
            if hi is not None:
                vals.append((hi + 1, "above"))
            else:
                vals.append((11, "inside"))
            if boundary:
                if lo is not None:
                    vals.append((lo, "exactly at the lower end of"))
                if hi is not None:
                    vals.append((hi, "exactly at the upper end of"))
            for val, where in vals:
                n_cases += 1
                expect_fail = (lo is not None and val < lo) or (hi is not None and val > hi)
                got = _run_limit_body(body, el, idx, x_new, lo, hi, val, fail_var)
                if got is None:
                    res.undecided(rule, f, "limit-cases", "limit test body is not in a form the abstract evaluation understands")
                    return None
                if got == "raise":
                    bad_cases.append("limits (%s, %s), proposed value %s the limits: the test raises TypeError (comparison with None)" % (lo, hi, where))
                elif got != expect_fail:
                    bad_cases.append("limits (%s, %s), proposed value %s the limits: %s" % (lo, hi, where, "rejected" if got else "accepted"))
    res.check(not bad_cases and not has_break, rule, f, "limit-cases",
              "all %d (lower, upper, value) cases decided correctly: a proposed value is rejected iff it is below a present lower or above a present upper bound" % n_cases,
              "limit test is wrong for: %s%s" % ("; ".join(bad_cases[:4]), " (loop exits early)" if has_break else ""), node=lim_loop.ast)
    # after the loop: failure -> old x, old t, success False ; else success True, t + jump_time, x_new untouched
    tests = [n for n in cfg.nodes if n.kind == "test" and isinstance(n.ast, ast.If) and norm(n.ast.test) in (fail_var, "%s == True" % fail_var, "%s is True" % fail_var)
             and not cfg.reaches(cfg.edge_node(lim_loop, "body"), n, avoid=[lim_loop])]
    neg = [n for n in cfg.nodes if n.kind == "test" and isinstance(n.ast, ast.If) and norm(n.ast.test) in ("not %s" % fail_var,)]
    if len(tests) + len(neg) != 1:
        res.undecided(rule, f, "outcome", "cannot find the single `if %s` that selects the outcome" % fail_var)
        return None
    tn = (tests or neg)[0]
    fail_edge = cfg.edge_node(tn, True if tests else False)
    ok_edge = cfg.edge_node(tn, False if tests else True)

    def val_on(edge, name):
        """value of `name` at return when coming through `edge` (defs dominated by edge, else value before the test)"""
        ds = [d for d in df.strong_defs(ret, name) if cfg.dominates(edge, d.node)]
        if ds:
            return [norm(d.value) if d.value is not None else d.kind for d in ds]
        return [("param:" + d.name) if d.kind == "param" else ("pre:" + norm(d.value)) for d in df.strong_defs(tn, name)]
    fx, ft, fs = val_on(fail_edge, xn_n), val_on(fail_edge, t_new_n), val_on(fail_edge, succ_n)
    ox, ot, os_ = val_on(ok_edge, xn_n), val_on(ok_edge, t_new_n), val_on(ok_edge, succ_n)
    res.check(fx == [x] and ft == [t] and fs == ["False"], rule, f, "failure-leaves-state",
              "a rejected step returns the old state, the old time and success=False",
              "on a rejected step _checkJump returns state=%s time=%s success=%s (expected the old state `%s`, old time `%s`, False)" % (fx, ft, fs, x, t),
              node=tn.ast)
    t_ok = False
    if len(ot) == 1:
        try:
            got = A.Interp({t: A.sym("t"), jump_time: A.sym("dt")}).ev(ast.parse(ot[0], mode="eval").body)
            t_ok = A.lift(got) == A.sym("t") + A.sym("dt")
        except Exception:
            t_ok = False
    res.check(ox == ["param:" + x_new] and t_ok and os_ == ["True"], rule, f, "success-advances",
              "an accepted step returns the proposed state, t + jump_time and success=True",
              "on an accepted step _checkJump returns state=%s time=%s success=%s (expected `%s`, `%s + %s`, True)" % (ox, ot, os_, x_new, t, jump_time),
              node=tn.ast)
    # pass-through slots
    jd = [d.kind for d in df.strong_defs(ret, jumps_n)]
    jt = [d.kind for d in df.strong_defs(ret, jt_n)]
    res.check(jumps_n == jumps and jd == ["param"] and jt_n == jump_time and jt == ["param"], rule, f, "pass-through",
              "jump_time and jumps are returned as received", "jump_time/jumps are altered before being returned", node=ret.ast)
    return rs[0]


def _run_limit_body(body, el, idx, x_new, lo, hi, val, fail_var):
    """tiny concrete interpreter for the limit-test loop body; returns whether the failure flag was raised"""
    env = {"__xnew": val, fail_var: False}
    if isinstance(el, ast.Name):
        env[el.id] = (lo, hi)
    elif isinstance(el, (ast.Tuple, ast.List)) and len(el.elts) == 2 and all(isinstance(x, ast.Name) for x in el.elts):
        env[el.elts[0].id], env[el.elts[1].id] = lo, hi
    else:
        return None

    def ev(e):
        if isinstance(e, ast.Constant):
            return e.value
        if isinstance(e, ast.Name):
            if e.id in env:
                return env[e.id]
            raise KeyError(e.id)
        if isinstance(e, ast.Tuple) or isinstance(e, ast.List):
            t = tuple(ev(x) for x in e.elts)
            return list(t) if isinstance(e, ast.List) else t
        if isinstance(e, ast.Subscript):
            if isinstance(e.value, ast.Name) and e.value.id == x_new and isinstance(e.slice, ast.Name) and e.slice.id == idx:
                return env["__xnew"]
            base = ev(e.value)
            return base[ev(e.slice)]
        if isinstance(e, ast.UnaryOp) and isinstance(e.op, ast.Not):
            return not ev(e.operand)
        if isinstance(e, ast.UnaryOp) and isinstance(e.op, ast.USub):
            return -ev(e.operand)
        if isinstance(e, ast.BoolOp):
            if isinstance(e.op, ast.And):
                for v in e.values:
                    r = ev(v)
                    if not r:
                        return r
                return r
            for v in e.values:
                r = ev(v)
                if r:
                    return r
            return r
        if isinstance(e, ast.Compare):
            left = ev(e.left)
            for op, c in zip(e.ops, e.comparators):
                right = ev(c)
                if isinstance(op, ast.Is):
                    ok = left is right
                elif isinstance(op, ast.IsNot):
                    ok = left is not right
                elif isinstance(op, ast.Eq):
                    ok = left == right or (isinstance(left, (list, tuple)) and isinstance(right, (list, tuple)) and list(left) == list(right))
                elif isinstance(op, ast.NotEq):
                    ok = not (left == right or (isinstance(left, (list, tuple)) and isinstance(right, (list, tuple)) and list(left) == list(right)))
                elif isinstance(op, ast.Lt):
                    ok = left < right
                elif isinstance(op, ast.LtE):
                    ok = left <= right
                elif isinstance(op, ast.Gt):
                    ok = left > right
                elif isinstance(op, ast.GtE):
                    ok = left >= right
                else:
                    raise KeyError("op")
                if not ok:
                    return False
                left = right
            return True
        raise KeyError(type(e).__name__)

    def run(stmts):
        for st in stmts:
            if isinstance(st, ast.Assign) and len(st.targets) == 1:
                t = st.targets[0]
                if isinstance(t, ast.Name):
                    env[t.id] = ev(st.value)
                elif isinstance(t, ast.Tuple) and all(isinstance(x, ast.Name) for x in t.elts):
                    v = ev(st.value)
                    for x, vv in zip(t.elts, v):
                        env[x.id] = vv
                else:
                    raise KeyError("store")
            elif isinstance(st, ast.If):
                run(st.body if ev(st.test) else st.orelse)
            elif isinstance(st, (ast.Pass, ast.Expr)):
                continue
            else:
                raise KeyError(type(st).__name__)
    try:
        run(body)
    except TypeError:
        return "raise"       # python 3 raises on ordering comparisons with None: the step crashes instead of being judged
    except (KeyError, IndexError):
        return None
    return bool(env[fail_var])


# ------------------------------------------------------- _updateStateWithJump
def check_update(ctx, res, rule="R-STEP"):
    f = ctx.up
    p = f.params   # x, transition_index, state_change_mat, n
    rets = C.returns_of(f)
    ok, why = False, "no return"
    if len(rets) == 1 and len(p) >= 4:
        df = dataflow_of(f)
        v = df.expand(rets[0].ast.value, rets[0])
        col = None
        for s in ast.walk(v):
            if isinstance(s, ast.Subscript) and isinstance(s.value, ast.Name) and s.value.id == p[2]:
                col = s
        col_ok = col is not None and isinstance(col.slice, ast.Tuple) and len(col.slice.elts) == 2 \
            and isinstance(col.slice.elts[0], ast.Slice) and col.slice.elts[0].lower is None and col.slice.elts[0].upper is None \
            and norm(col.slice.elts[1]) == p[1]
        if col_ok:
            def hook(dn, call, it):
                return None

            class I(A.Interp):
                def ev(self, e):
                    if isinstance(e, ast.Subscript) and e is col:
                        return A.sym("COL")
                    return super().ev(e)
            try:
                got = A.lift(I({p[0]: A.sym("x"), p[3]: A.sym("n")}).ev(v))
                ok = got == A.sym("x") + A.sym("COL") * A.sym("n")
                why = "new state = x + V[:, k] * n" if ok else "update computes %r, expected x + V[:, k]*n" % got
            except A.Undecided as e:
                why = "cannot normalise `%s` (%s)" % (norm(v), e)
        else:
            why = "the update `%s` does not use column `%s[:, %s]` (events are columns of the state-change matrix)" % (norm(v), p[2], p[1])
    res.check(ok, rule, f, "column-update", why, why, node=rets[0].ast if rets else f.node)
    dflt = f.node.args.defaults
    res.check(bool(dflt) and const_value(dflt[-1]) in (1, 1.0), rule, f, "default-count", "default count is 1",
              "default number of firings is %s, expected 1 (exact mode relies on it)" % (norm(dflt[-1]) if dflt else None))


# ------------------------------------------------------------- _newJumpTimes
def check_newjumptimes(ctx, res, rule="R-FR"):
    f = ctx.nj
    rp = f.params[0]
    df = dataflow_of(f)
    rets = C.returns_of(f)
    v = df.expand(rets[0].ast.value, rets[0]) if rets else None
    comp = None
    for s in ast.walk(v) if v is not None else []:
        if isinstance(s, (ast.ListComp, ast.GeneratorExp)):
            comp = s
    ok, why = False, "jump times are not built by one expression per rate"
    if comp is not None and len(comp.generators) == 1 and norm(comp.generators[0].iter) == rp and isinstance(comp.generators[0].target, ast.Name) \
            and not comp.generators[0].ifs:
        r = comp.generators[0].target.id
        e = comp.elt
        if isinstance(e, ast.IfExp):
            test = norm(e.test)
            body, orelse = e.body, e.orelse
            if test in ("%s > 0" % r, "0 < %s" % r, "%s > 0.0" % r):
                pass
            elif test in ("%s <= 0" % r, "not %s > 0" % r, "%s == 0" % r):
                body, orelse = orelse, body
            else:
                body = None
            if body is not None and isinstance(body, ast.Call) and dotted(body.func) == "rexp":
                rexp = ctx.repo.func(M.M_DISTN, "rexp")
                b = C.bind_args(body, rexp.params)
                n_ok = const_value(b.get("n")) == 1
                r_ok = isinstance(b.get("rate"), ast.Name) and b["rate"].id == r
                s_ok = b.get("seed") is None or norm(b.get("seed")) == "seed"
                inf_ok = norm(orelse) in ("np.inf", "numpy.inf", "float('inf')", "math.inf", "np.Inf")
                ok = n_ok and r_ok and s_ok and inf_ok
                why = "each event's clock is rexp(1, its own rate) when the rate is positive, infinity otherwise" if ok else \
                    "clock per event is `%s`: n=1 %s, rate slot holds the event's own rate %s, seed forwarded %s, zero-rate -> inf %s" % (
                        norm(e), n_ok, r_ok, s_ok, inf_ok)
            else:
                why = "clock per event is `%s`, expected `rexp(1, r) if r > 0 else inf`" % norm(e)
        else:
            why = "clock per event `%s` has no guard for zero rates" % norm(e)
    res.check(ok, rule, f, "clock-per-event", why, why, node=rets[0].ast if rets else f.node)
    res.check(v is not None and isinstance(v, ast.Call) and dotted(v.func) in ("np.array", "np.asarray"), rule, f, "array",
              "clocks returned as an array in event order", "clocks are not returned as np.array(list in event order)")


# ----------------------------------------------------------------- steppers
def _call_binding(call, callee):
    return C.bind_args(call, callee.params)


def check_first_reaction(ctx, res, rule_step="R-STEP", rule_fr="R-FR"):
    f = ctx.fr
    cfg, df = cfg_of(f), dataflow_of(f)
    p = f.params    # x, x_lims, t, state_change_mat, transition_func, seed
    x, x_lims, t, scm, tf = p[:5]
    # the evaluations at the current (x, t)
    for name, fn in (("changes", scm), ("rates", tf)):
        cs = [(n, c) for n, c, callee in C.calls(f) if callee == fn]
        ok = len(cs) == 1 and [norm(a) for a in cs[0][1].args] == [x, t]
        res.check(ok, rule_step, f, "evaluate(%s)" % fn, "%s(x, t) evaluated at the current state and time" % fn,
                  "%s is not evaluated exactly once at (x, t): %s" % (fn, [norm(c) for _, c in cs]), node=cs[0][1] if cs else f.node)
    # the successful return
    cj_calls = [(n, c) for n, c, callee in C.calls(f) if callee == "_checkJump"]
    rets = C.returns_of(f)
    good_rets = [r for r in rets if isinstance(r.ast.value, ast.Call) and dotted(r.ast.value.func) == "_checkJump"]
    for r in rets:
        v = r.ast.value
        if r in good_rets:
            continue
        last = C.tuple_elts(v)[-1] if v is not None else None
        res.check(const_value(last, 1) is False, rule_step, f, "no-unchecked-success@%s" % norm(r.ast)[:40],
                  "a return that bypasses _checkJump reports success=False",
                  "`%s` can report success without passing through _checkJump (limits unchecked)" % norm(r.ast), node=r.ast)
    if len(good_rets) != 1:
        res.violated(rule_step, f, "checked-return", "firstReaction does not end in exactly one `return _checkJump(...)`")
        return
    r = good_rets[0]
    b = _call_binding(r.ast.value, ctx.cj)
    cp = ctx.cj.params
    # roles
    new_x = b.get(cp[1])
    jt = b.get(cp[4])
    jumps = b.get(cp[5])
    ok_pass = norm(b.get(cp[0])) == x and norm(b.get(cp[2])) == x_lims and norm(b.get(cp[3])) == t
    res.check(ok_pass, rule_step, f, "checkjump-args", "_checkJump receives the old state, the limits and the old time in their slots",
              "_checkJump receives x=%s x_lims=%s t=%s" % (norm(b.get(cp[0])), norm(b.get(cp[2])), norm(b.get(cp[3]))), node=r.ast)
    # new_x = _updateStateWithJump(x, idx, changes)
    nx = df.expand(new_x, r) if new_x is not None else None
    ok, why, idx_expr = False, "proposed state `%s` is not produced by _updateStateWithJump" % norm(new_x), None
    if isinstance(nx, ast.Call) and dotted(nx.func) == "_updateStateWithJump":
        ub = _call_binding(nx, ctx.up)
        up = ctx.up.params
        st_ok = norm(ub.get(up[0])) == x
        ch = ub.get(up[2])
        ch_ok = isinstance(ch, ast.Call) and dotted(ch.func) == scm
        n_arg = ub.get(up[3])
        n_ok = n_arg is None or const_value(n_arg) in (1, 1.0)
        idx_expr = ub.get(up[1])
        ok = st_ok and ch_ok and n_ok
        why = "proposed state = x + V[:, k]*1 with V = state_change_mat(x, t)" if ok else \
            "proposed state is _updateStateWithJump(%s): from current state %s, with the state-change matrix %s, count 1 %s" % (
                ", ".join("%s=%s" % (k, norm(v)) for k, v in ub.items()), st_ok, ch_ok, n_ok)
    res.check(ok, rule_step, f, "proposed-state", why, why, node=r.ast)
    # the index: argmin of the clocks; the same index selects time increment and the one-hot count
    idx_n = norm(idx_expr) if idx_expr is not None else None
    ok_idx, why_idx = False, "cannot identify the event index"
    if idx_expr is not None:
        # names are compared before expansion (same variable) and after (same definition)
        src = df.expand(ast.Name(id=new_x.id, ctx=ast.Load()), r, keep=()) if isinstance(new_x, ast.Name) else nx
        raw_idx = None
        if isinstance(new_x, ast.Name):
            d = df.single_def(r, new_x.id)
            if d is not None and isinstance(d.value, ast.Call):
                raw_idx = C.bind_args(d.value, ctx.up.params).get(ctx.up.params[1])
        raw_idx = raw_idx if raw_idx is not None else idx_expr
        if isinstance(raw_idx, ast.Name):
            d = df.single_def(r, raw_idx.id)
            ok_idx = d is not None and d.kind == "assign" and isinstance(d.value, ast.Call) \
                and dotted(d.value.func) in ("np.argmin", "numpy.argmin") and len(d.value.args) == 1
            clocks = d.value.args[0] if ok_idx else None
            why_idx = "event = argmin of the clocks" if ok_idx else "event index `%s` is %s, expected np.argmin(clocks)" % (raw_idx.id, norm(d.value) if d is not None else "?")
            res.check(ok_idx, rule_fr, f, "earliest-wins", why_idx, why_idx + ": the event that fires is not the one with the earliest clock", node=d.stmt if d is not None else r.ast)
            if ok_idx:
                # clocks come from _newJumpTimes(rates)
                cs = sources(df, r, clocks.id) if isinstance(clocks, ast.Name) else []
                c_ok = len(cs) == 1 and cs[0][0] == "call" and cs[0][1] == "_newJumpTimes" and cs[0][2] == ()
                if c_ok:
                    cb = C.bind_args(cs[0][3].value, ctx.nj.params)
                    rsrc = sources(df, cs[0][3].node, cb[ctx.nj.params[0]].id) if isinstance(cb.get(ctx.nj.params[0]), ast.Name) else []
                    c_ok = len(rsrc) == 1 and rsrc[0][0] == "call" and rsrc[0][1] == tf
                res.check(c_ok, rule_fr, f, "clocks-from-rates", "clocks = _newJumpTimes(transition_func(x, t))",
                          "the clocks are not drawn from the current rates", node=r.ast)
                # time increment = clocks[idx] (same names), nothing rescales it
                jt_ok = isinstance(jt, ast.Subscript) and norm(jt.value) == norm(clocks) and norm(jt.slice) == raw_idx.id
                res.check(jt_ok, rule_fr, f, "increment-is-winning-clock", "time advances by the winning clock",
                          "time increment passed to _checkJump is `%s`, expected `%s[%s]`" % (norm(jt), norm(clocks), raw_idx.id), node=r.ast)
                # one-hot counts
                _check_one_hot(res, f, cfg, df, r, jumps, raw_idx.id, rule_step)
        else:
            res.violated(rule_fr, f, "earliest-wins", "event index is `%s`, not a variable assigned from np.argmin" % norm(raw_idx), node=r.ast)


def _check_one_hot(res, f, cfg, df, r, jumps, idx_name, rule):
    ok, why = False, "reported counts are not a one-hot list"
    if isinstance(jumps, ast.Name):
        ds = df.reaching(r, jumps.id)
        init = [d for d in ds if d.kind == "assign"]
        muts = [d for d in ds if d.kind == "mutate"]
        init_ok = len(init) == 1 and isinstance(init[0].value, ast.BinOp) and isinstance(init[0].value.op, ast.Mult) \
            and norm(init[0].value.left) in ("[0]", "[0.0]") and norm(init[0].value.right).startswith("len(")
        mut_ok = len(muts) == 1 and isinstance(muts[0].stmt, ast.Assign) and isinstance(muts[0].stmt.targets[0], ast.Subscript) \
            and norm(muts[0].stmt.targets[0].slice) == idx_name and const_value(muts[0].stmt.value) == 1
        ok = init_ok and mut_ok
        why = "counts = zeros with a single 1 at the fired event's index" if ok else \
            "counts: zero-initialised per event %s; single store of 1 at `%s` %s (%s)" % (init_ok, idx_name, mut_ok, [norm(m.stmt) for m in muts])
    res.check(ok, rule, f, "one-hot-counts", why, why + ": the reported counts do not describe the state change that was applied", node=r.ast)


def check_tau_leap(ctx, res, rule="R-STEP"):
    f = ctx.tl
    cfg, df = cfg_of(f), dataflow_of(f)
    p = f.params
    x, x_lims, t, scm, rm, tf = p[:6]
    pure = p[8] if len(p) > 8 else None
    for fn in (scm, tf, pure):
        if fn is None:
            continue
        cs = [(n, c) for n, c, callee in C.calls(f) if callee == fn]
        ok = len(cs) == 1 and [norm(a) for a in cs[0][1].args] == [x, t]
        res.check(ok, rule, f, "evaluate(%s)" % fn, "%s(x, t) evaluated at the current state and time" % fn,
                  "%s is not evaluated exactly once at (x, t)" % fn, node=cs[0][1] if cs else f.node)
    rets = C.returns_of(f)
    good = [r for r in rets if isinstance(r.ast.value, ast.Call) and dotted(r.ast.value.func) == "_checkJump"]
    for r in rets:
        if r in good:
            continue
        last = C.tuple_elts(r.ast.value)[-1]
        res.check(const_value(last, 1) is False, rule, f, "no-unchecked-success@%s" % norm(r.ast)[:40],
                  "a return that bypasses _checkJump reports success=False",
                  "`%s` can report success without passing through _checkJump" % norm(r.ast), node=r.ast)
    if len(good) != 1:
        res.violated(rule, f, "checked-return", "tauLeap does not end in exactly one `return _checkJump(...)`")
        return
    r = good[0]
    b = _call_binding(r.ast.value, ctx.cj)
    cp = ctx.cj.params
    ok_pass = norm(b.get(cp[0])) == x and norm(b.get(cp[2])) == x_lims and norm(b.get(cp[3])) == t
    res.check(ok_pass, rule, f, "checkjump-args", "_checkJump receives the old state, the limits and the old time",
              "_checkJump receives x=%s x_lims=%s t=%s" % (norm(b.get(cp[0])), norm(b.get(cp[2])), norm(b.get(cp[3]))), node=r.ast)
    new_x, tau, jumps = b.get(cp[1]), b.get(cp[4]), b.get(cp[5])
    # the stochastic loop
    loops = [n for n in cfg.nodes if n.kind == "iter" and isinstance(n.ast.iter, ast.Call) and dotted(n.ast.iter.func) == "enumerate"]
    loop = None
    for ln in loops:
        src = ln.ast.iter.args[0]
        if isinstance(src, ast.Name):
            s = sources(df, ln, src.id)
            if len(s) == 1 and s[0][0] == "call" and s[0][1] == tf:
                loop = ln
    if loop is None:
        res.violated(rule, f, "per-event-loop", "tauLeap has no `for i, r in enumerate(rates)` loop over the current rates")
        return
    i_n, r_n = loop.ast.target.elts[0].id, loop.ast.target.elts[1].id
    body_edge = cfg.edge_node(loop, "body")
    in_loop = lambda n: cfg.reaches(body_edge, n, avoid=[loop])
    draws = [(n, c) for n, c, callee in C.calls(f) if callee == "rpois" and in_loop(n)]
    ups = [(n, c) for n, c, callee in C.calls(f) if callee == "_updateStateWithJump" and in_loop(n)]
    stores = [d for d in df.defs if d.kind == "mutate" and isinstance(jumps, ast.Name) and d.name == jumps.id and in_loop(d.node)]
    ok = len(draws) == 1 and len(ups) == 1 and len(stores) == 1
    why = "loop body: one Poisson draw, one count store, one state update"
    if ok:
        dn, dc = draws[0]
        rp = ctx.repo.func(M.M_DISTN, "rpois")
        db = C.bind_args(dc, rp.params)
        mean_ok = False
        try:
            m = A.lift(A.Interp({r_n: A.sym("r"), norm(tau): A.sym("tau")} if isinstance(tau, ast.Name) else {r_n: A.sym("r")}).ev(db.get(rp.params[1])))
            mean_ok = m == A.sym("r") * A.sym("tau")
        except Exception:
            mean_ok = False
        n1_ok = const_value(db.get(rp.params[0])) == 1
        # the drawn count: name assigned from the draw
        cnt = [d for d in df.defs if d.kind == "assign" and d.value is dc]
        cname = cnt[0].name if cnt else None
        un, uc = ups[0]
        ub = C.bind_args(uc, ctx.up.params)
        up = ctx.up.params
        st = stores[0].stmt
        store_ok = isinstance(st, ast.Assign) and norm(st.targets[0].slice) == i_n and norm(st.value) == cname
        upd_ok = norm(ub.get(up[1])) == i_n and norm(ub.get(up[3])) == cname and isinstance(ub.get(up[2]), ast.Name)
        ch_src = sources(df, un, ub[up[2]].id) if isinstance(ub.get(up[2]), ast.Name) else []
        ch_ok = len(ch_src) == 1 and ch_src[0][0] == "call" and ch_src[0][1] == scm
        # accumulation: new_x = update(new_x, ...)
        acc = [d for d in df.defs if d.kind == "assign" and d.value is uc]
        acc_ok = bool(acc) and isinstance(new_x, ast.Name) and norm(ub.get(up[0])) == acc[0].name
        ok = mean_ok and n1_ok and store_ok and upd_ok and ch_ok and acc_ok and cname is not None
        why = ("for each event i: n ~ Poisson(tau*rate_i); counts[i] = n; state += V[:, i]*n (same i, same n)") if ok else \
            ("per-event step: mean tau*rate_i %s, single draw %s, counts[%s] = drawn count %s, update uses same index and count %s, "
             "V from state_change_mat %s, accumulates into the proposed state %s" % (mean_ok, n1_ok, i_n, store_ok, upd_ok, ch_ok, acc_ok))
    else:
        why = "loop body has %d Poisson draws, %d state updates, %d count stores (expected one each)" % (len(draws), len(ups), len(stores))
    res.check(ok, rule, f, "per-event-step", why, why, node=loop.ast)
    # the proposed state starts as a copy of x and then only receives column updates and the drift
    if isinstance(new_x, ast.Name):
        ds = df.strong_defs(r, new_x.id)
        kinds = []
        for d in ds:
            v = d.value
            if isinstance(v, ast.Call) and dotted(v.func) == "_updateStateWithJump":
                kinds.append("update")
            elif isinstance(v, ast.BinOp) and isinstance(v.op, ast.Add):
                try:
                    names = {n_.id for n_ in ast.walk(v) if isinstance(n_, ast.Name)}
                    env = {n_: A.sym(n_) for n_ in names}
                    got = A.lift(A.Interp(env).ev(v))
                    dsrc = [nm for nm in names if nm not in (new_x.id,) and sources(df, d.node, nm) and sources(df, d.node, nm)[0][1] == pure]
                    if len(dsrc) == 1 and isinstance(tau, ast.Name) and got == A.sym(new_x.id) + A.sym(dsrc[0]) * A.sym(tau.id):
                        kinds.append("drift")
                    else:
                        kinds.append("other:" + norm(v))
                except Exception:
                    kinds.append("other:" + norm(v))
            else:
                kinds.append("other:" + norm(v))
        res.check(all(k in ("update", "drift") for k in kinds) and "drift" in kinds, rule, f, "proposed-state",
                  "proposed state = copy of x + sum_i V[:, i]*n_i + pureOde(x,t)*tau",
                  "proposed state reaching _checkJump is built by %s" % kinds, node=r.ast)
        # initial copy
        all_defs = [d for d in df.defs if d.name == new_x.id and d.kind == "assign"]
        init = [d for d in all_defs if not cfg.reaches(loop, d.node)]
        ok_i = len(init) == 1 and norm(init[0].value) in ("%s.copy()" % x, "np.copy(%s)" % x, "np.array(%s)" % x, "copy.deepcopy(%s)" % x, "%s + 0" % x)
        res.check(ok_i, rule, f, "starts-from-copy", "proposed state starts as a copy of the current state",
                  "proposed state starts as %s: the caller's state is modified in place or the step does not start from x" % [norm(d.value) for d in init],
                  node=init[0].stmt if init else r.ast)
    # counts list initialised to zeros per event
    if isinstance(jumps, ast.Name):
        init = [d for d in df.defs if d.name == jumps.id and d.kind == "assign"]
        ok_j = len(init) == 1 and isinstance(init[0].value, ast.BinOp) and norm(init[0].value.left) in ("[0]", "[0.0]") and norm(init[0].value.right).startswith("len(")
        res.check(ok_j, rule, f, "counts-init", "counts start as one zero per event", "counts are initialised as %s" % [norm(d.value) for d in init])


# ------------------------------------------------------------------- arity
def check_arity(ctx, res, rule="R-SLOT"):
    """every return of the steppers has the arity its call sites unpack"""
    want = {"firstReaction": 5, "tauLeap": 5, "_checkJump": 5}
    n = 0
    for name, k in want.items():
        f = ctx.mod.functions.get(name)
        if f is None:
            raise AnalysisError("%s vanished" % name)
        for r in C.returns_of(f):
            v = r.ast.value
            n += 1
            if isinstance(v, ast.Call) and dotted(v.func) == "_checkJump":
                res.holds(rule, f, "arity@%s" % norm(r.ast)[:40], "returns _checkJump's 5-tuple", node=r.ast)
                continue
            ar = len(v.elts) if isinstance(v, ast.Tuple) else 1
            key = (name, norm(r.ast))
            if ar == k:
                res.holds(rule, f, "arity@%s" % norm(r.ast)[:40], "%d values" % ar, node=r.ast)
            elif key in ARITY_EXCEPTIONS:
                res.holds(rule, f, "arity@%s" % norm(r.ast)[:40], "named exception: " + ARITY_EXCEPTIONS[key], node=r.ast)
            else:
                res.violated(rule, f, "arity@%s" % norm(r.ast)[:40],
                             "`%s` returns %d value(s) but every caller unpacks %d: the simulation raises instead of returning" % (norm(r.ast), ar, k), node=r.ast)
    # the cython safety routine: unpacked into 2
    tau = ctx.repo.modules.get(M.M_TAU)
    if tau is not None and "_cy_test_tau_leap_safety" in tau.functions:
        f = tau.functions["_cy_test_tau_leap_safety"]
        for r in C.returns_of(f):
            v = r.ast.value
            n += 1
            ar = len(v.elts) if isinstance(v, ast.Tuple) else 1
            key = (f.name, norm(r.ast))
            if ar == 2:
                res.holds(rule, f, "arity@%s" % norm(r.ast)[:40], "2 values", node=r.ast)
            elif key in ARITY_EXCEPTIONS:
                res.holds(rule, f, "arity@%s" % norm(r.ast)[:40], "named exception: " + ARITY_EXCEPTIONS[key], node=r.ast)
            else:
                res.violated(rule, f, "arity@%s" % norm(r.ast)[:40], "`%s` returns %d value(s) but tauLeap unpacks 2" % (norm(r.ast), ar), node=r.ast)
    # unpack sites
    for caller in (ctx.jump, ctx.tl):
        ordinal = {}
        df = dataflow_of(caller)
        for nn, c, callee in C.calls(caller):
            if callee in want or callee == "_cy_test_tau_leap_safety":
                k = want.get(callee, 2)
                tg = [d for d in df.defs if d.kind == "assign" and d.value is c]
                slots = sorted({d.slot for d in tg})
                if slots and slots != [()]:
                    ordinal[callee] = ordinal.get(callee, 0) + 1
                    res.check(len(slots) == k, rule, caller, "unpack(%s)#%d" % (callee, ordinal[callee]),
                              "%s unpacked into %d names" % (callee, k), "%s is unpacked into %d names, it returns %d" % (callee, len(slots), k), node=c)
    res.floor("stepper returns", n, 8)


# -------------------------------------------------------------------- _jump
ROLE_ATTR = {  # stepper parameter -> attribute of the model it must receive
    "x_lims": "_state_lims", "state_change_mat": "vMat", "transition_func": "eventRateVector",
    "reactant_mat": "_lambdaMat", "transition_mean_func": "transitionMean", "transition_var_func": "transitionVar",
    "pureOde": "pureOdeVector",
}


def check_jump(ctx, res, rule="R-STEP"):
    f = ctx.jump
    cfg, df = cfg_of(f), dataflow_of(f)
    slots = return_slots(ctx.cj)
    if len(slots) != 1:
        res.undecided(rule, f, "slots", "cannot read _checkJump's return roles")
        return
    role_of_slot = {0: "t", 1: "dt", 2: "x", 3: "jumps", 4: "success"}
    # main loop
    loops = [n for n in cfg.nodes if n.kind == "test" and isinstance(n.ast, ast.While)]
    if len(loops) != 1:
        res.undecided(rule, f, "loop", "expected exactly one while loop in _jump")
        return
    loop = loops[0]
    test = loop.ast.test
    fin = f.params[1]
    ok = isinstance(test, ast.Compare) and len(test.ops) == 1 and isinstance(test.ops[0], (ast.Lt, ast.LtE)) \
        and isinstance(test.left, ast.Name) and norm(test.comparators[0]) == fin
    tvar = test.left.id if ok else None
    res.check(ok, rule, f, "horizon", "loop runs while t < finalT", "loop condition is `%s`, expected `t < %s`" % (norm(test), fin), node=loop.ast)
    if not ok:
        return
    # stepper calls and their unpacking
    calls = [(n, c, callee) for n, c, callee in C.calls(f) if callee in STEPPERS]
    res.floor("stepper call sites in _jump", len(calls), 3)
    unpack = {}    # id(call) -> {slot: name}
    for n, c, callee in calls:
        tg = {d.slot[0]: d.name for d in df.defs if d.kind == "assign" and d.value is c and len(d.slot) == 1}
        unpack[id(c)] = tg
        callee_f = ctx.fr if callee == "firstReaction" else ctx.tl
        b = C.bind_args(c, callee_f.params)
        problems = []
        for pn, a in b.items():
            want = ROLE_ATTR.get(pn)
            if want is not None and not is_self_attr(a, want):
                problems.append("%s=%s (expected self.%s)" % (pn, norm(a), want))
        if norm(b.get("t")) != tvar:
            problems.append("t=%s (expected the loop's time %s)" % (norm(b.get("t")), tvar))
        missing = [pn for pn in callee_f.params if pn in ROLE_ATTR and pn not in b]
        if missing:
            problems.append("missing %s" % missing)
        res.check(not problems, rule, f, "stepper-args(%s)#%d" % (callee, calls.index((n, c, callee))),
                  "%s receives the model's own limits, state-change matrix and rate functions" % callee,
                  "%s call: %s" % (callee, "; ".join(problems)), node=c)
        res.check(len(tg) == 5, "R-SLOT", f, "unpack5(%s)#%d" % (callee, calls.index((n, c, callee))), "result unpacked into 5 names",
                  "stepper result unpacked into %d names" % len(tg), node=c)
    # state variable: the one recorded in the first list returned
    rets = C.returns_of(f)
    if len(rets) != 1 or not isinstance(rets[0].ast.value, ast.Tuple) or len(rets[0].ast.value.elts) != 4:
        res.violated("R-SLOT", f, "return4", "_jump does not return the four arrays (states, counts, times, steps)")
        return
    lists = []
    for el in rets[0].ast.value.elts:
        if isinstance(el, ast.Call) and dotted(el.func) in ("np.array", "np.asarray") and isinstance(el.args[0], ast.Name):
            lists.append(el.args[0].id)
        else:
            lists.append(None)
    want_roles = ["x", "jumps", "t", "dt"]
    for lst, role in zip(lists, want_roles):
        if lst is None:
            res.violated("R-SLOT", f, "record(%s)" % role, "the %s record returned is not np.array(<list>)" % role, node=rets[0].ast)
            continue
        apps = [d for d in df.defs if d.name == lst and d.kind == "append"]
        in_loop = [d for d in apps if cfg.reaches(cfg.edge_node(loop, True), d.node, avoid=[loop])]
        if not in_loop:
            res.violated(rule, f, "record(%s)" % role, "nothing is appended to %s inside the loop" % lst, node=loop.ast)
            continue
        for d in in_loop:
            # (1) dominated by a positive success test
            gs = C.if_guards(cfg, d.node)
            succ_names = {tg.get(4) for tg in unpack.values()}
            pos = False
            for tnode, o in gs:
                tt = norm(tnode.ast.test)
                for sn in succ_names:
                    if sn is None:
                        continue
                    if (tt in (sn, "%s == True" % sn, "%s is True" % sn) and o is True) or \
                       (tt in ("not %s" % sn, "%s == False" % sn, "%s is False" % sn) and o is False):
                        pos = True
            res.check(pos, rule, f, "record-only-on-success(%s)" % role,
                      "%s.append is reached only when the last step reported success" % lst,
                      "%s.append(%s) can execute after a rejected step (no dominating success test): an illegal or stale state is recorded"
                      % (lst, norm(d.value)), node=d.stmt)
            # (2) the value is the right slot of a stepper result
            v = d.value
            base = v.func.value if isinstance(v, ast.Call) and isinstance(v.func, ast.Attribute) and v.func.attr == "copy" else v
            if not isinstance(base, ast.Name):
                res.violated("R-SLOT", f, "record-source(%s)" % role, "recorded value `%s` is not a stepper result" % norm(v), node=d.stmt)
                continue
            srcs = sources(df, d.node, base.id)
            want_slot = [k for k, r_ in role_of_slot.items() if r_ == role][0]
            bad = [s for s in srcs if not (s[0] == "call" and s[1] in STEPPERS and s[2] == (want_slot,))]
            # values that come from before the loop (initial x / t) cannot reach here if every path has a successful step; tolerate initial defs
            bad = [s for s in bad if cfg.reaches(cfg.edge_node(loop, True), s[3].node, avoid=[]) and cfg.reaches(loop, s[3].node)]
            res.check(not bad and bool(srcs), "R-SLOT", f, "record-source(%s)" % role,
                      "%s records slot %d (%s) of the stepper result" % (lst, want_slot, role),
                      "%s records `%s`, which can come from %s instead of slot %d (%s) of the stepper result"
                      % (lst, norm(v), [(s[1], s[2]) for s in bad], want_slot, role), node=d.stmt)
    # a stepper result that is unpacked into temporaries must be carried into the loop state before it is recorded
    recorded = {}
    for lst, role in zip(lists, want_roles):
        if lst is None:
            continue
        for d in df.defs:
            if d.name == lst and d.kind == "append" and cfg.reaches(cfg.edge_node(loop, True), d.node, avoid=[loop]):
                v = d.value
                base = v.func.value if isinstance(v, ast.Call) and isinstance(v.func, ast.Attribute) and v.func.attr == "copy" else v
                if isinstance(base, ast.Name):
                    recorded[role] = (base.id, d.node)
    slot_of = {"t": 0, "dt": 1, "x": 2, "jumps": 3}
    call_nodes = [n for n, c, callee in calls]
    for n, c, callee in calls:
        tg = unpack[id(c)]
        for role, (rname, anode) in recorded.items():
            tmp = tg.get(slot_of[role])
            if tmp is None or tmp == rname:
                continue
            carriers = [d.node for d in df.defs if d.name == rname and d.kind == "assign" and isinstance(d.value, ast.Name) and d.value.id == tmp]
            others = [m for m in call_nodes if m.id != n.id]
            ok = bool(carriers) and not cfg.reaches(n, anode, avoid=carriers + others)
            res.check(ok, rule, f, "carry(%s<-%s)#%d" % (rname, tmp, calls.index((n, c, callee))),
                      "%s's %s is copied into `%s` on every path to the record" % (callee, role, rname),
                      "after a successful %s its new %s (`%s`) can reach the record without being copied into `%s`: the recorded "
                      "%s is not the one this step produced" % (callee, role, tmp, rname, role), node=c)
    # initial record
    xl, tl_ = lists[0], lists[2]
    for lst, role, srcattr in ((xl, "x", "_x0"), (tl_, "t", "_t0")):
        if lst is None:
            continue
        init = [d for d in df.defs if d.name == lst and d.kind == "assign"]
        ok = len(init) == 1 and isinstance(init[0].value, ast.List) and len(init[0].value.elts) == 1
        if ok:
            e0 = init[0].value.elts[0]
            roots = df.roots(e0, init[0].node)
            ok = ("attr", "self." + srcattr) in roots
            if role == "x":
                copied = isinstance(e0, ast.Call) and (norm(e0.func).endswith(".copy") or dotted(e0.func) in ("copy.deepcopy", "np.copy", "np.array"))
                ok = ok and copied
        res.check(ok, rule, f, "initial-record(%s)" % role, "first record is the initial %s (copied)" % ("state" if role == "x" else "time"),
                  "the first recorded %s is %s, expected the initial %s" % (role, [norm(d.value) for d in init], "self." + srcattr), node=init[0].stmt if init else None)
    # x and t are only ever assigned from stepper results / the initial values; never written element-wise
    xname = None
    for tg in unpack.values():
        pass
    for n_, c, callee in calls:
        if callee == "firstReaction":
            xname = unpack[id(c)].get(2)
    if xname:
        muts = [d for d in df.defs if d.name == xname and d.kind in ("mutate", "aug")]
        res.check(not muts, rule, f, "no-direct-state-write", "the state vector is never modified element-wise in _jump",
                  "the state vector is modified directly: %s" % [norm(m.stmt) for m in muts], node=muts[0].stmt if muts else None)
        inits = [d for d in df.defs if d.name == xname and d.kind == "assign" and not cfg.reaches(loop, d.node)]
        ok = len(inits) == 1 and isinstance(inits[0].value, ast.Call) and dotted(inits[0].value.func) in ("copy.deepcopy", "np.copy", "np.array", "copy.copy") \
            and is_self_attr(inits[0].value.args[0], "_x0")
        ok = ok or (len(inits) == 1 and norm(inits[0].value) == "self._x0.copy()")
        res.check(ok, rule, f, "initial-state-copied", "the walk starts from a copy of the initial state",
                  "the walk starts from %s: not a copy of self._x0 (a second run would start elsewhere)" % [norm(d.value) for d in inits],
                  node=inits[0].stmt if inits else None)
    # failure of the fall-back ends the run
    for n_, c, callee in calls:
        if callee != "firstReaction":
            continue
        sn = unpack[id(c)].get(4)
        # every path from this call back to the loop header passes a positive success test
        posnodes = []
        for m in cfg.nodes:
            if m.kind == "edge":
                owner = cfg.nodes[m.label[0]]
                if isinstance(owner.ast, ast.If):
                    tt = norm(owner.ast.test)
                    if (tt in (sn, "%s == True" % sn) and m.label[1] is True) or (tt in ("%s == False" % sn, "not %s" % sn, "%s is False" % sn) and m.label[1] is False):
                        posnodes.append(m)
        ok = not cfg.reaches(n_, loop, avoid=posnodes)
        res.check(ok, rule, f, "failed-step-ends-run#%d" % calls.index((n_, c, callee)),
                  "after firstReaction the loop continues only through a positive success test",
                  "after a failed firstReaction the loop can continue without a success test", node=c)
