"""Whole-package sweeps (thorough tier): generic rules applied beyond the anchored functions.
Hits are reported as observations of the properties whose anchor files contain them."""
import ast

from ..core.source import dotted, is_self_attr, walk_no_nested, norm


def _sig(f, skip_self):
    a = f.node.args
    pos = [x.arg for x in a.posonlyargs + a.args]
    if skip_self and pos:
        pos = pos[1:]
    n_def = len(a.defaults)
    required = pos[:len(pos) - n_def] if n_def else list(pos)
    kwonly = [x.arg for x in a.kwonlyargs]
    return pos, required, kwonly, a.vararg is not None, a.kwarg is not None


def call_arity(repo):
    """[(caller FuncInfo, call node, callee FuncInfo, problem)] for intra-package calls that cannot bind"""
    out = []
    classes = {c.name: c for m in repo.modules.values() for c in m.classes.values()}
    for f in repo.all_funcs():
        cls = classes.get(f.cls) if f.cls else None
        for c in walk_no_nested(f.node):
            if not isinstance(c, ast.Call):
                continue
            callee, skip_self = None, False
            if is_self_attr(c.func) and cls is not None:
                callee = repo.resolve_method(cls, c.func.attr)
                skip_self = True
                if callee is not None and any(dotted(d) == "staticmethod" for d in callee.node.decorator_list):
                    skip_self = False        # a static method called through the instance receives no self
                # instance attributes that shadow methods (registered evaluators) are not methods
                if callee is None:
                    continue
            elif isinstance(c.func, ast.Name):
                nm = c.func.id
                if nm in f.module.functions and not any(isinstance(x, ast.arg) and x.arg == nm for x in ast.walk(f.node.args)):
                    callee = f.module.functions[nm]
                else:
                    tgt = f.module.imports.get(nm)
                    if tgt:
                        modname, _, fname = tgt.rpartition(".")
                        mm = repo.modules.get(modname)
                        if mm and fname in mm.functions:
                            callee = mm.functions[fname]
            elif isinstance(c.func, ast.Attribute) and isinstance(c.func.value, ast.Name):
                tgt = f.module.imports.get(c.func.value.id)
                if tgt and tgt in repo.modules and c.func.attr in repo.modules[tgt].functions:
                    callee = repo.modules[tgt].functions[c.func.attr]
            if callee is None:
                continue
            if any(isinstance(a, ast.Starred) for a in c.args) or any(k.arg is None for k in c.keywords):
                continue
            pos, required, kwonly, var, kw = _sig(callee, skip_self)
            npos = len(c.args)
            kws = [k.arg for k in c.keywords]
            problem = None
            if npos > len(pos) and not var:
                problem = "%d positional arguments, %s takes %d" % (npos, callee.qualname, len(pos))
            else:
                bound = set(pos[:npos]) | set(kws)
                missing = [p for p in required if p not in bound]
                unknown = [k for k in kws if k not in pos and k not in kwonly and not kw]
                dup = [k for k in kws if k in pos[:npos]]
                if missing:
                    problem = "missing required argument(s) %s of %s" % (missing, callee.qualname)
                elif unknown:
                    problem = "unknown keyword(s) %s for %s" % (unknown, callee.qualname)
                elif dup:
                    problem = "argument(s) %s given twice to %s" % (dup, callee.qualname)
            if problem:
                out.append((f, c, callee, problem))
    return out


def report_call_arity(repo, res, files):
    """observations for mismatching calls located in (or targeting) the given files"""
    n = 0
    for f, c, callee, problem in call_arity(repo):
        if f.module.rel in files or callee.module.rel in files:
            n += 1
            res.observe("call `%s` in %s cannot bind: %s (every execution of this call raises TypeError)" % (norm(c)[:70], f.qualname, problem), f, c)
    return n


# call sites that cannot bind on the pinned tree, one line of reason each (legacy entry points that predate the
# x_lims / pureOde parameters; they raise TypeError on every call and are outside every property's quantifier,
# which is phrased over solve_stochast)
CALLBIND_EXCEPTIONS = {
    ("pygom/model/stochastic_simulation.py::exact", "firstReaction"): "legacy module-level exact(): calls firstReaction with the pre-limits signature",
    ("pygom/model/stochastic_simulation.py::hybrid", "tauLeap"): "legacy module-level hybrid(): calls tauLeap with the pre-limits signature",
    ("pygom/model/stochastic_simulation.py::hybrid", "firstReaction"): "legacy module-level hybrid(): calls firstReaction through the alias f with the pre-limits signature",
    ("pygom/model/stochastic_simulation.py::directReaction", "_checkJump"): "legacy directReaction(): calls _checkJump with the old 4-argument signature",
}


def gate_call_arity(repo, res, files, rule="R-CALLBIND"):
    """every intra-package call located in `files` binds to its callee's signature"""
    res.rule(rule, "every call of a package function binds to the callee's signature (a call that cannot bind raises on every execution)")
    hits = [(f, c, callee, p) for f, c, callee, p in call_arity(repo) if f.module.rel in files]
    seen = set()
    for f, c, callee, problem in hits:
        key = (f.construct, callee.name)
        if key in CALLBIND_EXCEPTIONS:
            if key not in seen:
                res.holds(rule, f, "call(%s)" % callee.name, "named exception: " + CALLBIND_EXCEPTIONS[key], node=c)
                res.observe("%s cannot call %s: %s" % (f.qualname, callee.name, problem), f, c)
            seen.add(key)
            continue
        res.violated(rule, f, "call(%s)@%s" % (callee.name, norm(c)[:40]),
                     "`%s` cannot bind to %s: %s - this call raises TypeError whenever it is reached" % (norm(c)[:80], callee.qualname, problem), node=c)
    n_calls = 0
    for f in repo.all_funcs():
        if f.module.rel in files:
            n_calls += sum(1 for c in walk_no_nested(f.node) if isinstance(c, ast.Call))
    res.holds(rule, "sweep::" + ",".join(sorted(files)), None, "%d calls scanned in %d file(s), %d cannot bind (all named exceptions)" % (n_calls, len(files), len(hits)))
    return n_calls
