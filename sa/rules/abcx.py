"""Semantic rules for the ABC sampler, decided by abstract execution of whole runs against the property's invariants.

`ABC.__init__`, `get_posterior_sample`, `continue_posterior_sample`, `_perform_generation`, `get_tolerance`,
`_log_parameters` (and whatever helpers they call) are interpreted by the checker on small abstract worlds:

 * the parameters are uniform priors with known supports (some on a log10 scale), listed by the user in an order that
   differs from the order the loss object uses;
 * proposals (`Parameter.random_sample`, `rmvnorm`, `np.random.choice`) are scripted sequences that contain points outside
   the support (also points whose back-transform lies inside while the point itself lies outside, and the reverse), points
   whose cost is above, *exactly at* and below the tolerance;
 * the loss object's `cost()` is a known function of the parameter vector last installed through the update function.

After every run the stored posterior must satisfy the property as stated: every particle has positive prior density, its
stored distance equals the cost recomputed at that particle (in the loss object's own order, log-scale components
back-transformed) and is below the tolerance of the generation that produced it, its weight is positive and finite, the
tolerance schedule is the documented one and never increases under quantile scheduling.  Nothing about *how* the sampler is
written is asserted.
"""
import math

from ..core.absint import Abs, Obj, Tok, Raised
from ..core.algebra import Undecided
from ..core.numarr import NumArr, num_summaries
from ..core.source import AnalysisError
from . import model as M


def _var(n):
    return Obj("ODEVariable", ID=n, name=n, __str__=n)


def _eq_hook(a, b):
    for x, y in ((a, b), (b, a)):
        if isinstance(x, Obj) and x.cls == "ODEVariable":
            if isinstance(y, str):
                return x.attrs["ID"] == y
            if isinstance(y, Obj) and y.cls == "ODEVariable":
                return x.attrs["ID"] == y.attrs["ID"]
            return False
    return None


class World:
    """one inference problem: model (param_list, state_list), user's Parameter list, scripted proposals and cost"""

    def __init__(self, name, model_params, model_states, user, target, what="", constraint=None, cost_offset=0.0):
        # user: [(name, low, high, logscale)] in the order the user lists them
        self.name, self.what = name, what
        self.model_params, self.model_states, self.user = list(model_params), list(model_states), list(user)
        self.target = dict(target)             # name -> value the cost is minimal at (natural scale)
        self.names = [u[0] for u in user]
        self.installed = None
        self.cost_calls = 0
        self.k = 0                              # proposal counter
        self.choice_k = 0
        self.trace = []                         # proposals handed out (user order, sampling scale)
        self.qlog = []                          # np.quantile calls: (length, q, result)
        self.cost_offset = cost_offset          # costs are distances minus this (a negative log-likelihood can be negative)
        self.constraint = constraint            # (population size, name of the state adjusted to conserve it) or None
        self.x0_seen = None                     # initial state vector the last cost was computed from

    # ---- prior
    def density(self, i, x):
        _n, lo, hi, _lg = self.user[i]
        return 1.0 / (hi - lo) if lo <= x <= hi else 0.0

    def in_support(self, p):
        return all(self.density(i, x) > 0 for i, x in enumerate(p))

    # ---- scripted proposals: a fixed cycle of kinds, values vary with the counter
    def proposal(self, k):
        kinds = ["bad-cost", "outside", "good", "log-outside-backtransform-inside", "good", "at-tolerance", "log-inside-backtransform-outside", "good", "bad-cost", "good"]
        kind = kinds[k % len(kinds)]
        p = []
        eps = 0.0001 * ((k * 37) % 1009 + 1)
        for i, (n, lo, hi, lg) in enumerate(self.user):
            tv = self.target[n]
            centre = math.log10(tv) if lg else tv
            x = centre + eps * (1 if (i + k) % 2 == 0 else -1) * (i + 1) * 0.5
            if kind == "bad-cost":
                x = centre + (0.35 if not lg else 0.4) * (1 if i % 2 == 0 else -1)
            p.append(x)
        if kind == "at-tolerance":
            # every component exactly at the cost minimum except one, placed so that the cost is *exactly* the generation-0 tolerance 0.25
            order = self.loss_order()
            cand = [(j, n) for j, n in enumerate(order) if not self.user[self.names.index(n)][3] and (j + 1) in (1, 2, 4)]
            if cand:
                for i, (n, lo, hi, lg) in enumerate(self.user):
                    p[i] = math.log10(self.target[n]) if lg else self.target[n]
                j, n = cand[0]
                p[self.names.index(n)] = self.target[n] + 0.25 / (j + 1)
        if kind == "outside":
            j = k % len(self.user)
            p[j] = self.user[j][2] + 0.25 + 0.01 * k          # above the upper end
        logs = [i for i, u in enumerate(self.user) if u[3]]
        if kind == "log-outside-backtransform-inside" and logs:
            j = logs[0]
            lo, hi = self.user[j][1], self.user[j][2]
            # x below the support; 10**x still inside [lo, hi] when lo < 10**x
            x = lo - 0.02 - 0.001 * (k % 5)
            if lo <= 10 ** x <= hi:
                p[j] = x
        if kind == "log-inside-backtransform-outside" and logs:
            j = logs[0]
            lo, hi = self.user[j][1], self.user[j][2]
            # x inside the support while 10**x is outside it: admissible (the prior lives on the sampling scale)
            x = hi - 0.001 * (k % 5)
            if not (lo <= 10 ** x <= hi):
                pass        # keep the near-target value so that the cost is small; only the density test differs
        return kind, p

    def next_proposal(self):
        kind, p = self.proposal(self.k)
        self.k += 1
        self.trace.append((kind, list(p)))
        return p

    # ---- cost (on the vector installed in the loss object's order, natural scale)
    def loss_order(self):
        return self._target_param + self._target_state

    def natural(self, p):
        """user-order particle on the sampling scale -> vector the loss object expects"""
        out = []
        for n in self.loss_order():
            i = self.names.index(n)
            out.append(10 ** p[i] if self.user[i][3] else p[i])
        return out

    def cost_of(self, vec):
        return sum((j + 1) * abs(v - self.target[n]) for j, (n, v) in enumerate(zip(self.loss_order(), vec))) - self.cost_offset


def worlds():
    return [
        World("state-first", ["beta", "gamma"], ["S", "I", "R"],
              [("I", 0.0, 10.0, False), ("gamma", -1.0, 0.5, True), ("beta", 0.0, 2.0, False)], {"beta": 0.5, "gamma": 1.0, "I": 4.0},
              what="the inferred initial state is listed first, a log-scale parameter second: the user's order differs from the loss object's"),
        World("params-only", ["beta", "gamma", "mu"], ["S", "I", "R"],
              [("gamma", -1.5, 0.25, True), ("beta", 0.125, 3.0, False)], {"beta": 0.75, "gamma": 1.0},
              what="two of three model parameters inferred, the log-scale one listed first, no initial states"),
        World("single", ["k"], ["A", "B"], [("k", 0.05, 4.0, False)], {"k": 1.5}, what="a single parameter"),
        World("single-log", ["k"], ["A", "B"], [("k", -1.0, 0.75, True)], {"k": 2.0}, what="a single parameter on the log10 scale"),
        World("negative-costs", ["beta", "gamma", "mu"], ["S", "I", "R"],
              [("gamma", -1.5, 0.25, True), ("beta", 0.125, 3.0, False)], {"beta": 0.75, "gamma": 1.0}, cost_offset=3.0,
              what="the cost is a negative log-likelihood that is negative near the optimum"),
        World("constrained-first-state", ["beta", "gamma"], ["S", "I", "R"],
              [("I", 0.0, 10.0, False), ("beta", 0.0, 2.0, False)], {"beta": 0.5, "I": 4.0}, constraint=(100.0, "S"),
              what="an initial state is inferred and the population size is conserved by adjusting the first state"),
        World("constrained-last-state", ["beta", "gamma"], ["S", "I", "R"],
              [("beta", 0.0, 2.0, False), ("I", 0.0, 10.0, False)], {"beta": 0.5, "I": 4.0}, constraint=(100.0, "R"),
              what="an initial state is inferred and the population size is conserved by adjusting the last state"),
    ]


def _quantile(a, q, **k):
    xs = sorted(float(x) for x in a)
    if not xs:
        raise ValueError("quantile of empty")
    pos = (len(xs) - 1) * q
    lo = int(math.floor(pos))
    hi = min(lo + 1, len(xs) - 1)
    return xs[lo] + (xs[hi] - xs[lo]) * (pos - lo)


def build(repo, w, constraint=None):
    """interpret ABC.__init__ on the world -> (abstract ABC object, summaries, class info)"""
    abc = repo.cls(M.M_ABC, "ABC")
    mod = repo.module(M.M_ABC)
    init = abc.methods["__init__"]
    params = [Obj("Parameter", name=n, logscale=lg, prior_low=lo, prior_high=hi, _idx=i) for i, (n, lo, hi, lg) in enumerate(w.user)]
    ode = Obj("Model", param_list=[_var(n) for n in w.model_params], state_list=[_var(n) for n in w.model_states], num_state=len(w.model_states))
    ode.attrs["__open__"] = True
    summ = dict(num_summaries())
    summ.pop("max", None)
    summ.pop("min", None)

    def random_sample(pobj):
        i = pobj.attrs["_idx"]
        if i == 0 or w._cur is None:
            w._cur = w.next_proposal()
        return w._cur[i]
    w._cur = None

    def density(pobj, x):
        if isinstance(x, NumArr):
            raise Undecided("vectorised prior density")
        return w.density(pobj.attrs["_idx"], x)

    def set_param(loss, vec):
        w.installed = [float(v) for v in (vec.tolist() if isinstance(vec, NumArr) else list(vec))]
        # what the loss object's update function does with the state part: the inferred initial values go into its initial state vector
        nP = len(w._target_param)
        for j, sname in enumerate(w._target_state):
            loss.attrs["_x0"][w.model_states.index(sname)] = w.installed[nP + j]

    def cost(loss, *a, **k):
        w.cost_calls += 1
        if w.installed is None:
            raise Raised("RuntimeError(cost before parameters were installed)")
        c = w.cost_of(w.installed)
        if w.constraint is not None:
            # the solution starts from the loss object's initial state: a total that differs from the declared population size shows in the cost
            x0 = [float(v) for v in loss.attrs["_x0"].tolist()]
            c = c + 0.5 * abs(sum(x0) - w.constraint[0])
        return c

    def state_index(ode_, name):
        names = [name] if isinstance(name, (str, Obj)) else list(name)
        out = []
        for nm in names:
            nm = nm.attrs["ID"] if isinstance(nm, Obj) else nm
            if nm not in w.model_states:
                raise Raised("InputError(unknown state %s)" % nm)
            out.append(w.model_states.index(nm))
        return out

    def choice(a, size=None, replace=True, p=None, **k):
        w.choice_k += 1
        n_ = a if isinstance(a, int) else len(list(a))
        return (w.choice_k * 2) % n_

    def rmvnorm(n=1, mean=None, sigma=None, **k):
        return NumArr(w.next_proposal())

    def dmvnorm(x, mean=None, sigma=None, **k):
        rows = x.tolist() if isinstance(x, NumArr) else list(x)
        m = mean.tolist() if isinstance(mean, NumArr) else list(mean)
        return NumArr([0.05 * (r + 1) + 0.01 * abs(sum(m)) for r in range(len(rows))])
    class _FInfo:
        _abs_native = True
        eps, tiny, max, min = 2.220446049250313e-16, 2.2250738585072014e-308, 1.7976931348623157e+308, -1.7976931348623157e+308
    summ["np.finfo"] = lambda *a, **k: _FInfo()
    summ["max"] = lambda *a, **k: (max(a) if len(a) > 1 else max(a[0]))
    summ["min"] = lambda *a, **k: (min(a) if len(a) > 1 else min(a[0]))
    def _is_index(v):
        return isinstance(v, int) and not isinstance(v, bool)

    def get_sigma(i, res_old=None, weights=None, indices=None, *a, **k):
        # the kernel covariance of particle i from the previous population: the roles of the arguments are what matters here
        if not _is_index(i) or not isinstance(res_old, NumArr) or not isinstance(weights, NumArr):
            raise Raised("TypeError(_get_sigma(particle index, previous population, weights, indices) called with (%s, %s, %s))" % (
                type(i).__name__, type(res_old).__name__, type(weights).__name__))
        return Tok("sigma")

    def sigma_nn(me_, res_old=None, k_=None, *a, **k):
        if not isinstance(res_old, NumArr) or not _is_index(k_):
            raise Raised("TypeError(sigma_nearest_neighbours(previous population, particle index) called with (%s, %s))" % (type(res_old).__name__, type(k_).__name__))
        return Tok("sigma")
    summ.update({
        "Parameter.random_sample": random_sample, "Parameter.density": density,
        "Loss._setParam": set_param, "Loss._setParamStateInput": set_param, "Loss.cost": cost, "Model.get_state_index": state_index,
        "np.random.choice": choice, "rmvnorm": rmvnorm, "dmvnorm": dmvnorm, "np.quantile": (lambda a, q, **k: w.qlog.append((len(list(a)), q, _quantile(a, q))) or w.qlog[-1][2]), "np.percentile": lambda a, q, **k: _quantile(a, q / 100.0),
        "np.prod": lambda a, **k: _prod(a), "_get_sigma": get_sigma, "ABC.sigma_nearest_neighbours": sigma_nn,
        "logging.warn": lambda *a, **k: None, "logging.warning": lambda *a, **k: None, "logging.info": lambda *a, **k: None, "print": lambda *a, **k: None,
        "np.cov": lambda *a, **k: Tok("sigma"), "np.einsum": lambda *a, **k: Tok("sigma"),
    })
    types = {"Parameter": lambda v: isinstance(v, Obj) and v.cls == "Parameter"}
    # the loss object as create_loss builds it: target lists from the package's own helpers
    ab0 = Abs({}, types, summ, None, {}, eq=_eq_hook, budget=20000)
    ab0.module = mod
    tp = ab0.apply(("func", mod.functions["_get_target_parameters"]), [params, ode.attrs["param_list"]], {})
    ts = ab0.apply(("func", mod.functions["_get_target_states"]), [params, ode.attrs["state_list"]], {})
    w._target_param, w._target_state = list(tp or []), list(ts or [])
    loss = Obj("Loss", _targetParam=tp, _targetState=ts, _num_param=len(w.model_params), _ode=ode, _x0=NumArr([90.0, 5.0, 0.0][:len(w.model_states)]))
    me = Obj("ABC")
    ab = Abs({}, types, summ, me, {}, eq=_eq_hook, budget=400000)
    ab.class_methods = set(abc.methods) | set(abc.getters)
    ab.module = mod
    if constraint is None:
        constraint = w.constraint
    kind, out = ab.run_function(init.node, {"loss_object": loss, "parameters": params, "constraint": constraint})
    if kind != "return":
        raise Raised("ABC.__init__ raises %s" % out)
    return me, summ, types, abc, mod


def _prod(a):
    out = 1.0
    for x in a:
        out = out * x
    return out


def call(me, abc, mod, summ, types, method, **args):
    fn = abc.methods.get(method)
    if fn is None:
        raise AnalysisError("ABC.%s vanished" % method)
    ab = Abs({}, types, summ, me, {}, eq=_eq_hook, budget=2000000)
    ab.class_methods = set(abc.methods) | set(abc.getters)
    ab.module = mod
    return ab.run_function(fn.node, dict(args))


def _lst(v):
    return v.tolist() if isinstance(v, NumArr) else (list(v) if isinstance(v, (list, tuple)) else v)


def posterior_problems(w, me, tol_last, N):
    """the property's statement, checked on the stored posterior"""
    res, dist, wt = _lst(me.attrs.get("res")), _lst(me.attrs.get("dist")), _lst(me.attrs.get("w"))
    out = []
    if not (isinstance(res, list) and isinstance(dist, list) and isinstance(wt, list) and len(res) == len(dist) == len(wt) == N):
        return ["the stored posterior is not N particles with N distances and N weights (res=%r dist=%r w=%r)" % (res, dist, wt)]
    for i in range(N):
        p = res[i] if isinstance(res[i], list) else [res[i]]
        if len(p) != len(w.user) or not all(isinstance(x, (int, float)) and not isinstance(x, bool) for x in p):
            out.append("particle %d has %d components, %d parameters are inferred" % (i, len(p), len(w.user)))
            continue
        if not w.in_support(p):
            bad = [(w.names[j], p[j], (w.user[j][1], w.user[j][2])) for j in range(len(p)) if w.density(j, p[j]) <= 0]
            out.append("particle %d = %s has zero prior density: %s lies outside the prior support %s" % (i, _f(p), bad[0][0] + "=" + _f(bad[0][1]), bad[0][2]))
            continue
        c = w.cost_of(w.natural(p))
        if isinstance(dist[i], bool) or not isinstance(dist[i], (int, float)):
            out.append("the stored distance of particle %d is %r, not a number" % (i, dist[i]))
            continue
        if abs(c - dist[i]) > 1e-9 * max(1.0, abs(c)):
            out.append("particle %d = %s (%s): stored distance %s, cost recomputed at that particle (%s = %s) is %s" % (
                i, _f(p), ", ".join(w.names), _f(dist[i]), ", ".join(w.loss_order()), _f(w.natural(p)), _f(c)))
        if not dist[i] < tol_last:
            out.append("particle %d has distance %s, not below the tolerance %s of the generation that produced it" % (i, _f(dist[i]), _f(tol_last)))
        if not (isinstance(wt[i], (int, float)) and wt[i] > 0 and wt[i] != float("inf") and wt[i] == wt[i]):
            out.append("particle %d has weight %r (must be positive and finite)" % (i, wt[i]))
    return out


def _f(v):
    if isinstance(v, float):
        return "%.6g" % v
    if isinstance(v, (list, tuple)):
        return "[" + ", ".join(_f(x) for x in v) + "]"
    return repr(v)


def admissible(w, tol):
    """proposals handed out so far that the property says must be acceptable: inside the support and cost below `tol`"""
    return [p for _k, p in w.trace if w.in_support(p) and w.cost_of(w.natural(p)) < tol]


RUNS = [
    # (label, [(method, kwargs)])
    ("rejection", [("get_posterior_sample", dict(N=4, tol=0.25))]),
    ("smc-tolerance-list", [("get_posterior_sample", dict(N=4, tol=[0.25, 0.2, 0.12], G=3))]),
    ("smc-quantile", [("get_posterior_sample", dict(N=5, tol=0.25, G=3, q=0.5))]),
    ("smc-nearest-neighbours", [("get_posterior_sample", dict(N=5, tol=0.25, G=2, q=0.6, M=3))]),
    ("continued-list", [("get_posterior_sample", dict(N=4, tol=[0.25, 0.2], G=2)), ("continue_posterior_sample", dict(N=4, tol=[0.15, 0.1], G=2))]),
    ("legacy-sampler-rejection", [("get_posterior_sample_original", dict(N=4, tol=0.25))]),
    ("legacy-sampler-quantile", [("get_posterior_sample_original", dict(N=4, tol=0.25, G=2, q=0.5))]),
    ("continued-quantile", [("get_posterior_sample", dict(N=4, tol=0.25, G=2, q=0.5)), ("continue_posterior_sample", dict(N=4, tol="next_tol", G=2, q=0.5))]),
]


def check_runs(repo, res, rule="R-ACCEPT", tier="quick"):
    n = 0
    abc_cls = repo.cls(M.M_ABC, "ABC")
    gp = abc_cls.methods.get("get_posterior_sample")
    runs = list(RUNS)
    if tier == "thorough":
        runs += [("smc-quantile-long", [("get_posterior_sample", dict(N=8, tol=0.25, G=4, q=0.4))]),
                 ("smc-nearest-neighbours-long", [("get_posterior_sample", dict(N=7, tol=0.25, G=3, q=0.5, M=4))]),
                 ("rejection-large", [("get_posterior_sample", dict(N=12, tol=0.25))]),
                 ("continued-twice", [("get_posterior_sample", dict(N=4, tol=[0.25, 0.2], G=2)), ("continue_posterior_sample", dict(N=4, tol=[0.18, 0.15], G=2)),
                                      ("continue_posterior_sample", dict(N=4, tol=0.12, G=1))])]
    for w0 in worlds():
        for label, steps in runs:
            w = [x for x in worlds() if x.name == w0.name][0]      # a fresh world per run
            tag = "run(%s,%s)" % (w.name, label)
            problems = []
            try:
                me, summ, types, abc, mod = build(repo, w)
                for method, kw in steps:
                    if method not in abc.methods and method == "get_posterior_sample_original":
                        break
                    kw = dict(kw)
                    if kw.get("tol") == "next_tol":
                        kw["tol"] = me.attrs.get("next_tol")       # as documented: continue from the tolerance the quantile rule proposes
                    kind, out = call(me, abc, mod, summ, types, method, **kw)
                    if kind != "return":
                        problems.append("%s(%s) raises %s" % (method, kw, out))
                        break
                    tols = _lst(me.attrs.get("tolerances"))
                    N = kw["N"]
                    ft = me.attrs.get("final_tol")
                    if not isinstance(tols, list) or len(tols) != kw.get("G", 1):
                        problems.append("%s: tolerances recorded %r, expected one per generation" % (method, tols))
                        break
                    if not isinstance(ft, (int, float)) or abs(ft - tols[-1]) > 1e-12:
                        problems.append("%s: final_tol=%r differs from the last generation's tolerance %s" % (method, ft, _f(tols[-1])))
                    q = kw.get("q")
                    t0 = kw["tol"][0] if isinstance(kw["tol"], list) else kw["tol"]
                    if abs(tols[0] - t0) > 1e-12:
                        problems.append("%s: generation 0 ran under tolerance %s, the caller asked for %s" % (method, _f(tols[0]), _f(t0)))
                    if isinstance(kw["tol"], list) and q is None and any(abs(a - b) > 1e-12 for a, b in zip(tols, kw["tol"])):
                        problems.append("%s: generations ran under %s, the caller's schedule is %s" % (method, _f(tols), _f(kw["tol"])))
                    if q is not None and any(b > a + 1e-12 for a, b in zip(tols[:-1], tols[1:])):
                        problems.append("%s: under quantile scheduling the tolerances increase: %s" % (method, _f(tols)))
                    if q is not None:
                        qres = [r for (ln, qq, r) in w.qlog if ln == N and abs(qq - q) < 1e-12]
                        for g_, tg in enumerate(tols[1:], 1):
                            if not any(abs(tg - r) <= 1e-12 for r in qres):
                                problems.append("%s: generation %d ran under tolerance %s, which is not the %s-quantile of the stored distances" % (method, g_, _f(tg), q))
                    problems += posterior_problems(w, me, tols[-1], N)[:3]
                    if problems:
                        break
            except Undecided as e:
                t_now = None
                try:
                    tl = _lst(me.attrs.get("tolerances"))
                    t_now = [x for x in tl if isinstance(x, (int, float)) and x > 0][-1]
                except Exception:
                    pass
                adm = admissible(w, t_now) if t_now is not None else []
                if "loop bound" in str(e) and len(adm) >= 25:
                    problems.append("the trial loop does not terminate although %d of the %d proposals offered lie inside the prior support and have cost below the tolerance %s "
                                    "(e.g. %s with cost %s): admissible particles are rejected" % (len(adm), len(w.trace), _f(t_now), _f(adm[0]), _f(w.cost_of(w.natural(adm[0])))))
                else:
                    res.undecided(rule, gp, tag, "outside the modelled subset: %s" % e)
                    continue
            except Raised as e:
                problems.append("raises %s" % e.exc)
            n += 1
            res.check(not problems, rule, gp, tag,
                      "world `%s` (%s), %s: every stored particle has positive prior density, distance = cost recomputed at it < tolerance, positive finite weight; documented tolerance schedule"
                      % (w.name, w.what, label), "world `%s` (%s), %s: %s" % (w.name, w.what, label, "; ".join(problems[:2])), node=gp.node if gp else None)
    # a continued run may not start above the tolerance the previous run ended with
    for w0 in worlds()[:1]:
        for form in ("scalar", "list"):
            w = worlds()[0]
            tag = "continuation-cannot-raise-tolerance(%s)" % form
            kind = kind2 = out = ft = tol2 = None
            try:
                me, summ, types, abc, mod = build(repo, w)
                kind, out = call(me, abc, mod, summ, types, "get_posterior_sample", N=4, tol=[0.25, 0.2], G=2)
                ft = me.attrs.get("final_tol")
                if kind != "return" or isinstance(ft, bool) or not isinstance(ft, (int, float)):
                    n += 1
                    res.violated("R-SCHED", gp, tag, "a two-generation run under the schedule [0.25, 0.2] %s" % (
                        "raises %s" % (out,) if kind != "return" else "leaves final_tol = %r instead of the last tolerance" % (ft,)), node=gp.node if gp else None)
                    continue
                tol2 = ft * 2 if form == "scalar" else [ft * 2, ft]
                kind2, out2 = call(me, abc, mod, summ, types, "continue_posterior_sample", N=4, tol=tol2, G=1 if form == "scalar" else 2)
            except Undecided as e:
                res.undecided("R-SCHED", gp, tag, "outside the modelled subset: %s" % e)
                continue
            except Raised as e:
                kind2, out2 = "raise", e.exc
            n += 1
            res.check(kind == "return" and kind2 == "raise", "R-SCHED", abc_cls.methods.get("continue_posterior_sample") or gp, tag,
                      "a continuation that starts above the previous final tolerance is rejected",
                      "after a run that ended at tolerance %s a continuation starting at %s is accepted: the schedule increases" % (_f(ft), _f(tol2)))
    return n
