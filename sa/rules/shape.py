"""R-SHAPE: an evaluator whose generator builds a matrix with two model-dependent
dimensions must be registered with oT="mat" (auto-detection collapses it to a
vector whenever one of the sizes happens to be 1); a column vector (literal
second dimension 1) must be 'vec' or auto.  Shapes are inferred from the
allocation sites reachable from the generator's return value."""
import ast

from ..core.source import is_self_attr, dotted, norm, walk_no_nested, const_value
from ..core.cfg import cfg_of
from ..core.dataflow import dataflow_of
from . import model as M

DIM_NAMES = {"self.num_state": "nS", "self.num_param": "nP", "self.num_events": "nE",
             "len(self._stateList)": "nS", "len(self._paramList)": "nP", "len(self.event_list)": "nE",
             "len(self._eventList)": "nE"}


def dim(expr):
    """-> int literal or symbolic string"""
    v = const_value(expr)
    if isinstance(v, int):
        return v
    if isinstance(expr, ast.BinOp) and isinstance(expr.op, ast.Mult):
        a, b = dim(expr.left), dim(expr.right)
        if isinstance(a, int) and isinstance(b, int):
            return a * b
        if a == 1:
            return b
        if b == 1:
            return a
        return "%s*%s" % (a, b)
    s = norm(expr)
    return DIM_NAMES.get(s, s)


class ShapeInfer:
    def __init__(self, repo, cls):
        self.repo = repo
        self.cls = cls
        self.sites = []     # allocation sites consulted (func, node)

    def iter_len(self, expr, func, at):
        """symbolic length of an iterable expression"""
        df = dataflow_of(func)
        e = df.expand(expr, at)
        if isinstance(e, (ast.ListComp, ast.GeneratorExp)) and len(e.generators) == 1 and not e.generators[0].ifs:
            return self.iter_len(e.generators[0].iter, func, at)
        if isinstance(e, ast.Call) and is_self_attr(e.func):
            return {"_iterStateList": "nS", "_iterParamList": "nP"}.get(e.func.attr, norm(e))
        if is_self_attr(e):
            t = M.getter_target(self.repo, self.cls, e.attr) or e.attr
            return {"_stateList": "nS", "_paramList": "nP", "_eventList": "nE"}.get(t, "len(%s)" % norm(e))
        if isinstance(e, ast.Call) and dotted(e.func) == "list" and e.args:
            return self.iter_len(e.args[0], func, at)
        return "len(%s)" % norm(e)

    def shapes(self, expr, func, at, depth=8, seen=None):
        """set of (rows, cols) the expression may have; empty set = unknown"""
        seen = seen or set()
        if depth <= 0:
            return set()
        df = dataflow_of(func)
        cfg = cfg_of(func)
        e = expr
        if isinstance(e, ast.Call):
            fn = dotted(e.func) or ""
            last = fn.split(".")[-1]
            if fn in ("sympy.zeros", "sympy.ones", "zeros", "sympy.Matrix.zeros", "sympy.matrices.zeros"):
                self.sites.append((func, e))
                a = [df.expand(x, at) for x in e.args]
                if len(a) == 2:
                    return {(dim(a[0]), dim(a[1]))}
                if len(a) == 1:
                    return {(dim(a[0]), dim(a[0]))}
            if fn in ("np.zeros", "numpy.zeros", "np.ones", "np.empty") and e.args:
                self.sites.append((func, e))
                a = df.expand(e.args[0], at)
                if isinstance(a, ast.Tuple) and len(a.elts) == 2:
                    return {(dim(a.elts[0]), dim(a.elts[1]))}
                return {(dim(a), 1)}
            if fn in ("sympy.eye", "np.eye"):
                a = df.expand(e.args[0], at)
                return {(dim(a), dim(a))}
            if fn in ("copy.deepcopy", "copy.copy", "deepcopy") and e.args:
                return self.shapes(e.args[0], func, at, depth - 1, seen)
            if isinstance(e.func, ast.Attribute):
                base = e.func.value
                if last == "jacobian" and e.args:
                    bs = self.shapes(base, func, at, depth - 1, seen)
                    n = self.iter_len(e.args[0], func, at)
                    self.sites.append((func, e))
                    return {(r, n) for r, _c in bs}
                if last == "col_join" and e.args:
                    bs = self.shapes(base, func, at, depth - 1, seen) | self.shapes(e.args[0], func, at, depth - 1, seen)
                    return {("k*%s" % r if not str(r).startswith("k*") else r, c) for r, c in bs}
                if last == "row_join" and e.args:
                    bs = self.shapes(base, func, at, depth - 1, seen) | self.shapes(e.args[0], func, at, depth - 1, seen)
                    return {(r, "k*%s" % c if not str(c).startswith("k*") else c) for r, c in bs}
                if last in ("transpose",):
                    return {(c, r) for r, c in self.shapes(base, func, at, depth - 1, seen)}
                if last in ("copy", "applyfunc", "subs", "simplify", "expand"):
                    return self.shapes(base, func, at, depth - 1, seen)
                if is_self_attr(e.func):
                    # value returned by another builder
                    callee = self.repo.resolve_method(self.cls, e.func.attr)
                    if callee is not None:
                        return self.returned_shapes(callee, depth - 1, seen)
            return set()
        if isinstance(e, ast.BinOp) and isinstance(e.op, (ast.Add, ast.Sub)):
            return self.shapes(e.left, func, at, depth - 1, seen) or self.shapes(e.right, func, at, depth - 1, seen)
        if isinstance(e, ast.Attribute) and e.attr == "T":
            return {(c, r) for r, c in self.shapes(e.value, func, at, depth - 1, seen)}
        if isinstance(e, ast.Name):
            out = set()
            key = (func.construct, e.id, at.id)
            if key in seen:
                return out
            seen = seen | {key}
            for d in df.strong_defs(at, e.id):
                if d.kind == "assign" and d.value is not None and not d.slot:
                    out |= self.shapes(d.value, func, d.node, depth - 1, seen)
                elif d.kind == "assign" and d.slot and isinstance(d.value, ast.Call):
                    pass
            return out
        if isinstance(e, ast.Subscript) and isinstance(e.value, ast.Name):
            # element of a locally built list
            out = set()
            for d in df.reaching(at, e.value.id):
                if d.kind == "append":
                    out |= self.shapes(d.value, func, d.node, depth - 1, seen)
            return out
        if is_self_attr(e):
            key = (func.construct, "self." + e.attr)
            if key in seen:
                return set()
            seen = seen | {key}
            out = set()
            found = False
            for n in cfg.stmt_nodes():
                st = n.ast
                if n.kind == "stmt" and isinstance(st, ast.Assign) and any(is_self_attr(t, e.attr) for t in st.targets):
                    found = True
                    out |= self.shapes(st.value, func, n, depth - 1, seen)
            if not found:
                # written by another builder of the class
                for c in self.repo.mro(self.cls):
                    for g in c.methods.values():
                        if g is func or not g.name.startswith("get_"):
                            continue
                        gcfg = cfg_of(g)
                        for n in gcfg.stmt_nodes():
                            st = n.ast
                            if n.kind == "stmt" and isinstance(st, ast.Assign) and any(is_self_attr(t, e.attr) for t in st.targets):
                                out |= self.shapes(st.value, g, n, depth - 1, seen)
            return out
        return set()

    def returned_shapes(self, func, depth=8, seen=None):
        cfg = cfg_of(func)
        out = set()
        for n in cfg.stmt_nodes():
            if isinstance(n.ast, ast.Return) and n.ast.value is not None:
                out |= self.shapes(n.ast.value, func, n, depth, seen)
        return out


def exec_shapes(repo, gen_name):
    """shape of what a generator returns, by interpreting it at three model sizes (nS, nP, nE); -> set of symbolic (rows, cols) or empty"""
    from ..core.algebra import Undecided
    from ..core.symarr import SymArr
    sizes = [(2, 3, 2), (3, 2, 3), (4, 4, 1)]
    got = []
    try:
        from . import buildx as BX
        if gen_name in BX.BUILDERS:
            cls = M.sim_class(repo)
            S = ["S0", "S1", "S2", "S3"]
            for nS, nP, nE in sizes:
                evs = [("r%d" % e, [("T", S[e % nS], S[(e + 1) % nS], "m%d" % e)] if nS > 1 else [("D", S[0], None, "m%d" % e)]) for e in range(nE)]
                d = BX.Definition("size", S[:nS], evs)
                fn, kind, out, me = BX.run_builder(repo, cls, gen_name, d)
                if kind != "return" or not isinstance(out, SymArr):
                    return set()
                got.append(out.shape if out.ndim == 2 else (out.shape[0], 1))
        else:
            from ..checks import C03
            for nS, nP, nE in sizes:
                w = C03.BWorld(repo, nS, nP, nE)
                fn, kind, out, me = w.run(gen_name)
                if kind != "return" or not isinstance(out, SymArr):
                    return set()
                got.append(out.shape if out.ndim == 2 else (out.shape[0], 1))
    except Undecided:
        return set()
    except Exception:
        return set()
    # name each dimension by the size expression that reproduces it at all three sizes
    cands = {"1": lambda s: 1, "nS": lambda s: s[0], "nP": lambda s: s[1], "nE": lambda s: s[2], "nS*nS": lambda s: s[0] * s[0],
             "nS*nP": lambda s: s[0] * s[1], "nE*nE": lambda s: s[2] * s[2], "nS*nE": lambda s: s[0] * s[2], "nP*nP": lambda s: s[1] * s[1]}

    def name(k):
        for nm, f in cands.items():
            if all(f(sz) == g[k] for sz, g in zip(sizes, got)):
                return 1 if nm == "1" else nm
        return "?"
    return {(name(0), name(1))}


def check_shapes(repo, res, names, prop_reason):
    """R-SHAPE obligations for the registered evaluators in `names` (None = all)"""
    cls = M.sim_class(repo)
    regs = M.registry(repo)
    si = ShapeInfer(repo, cls)
    done = 0
    for r in regs:
        if names is not None and r.name not in names:
            continue
        shp = exec_shapes(repo, r.gen.name)            # by interpretation at three model sizes
        if not shp or any("?" in (a, b) for a, b in shp):
            shp = si.returned_shapes(r.gen)            # fall back to the allocation sites
        tag = "add_func(%s)" % r.name
        if not shp:
            res.undecided("R-SHAPE", r.func, tag, "cannot infer the shape of what %s returns" % r.gen.qualname, node=r.call)
            continue
        done += 1
        two_sym = all(not isinstance(a, int) and not isinstance(b, int) for a, b in shp)
        col_vec = all(b == 1 for a, b in shp)
        row_vec = all(a == 1 for a, b in shp)
        desc = ", ".join("%s x %s" % s for s in sorted(shp, key=str))
        res.functions.add(r.gen.construct)
        if two_sym:
            res.check(r.oT == "mat", "R-SHAPE", r.func, tag,
                      "%s is %s and registered as a matrix" % (r.gen.name, desc),
                      "%s builds a %s matrix but evaluator '%s' is registered with oT=%r: compileExprAndFormat then "
                      "auto-detects the output type from the runtime sizes and flattens the matrix to a vector whenever one "
                      "of them is 1 (%s)" % (r.gen.name, desc, r.name, r.oT, prop_reason.get(r.name, "one-state / one-event / one-parameter models")),
                      node=r.call, extra={"shape": desc, "oT": r.oT})
        elif col_vec or row_vec:
            res.check(r.oT in (None, "vec"), "R-SHAPE", r.func, tag,
                      "%s is a vector (%s) registered as %r" % (r.gen.name, desc, r.oT),
                      "%s builds a vector (%s) but is registered with oT=%r" % (r.gen.name, desc, r.oT),
                      node=r.call, extra={"shape": desc, "oT": r.oT})
        else:
            res.undecided("R-SHAPE", r.func, tag, "mixed shapes %s" % desc, node=r.call)
    return done, si
