"""Semantic rules for the stochastic steppers, decided by abstract execution against a reference walk.

The functions `_newJumpTimes`, `_updateStateWithJump`, `_checkJump`, `firstReaction`, `tauLeap` and
`SimulateOde._jump` are interpreted by the checker (core/absint.py; helpers the repo defines itself are
inlined from their source, numpy is replaced by the concrete array model of core/numarr.py) on a small set
of concrete models, with the random draws replaced by *scripted* draws: `np.random.exponential(scale)` and
`np.random.poisson(lam)` return a fixed pseudo-random function of their parameter and of how often that
parameter value has been requested.  The same scripted draws drive a reference walk written from the
property (first-reaction method / Poisson tau-leap with rejection and first-reaction fall-back), and the two
walks must agree record by record.  Because only values are compared, any rewriting of the steppers that
computes the same walk is accepted, and any change of the walk on one of the scenarios is reported with
the first differing record.

Nothing of /repo is imported or run; the interpreter works on the syntax tree.
"""
import hashlib
import math

from ..core.absint import Abs, Obj, Raised
from ..core.algebra import Undecided
from ..core.numarr import NumArr, num_summaries, dot as na_dot
from ..core.source import AnalysisError
from . import model as M

INF = float("inf")


from ..core.libmodel import Script, Gen, is_randomstate


class F64(float):
    """a numpy float scalar (has .tolist())"""
    _abs_native = True

    def tolist(self):
        return float(self)


def poisson_cdf(k, mu):
    k = int(math.floor(k))
    if k < 0:
        return 0.0
    p = math.exp(-mu)
    c = p
    for i in range(1, k + 1):
        p = p * mu / i
        c += p
    return min(c, 1.0)


# --------------------------------------------------------------------------- concrete models
class TinyModel:
    def __init__(self, name, V, rates, x0, lims, pure=None, t0=0.0, lam=None, mean=None, var=None, what=""):
        self.name, self.what = name, what
        self.V = [list(r) for r in V]              # nS x nE
        self.nS, self.nE = len(V), len(V[0])
        self.rates_fn = rates                      # f(x list, t) -> list
        self.pure_fn = pure or (lambda x, t: [0.0] * len(x))
        self.x0, self.t0, self.lims = list(x0), t0, [tuple(l) for l in lims]
        self.lam = lam or [[1 if V[i][j] < 0 else 0 for j in range(self.nE)] for i in range(self.nS)]
        # any smooth positive functions will do for the step-size statistics: the reference uses the same ones
        self.mean_fn = mean or (lambda x, t: [0.3 * r - 0.1 * (j + 1) for j, r in enumerate(rates(x, t))])
        self.var_fn = var or (lambda x, t: [0.2 * r + 0.05 * (j + 1) for j, r in enumerate(rates(x, t))])

    def col(self, j):
        return [self.V[i][j] for i in range(self.nS)]

    def within(self, x):
        for v, (lo, hi) in zip(x, self.lims):
            if lo is not None and v < lo:
                return False
            if hi is not None and v > hi:
                return False
        return True


def tiny_models():
    ms = []
    ms.append(TinyModel(
        "sir-birth2", [[-1, 0, 2], [1, -1, 0], [0, 1, 0]],
        lambda x, t: [0.004 * x[0] * x[1], 0.3 * x[1], 0.9], [40, 3, 0], [(0, None), (0, None), (0, None)],
        what="3 states, 3 events (transition, transition, birth of magnitude 2), default limits"))
    ms.append(TinyModel(
        "sir-capped", [[-1, 0, 2], [1, -1, 0], [0, 1, 0]],
        lambda x, t: [0.004 * x[0] * x[1], 0.3 * x[1], 2.5], [40, 3, 0], [(0, 49), (None, None), (0, 6)],
        what="the same events with an upper limit on the first state and a two-sided limit on the last: steps are rejected"))
    ms.append(TinyModel(
        "crowded", [[-1, 1], [1, -1]], lambda x, t: [1.2 * x[0], 0.9 * x[1]], [3, 1], [(0, None), (0, 3)],
        what="two small populations exchanging members, upper limit 3 on the second: leaps are often rejected and replaced by single reactions"))
    ms.append(TinyModel(
        "crowded-float", [[-1, 1], [1, -1]], lambda x, t: [1.2 * x[0], 0.9 * x[1]], [3.0, 1.0], [(0, None), (0, 3)],
        what="the same with the initial state given as floats"))
    ms.append(TinyModel(
        "idle-first", [[-1, 0, 1], [1, -1, 0], [0, 1, 0]],
        lambda x, t: [0.01 * x[0] * x[1], 0.5 * x[1], 1.3], [5, 0, 0], [(0, None), (0, None), (0, None)],
        what="the first two events have rate zero at the start: only the last event can fire"))
    ms.append(TinyModel(
        "death-only", [[-1]], lambda x, t: [0.7 * x[0]], [4], [(0, None)],
        what="one state, one event: runs to extinction (all rates zero)"))
    ms.append(TinyModel(
        "floor20", [[-2, 1], [2, -1]], lambda x, t: [0.05 * x[0], 0.011 * x[1]], [29, 1], [(20, None), (0, None)],
        pure=lambda x, t: [0.0, 0.0],
        what="closed two-state model, magnitude 2, lower limit 20 on the first state (no upper limits anywhere)"))
    ms.append(TinyModel(
        "drift", [[-1, 1], [1, -1]], lambda x, t: [0.2 * x[0], 0.13 * x[1]], [30, 10], [(0, None), (0, None)],
        pure=lambda x, t: [0.5, -0.25],
        what="two-state model with explicit ODE terms (deterministic drift in the tau-leap)"))
    return ms


# --------------------------------------------------------------------------- reference walk
def _cao_tau(m, x, t, a, eps):
    mu = [v for v in m.mean_fn(x, t) if v != 0]
    s2 = [v for v in m.var_fn(x, t) if v != 0]
    if not mu and not s2:
        return 1.0
    bound = eps * sum(a)
    cands = []
    if mu:
        cands.append(min(bound / abs(v) for v in mu))
    if s2:
        cands.append(min((bound ** 2) / v for v in s2))
    return min(cands)


def ref_first_reaction(m, script, x, t):
    """one first-reaction step from (x, t): ('ok', x', t', dt, counts) | ('stop',)"""
    a = m.rates_fn(x, t)
    if all(r == 0 for r in a):
        return ("stop",)
    clocks = [script.exp_scale(1.0 / r) if r > 0 else INF for r in a]
    if all(c == INF for c in clocks):
        return ("stop",)
    w = clocks.index(min(clocks))
    xn = [xi + v for xi, v in zip(x, m.col(w))]
    if not m.within(xn):
        return ("stop",)
    return ("ok", xn, t + clocks[w], clocks[w], [1 if j == w else 0 for j in range(m.nE)])


def ref_walk(m, script, finalT, exact, pre_tau, eps, safety, stats=None):
    x, t = list(m.x0), m.t0
    X, J, T, D = [list(x)], [], [t], []
    guard = 0
    st_ = stats if stats is not None else {}
    while t < finalT:
        guard += 1
        if guard > 400:
            raise Undecided("reference walk does not terminate")
        step = None
        if not exact:
            a = m.rates_fn(x, t)
            if not all(r == 0 for r in a):
                tau = pre_tau if pre_tau is not None else _cao_tau(m, x, t, a, eps)
                tau = safety(float(tau))
                n = [script.pois(tau * r) for r in a]
                xn = list(x)
                for j in range(m.nE):
                    xn = [xi + v * n[j] for xi, v in zip(xn, m.col(j))]
                xn = [xi + d * tau for xi, d in zip(xn, m.pure_fn(x, t))]
                if m.within(xn):
                    step = ("ok", xn, t + tau, tau, n)
                    st_["leap accepted"] = st_.get("leap accepted", 0) + 1
                else:
                    st_["leap rejected"] = st_.get("leap rejected", 0) + 1
            else:
                st_["no event can fire"] = st_.get("no event can fire", 0) + 1
        if step is None:
            step = ref_first_reaction(m, script, x, t)
            k = "single reaction accepted" if step[0] == "ok" else "single reaction impossible or rejected (run ends)"
            st_[k] = st_.get(k, 0) + 1
        if step[0] == "stop":
            break
        _, x, t, dt, n = step
        X.append(list(x)); T.append(t); D.append(dt); J.append(list(n))
    if not t < finalT:
        st_["horizon passed"] = st_.get("horizon passed", 0) + 1
    return X, J, T, D


# --------------------------------------------------------------------------- abstract execution of the real code
def _num(v):
    return isinstance(v, (int, float)) and not isinstance(v, bool)


def close(a, b, tol=1e-9):
    if isinstance(a, NumArr):
        a = a.tolist()
    if isinstance(b, NumArr):
        b = b.tolist()
    if isinstance(a, (list, tuple)) and isinstance(b, (list, tuple)):
        return len(a) == len(b) and all(close(x, y, tol) for x, y in zip(a, b))
    if isinstance(a, bool) or isinstance(b, bool):
        return a is b
    if _num(a) and _num(b):
        if a == b:
            return True
        return abs(a - b) <= tol * max(1.0, abs(a), abs(b))
    return a == b


class World:
    """summaries shared by all stepper interpretations"""

    def __init__(self, repo, script, safety=None):
        self.repo, self.script = repo, script
        self.gen = Gen("global", script)
        s = dict(num_summaries())
        s.update({
            "copy.deepcopy": lambda v: v.copy() if hasattr(v, "copy") else v, "copy.copy": lambda v: v.copy() if hasattr(v, "copy") else v,
            "float": float, "int": int, "abs": abs, "math.floor": math.floor, "floor": math.floor,
            "csc.pdtr": poisson_cdf, "check_array_type": lambda v: v if isinstance(v, NumArr) else NumArr(list(v)),
            "SimulationError": lambda *a: "SimulationError", "InputError": lambda *a: "InputError",
        })
        if safety is not None:
            s["_cy_test_tau_leap_safety"] = lambda x, lm, r, tau, eps: (safety(tau), True)
        self.summaries = s
        self.consts = {"np.random": self.gen, "numpy.random": self.gen}
        self.types = {"np.random.RandomState": is_randomstate, "numpy.random.RandomState": is_randomstate}

    def abs(self, me=None, module=None):
        ab = Abs({}, self.types, self.summaries, me, {}, budget=400000)
        ab.consts = self.consts
        ab.module = module
        return ab


def model_obj(m, pre_tau, eps):
    nS = len(m.x0)

    def roles(name, x, t):
        # the compiled evaluators take (state, time): a call with the two swapped evaluates the model at a wrong point (or fails)
        if not (isinstance(x, (NumArr, list, tuple)) and len(x) == nS) or isinstance(t, (NumArr, list, tuple)) or isinstance(t, bool) or not isinstance(t, (int, float)):
            raise Raised("TypeError(%s called with (%s, %s): the evaluators take (state, time))" % (name, type(x).__name__, type(t).__name__))

    def wrap1(fn, name="evaluator"):
        def ev(x, t):
            roles(name, x, t)
            return NumArr(list(fn(list(x), t)))
        return ("py", ev)

    def vmat(x, t):
        roles("vMat", x, t)
        return NumArr([list(r) for r in m.V])
    me = Obj("Model",
             _t0=F64(m.t0), _x0=NumArr(list(m.x0)), _state_lims=[tuple(l) for l in m.lims], _stochasticParam=None,
             vMat=("py", vmat), eventRateVector=wrap1(m.rates_fn, "eventRateVector"),
             transitionMean=wrap1(m.mean_fn), transitionVar=wrap1(m.var_fn), pureOdeVector=wrap1(m.pure_fn),
             _epsilon=eps, pre_tau=pre_tau, _lambdaMat=None)
    return me


def run_jump(repo, m, finalT, exact, pre_tau, eps, safety, runs=2, salt=""):
    """interpret SimulateOde._jump `runs` times in a row on one model object (one random stream)"""
    script = Script(salt)
    w = World(repo, script, safety)
    script.registry = w.gen.registry
    cls = M.sim_class(repo)
    fn = repo.resolve_method(cls, "_jump")
    if fn is None:
        raise AnalysisError("SimulateOde._jump vanished")
    me = model_obj(m, pre_tau, eps)

    def get_lambda(me_):
        me_.attrs["_lambdaMat"] = NumArr([list(r) for r in m.lam])
        return me_.attrs["_lambdaMat"]
    w.summaries["Model.get_ReactantMatrix"] = get_lambda
    outs = []
    for _ in range(runs):
        ab = w.abs(me, fn.module)
        ab.class_methods = set(repo.all_methods(cls)) | {g for c in repo.mro(cls) for g in c.getters}
        # by name: _jump is a private routine, its parameter list may be reorganised
        known = {"finalT": finalT, "exact": exact, "full_output": True, "seed": None}
        unknown = [p for p in fn.params[1:] if p not in known]
        if unknown or "finalT" not in fn.params:
            raise Undecided("_jump takes %s" % fn.params[1:])
        args = {p: known[p] for p in fn.params[1:]}
        kind, out = ab.run_function(fn.node, args)
        outs.append((kind, out))
        if kind == "raise":
            break
    return fn, outs, me, script


def _by_role(out):
    """the four records of a path in the order (states, counts, times, steps), whatever order the private routine hands them back
    in: states and times have one entry more than counts and steps (the starting point); states and counts have an entry per
    state / event, times and steps are plain numbers.  An ambiguous record (no step taken) keeps the given order"""
    def rows(v):
        return v.tolist() if isinstance(v, NumArr) else list(v) if isinstance(v, (list, tuple)) else None
    recs = [rows(v) for v in out]
    if any(r is None for r in recs):
        return out
    lens = sorted({len(r) for r in recs})
    if len(lens) != 2 or lens[1] != lens[0] + 1:
        return out
    def vec(r):
        return bool(r) and isinstance(r[0], (list, tuple))
    longs = [i for i, r in enumerate(recs) if len(r) == lens[1]]
    shorts = [i for i, r in enumerate(recs) if len(r) == lens[0]]
    if len(longs) != 2 or len(shorts) != 2 or lens[0] == 0:
        return out
    X = [i for i in longs if vec(recs[i])]
    T = [i for i in longs if not vec(recs[i])]
    J = [i for i in shorts if vec(recs[i])]
    D = [i for i in shorts if not vec(recs[i])]
    if not (len(X) == len(T) == len(J) == len(D) == 1):
        return out
    return (out[X[0]], out[J[0]], out[T[0]], out[D[0]])


def jump_return_order(repo):
    """in which order the private `_jump` hands back its four records: a permutation p with (states, counts, times, steps)[k] at
    position p[k] - found by interpreting the real routine once on a small model and telling the records apart by their shape"""
    m = tiny_models()[0]
    try:
        fn, outs, me, script = run_jump(repo, m, 2.0, True, None, 0.03, lambda tau: tau, runs=1)
    except (Undecided, AnalysisError):
        return (0, 1, 2, 3)
    kind, out = outs[0]
    if kind != "return" or not (isinstance(out, (tuple, list)) and len(out) == 4):
        return (0, 1, 2, 3)
    roles = _by_role(out)
    pos = []
    for r in roles:
        pos.append(next(i for i, o in enumerate(out) if o is r))
    return tuple(pos) if sorted(pos) == [0, 1, 2, 3] else (0, 1, 2, 3)


def in_jump_order(repo, states, counts, times, steps):
    """a recorded path handed to `solve_stochast` the way the current `_jump` would hand it over"""
    p = jump_return_order(repo)
    out = [None] * 4
    for role, val in zip(p, (states, counts, times, steps)):
        out[role] = val
    return tuple(out)


def script_gen_registry(fn, outs, me, script):
    return getattr(script, "registry", [])


def first_record_diff(got, want):
    """got/want = (X, J, T, D); returns a description of the first difference or None"""
    names = ("states", "counts", "times", "steps")
    for name, g, w_ in zip(names, got, want):
        gl = g.tolist() if isinstance(g, NumArr) else list(g)
        if len(gl) != len(w_):
            k = min(len(gl), len(w_))
            for i in range(k):
                if not close(gl[i], w_[i]):
                    return "%s[%d] is %s, the walk defined by the model gives %s" % (name, i, _fmt(gl[i]), _fmt(w_[i]))
            return "%d %s recorded, the walk defined by the model has %d (next %s)" % (
                len(gl), name, len(w_), "expected %s" % _fmt(w_[k]) if len(w_) > k else "recorded %s" % _fmt(gl[k]))
        for i, (a, b) in enumerate(zip(gl, w_)):
            if not close(a, b):
                return "%s[%d] is %s, the walk defined by the model gives %s" % (name, i, _fmt(a), _fmt(b))
    return None


def _fmt(v):
    if isinstance(v, float):
        return "%.6g" % v
    if isinstance(v, (list, tuple)):
        return "[" + ", ".join(_fmt(x) for x in v) + "]"
    return repr(v)


SCENARIOS = [
    # (model, finalT, exact, pre_tau, eps, safety-name)
    ("sir-birth2", 2.5, True, None, 0.03, "id"),
    ("sir-capped", 3.0, True, None, 0.03, "id"),
    ("idle-first", 2.0, True, None, 0.03, "id"),
    ("death-only", 50.0, True, None, 0.03, "id"),
    ("floor20", 6.0, True, None, 0.03, "id"),
    ("sir-birth2", 3.0, False, 0.5, 0.03, "id"),
    ("sir-birth2", 3.0, False, None, 0.05, "id"),
    ("sir-capped", 4.0, False, 0.5, 0.03, "id"),
    ("sir-capped", 4.0, False, 0.25, 0.03, "half"),
    ("idle-first", 3.0, False, 0.4, 0.03, "id"),
    ("crowded", 6.0, False, 0.8, 0.03, "id"),
    ("crowded", 4.0, False, 0.3, 0.03, "half"),
    ("crowded", 3.0, True, None, 0.03, "id"),
    ("crowded-float", 6.0, False, 0.8, 0.03, "id"),
    ("crowded-float", 3.0, True, None, 0.03, "id"),
    ("death-only", 40.0, False, 0.6, 0.03, "id"),
    ("floor20", 12.0, False, 0.5, 0.03, "id"),
    ("floor20", 12.0, False, None, 0.1, "id"),
    ("drift", 3.0, False, 0.5, 0.03, "id"),
    ("drift", 2.0, True, None, 0.03, "id"),
]
SAFETY = {"id": lambda tau: tau, "half": lambda tau: tau / 2.0}


def check_walks(repo, res, rule="R-WALK", only_exact=None, models=None, tier="quick"):
    """the recorded path of `_jump` equals the walk the property defines, scenario by scenario (thorough tier: every scenario under
    five scripted random streams)"""
    ms = {m.name: m for m in tiny_models()}
    n = 0
    stats = {}
    from ..core import absint as _ai0
    _ai0.INLINED.clear()
    scen = [(a, b, c, d, e, f_, "") for a, b, c, d, e, f_ in SCENARIOS]
    if tier == "thorough":
        scen += [(a, b, c, d, e, f_, salt) for a, b, c, d, e, f_ in SCENARIOS for salt in ("stream-1/", "stream-2/", "stream-3/", "stream-4/")]
    for mname, finalT, exact, pre_tau, eps, sname, salt in scen:
        if only_exact is not None and exact != only_exact:
            continue
        if models is not None and mname not in models:
            continue
        m = ms[mname]
        tag = "walk(%s,%s,horizon=%g%s)" % (mname, "exact" if exact else ("tau=%s%s,eps=%g" % ("adaptive" if pre_tau is None else pre_tau, ",safety halves tau" if sname == "half" else "", eps)), finalT,
                                           "" if not salt else "," + salt.rstrip("/"))
        cls = M.sim_class(repo)
        fn = repo.resolve_method(cls, "_jump")
        try:
            fn, outs, me, script = run_jump(repo, m, finalT, exact, pre_tau, eps, SAFETY[sname], salt=salt)
        except Undecided as e:
            res.undecided(rule, fn, tag, "outside the modelled subset: %s" % e)
            continue
        n += 1
        ref_script = Script(salt)
        d = None
        nrec = 0
        for k, (kind, out) in enumerate(outs):
            which = "" if k == 0 else " (second run on the same model object, same random stream)"
            want = ref_walk(m, ref_script, finalT, exact, pre_tau, eps, SAFETY[sname], stats)
            nrec += len(want[0])
            if kind == "raise":
                d = "the run raises %s; the walk defined by the model %s%s" % (out, _short(want), which)
            elif not (isinstance(out, (tuple, list)) and len(out) == 4):
                d = "_jump returns %r instead of the four records (states, counts, times, steps)" % (out,)
            else:
                out = _by_role(out)
                d = first_record_diff(out, want)
                if d is not None:
                    d += which
            if d is None:
                # the initial state handed in must not have been modified by the run
                x0_now = me.attrs["_x0"].tolist() if isinstance(me.attrs.get("_x0"), NumArr) else me.attrs.get("_x0")
                if not close(x0_now, m.x0):
                    d = "the model's initial state was modified by the run: %s -> %s" % (_fmt(m.x0), _fmt(x0_now))
            if d is not None:
                break
        if d is None:
            local = sorted({repr(k) for k, _ in script_gen_registry(fn, outs, me, script)} - {"'global'"})
            if local:
                d = "draws of a serial run (seed=None) come from %s instead of numpy's global generator: np.random.seed() does not control them" % ", ".join(local)
        from ..core import absint as _ai
        res.functions |= set(_ai.INLINED)
        res.check(d is None, rule, fn, tag,
                  "two consecutive paths (%d records) equal the walk defined by the model (%s)" % (nrec, m.what),
                  "model `%s` (%s): %s" % (mname, m.what, d), node=fn.node)
    if only_exact is None and models is None:
        for what, floor in (("leap accepted", 50), ("leap rejected", 10), ("single reaction accepted", 20),
                            ("single reaction impossible or rejected (run ends)", 5), ("no event can fire", 1), ("horizon passed", 5)):
            res.floor("reference walks: " + what, stats.get(what, 0), floor)
    return n


def _short(want):
    return "has %d records ending at t=%s" % (len(want[0]), _fmt(want[2][-1]))


# --------------------------------------------------------------------------- unit-level scenarios
def _func(repo, name):
    f = repo.try_func(M.M_STOCH, name)
    if f is None:
        raise AnalysisError("stochastic_simulation.%s vanished" % name)
    return f


def _call(repo, world, f, args):
    ab = world.abs(None, f.module)
    params = f.params
    if len(args) > len(params):
        raise Undecided("%s takes %d parameters, the scenario supplies %d" % (f.name, len(params), len(args)))
    return ab.run_function(f.node, dict(zip(params, args)))


LIMIT_CASES = [
    # (limit of the probed state, proposed value, accepted?)
    ((None, None), -3, True), ((None, None), 99, True),
    ((0, None), -1, False), ((0, None), 0, True), ((0, None), 7, True),
    ((None, 5), 6, False), ((None, 5), 5, True), ((None, 5), -2, True),
    ((1, 5), 0, False), ((1, 5), 1, True), ((1, 5), 5, True), ((1, 5), 6, False),
    ((0, 0), 0, True), ((0, 0), 1, False), ((20, None), 19, False), ((20, None), 20, True),
    ((-2, None), -1, True), ((-2, None), -3, False), ((None, 0), 1, False), ((None, 0), 0, True),
]


def _first_reaction(repo, x, lims, t, V, rates, script):
    """interpret the public firstReaction(x, x_lims, t, state_change_mat, transition_func, seed) - documented to return
    (t_new, jump_time, x_new, jumps, success) - with constant rates and state-change matrix; its private helpers are inlined from
    their source, whatever their contracts are"""
    f = _func(repo, "firstReaction")
    w = World(repo, script)
    nS = len(x)

    def roles(name, xx, tt):
        if not (isinstance(xx, (NumArr, list, tuple)) and len(xx) == nS) or isinstance(tt, (NumArr, list, tuple, bool)) or not isinstance(tt, (int, float)):
            raise Raised("TypeError(%s called with (%s, %s): it takes (state, time))" % (name, type(xx).__name__, type(tt).__name__))
    vfn = ("py", lambda xx, tt: (roles("state_change_mat", xx, tt), NumArr([list(r) for r in V]))[1])
    rfn = ("py", lambda xx, tt: (roles("transition_func", xx, tt), NumArr(list(rates)))[1])
    ab = w.abs(None, f.module)
    want_params = ["x", "x_lims", "t", "state_change_mat", "transition_func"]
    if f.params[:5] != want_params:
        # the documented public signature changed: positional callers of the package would break too - but that is not for this rule to say
        raise Undecided("firstReaction no longer takes %s" % want_params)
    return f, ab.run_function(f.node, {"x": x, "x_lims": lims, "t": t, "state_change_mat": vfn, "transition_func": rfn, "seed": None})


def check_checkjump(repo, res, rule="R-LIMIT"):
    """limits, at the public single-reaction step: firstReaction with one event that moves the probed state to the proposed value.
    accepted -> (t + jump_time, jump_time, x_new, jumps, True); rejected -> (t, jump_time, x, jumps, False); rejected iff a state
    leaves [lower, upper]"""
    bad, n = [], 0
    f = _func(repo, "firstReaction")
    for pos in (0, 1, 2):
        for lim, val, ok in LIMIT_CASES:
            lims = [(0, None), (0, None), (0, None)]
            lims[pos] = lim
            x = NumArr([4, 4, 4])
            xn_l = [3, 5, 4]
            xn_l[pos] = val
            V = [[xn_l[i] - 4] for i in range(3)]           # one event whose column takes x to the proposed state
            script = Script()
            try:
                f, (kind, out) = _first_reaction(repo, x, lims, 2.0, V, [1.0], script)
            except Undecided as e:
                res.undecided(rule, f, "limit-cases", "outside the modelled subset: %s" % e)
                return 0
            n += 1
            dt = Script().exp_scale(1.0)
            want = (2.0 + dt, dt, xn_l, [1], True) if ok else (2.0, dt, [4, 4, 4], [1], False)
            if kind == "raise" or not (isinstance(out, tuple) and len(out) == 5) or not close(list(out[:4]), list(want[:4])) or out[4] is not want[4]:
                bad.append("state %d with limits %r proposed %r: %s, expected %s" % (pos, lim, val, ("raises %s" % out) if kind == "raise" else _fmt_t(out), _fmt_t(want)))
            elif not close(x, [4, 4, 4]):
                bad.append("state %d with limits %r proposed %r: the caller's state vector is modified in place (%s)" % (pos, lim, val, _fmt(x.tolist())))
    res.check(not bad, rule, f, "limit-cases", "%d (position, limit shape, value) cases through firstReaction: a step is accepted iff every state stays inside its limits; a rejected step leaves state and time unchanged" % n,
              "; ".join(bad[:3]), node=f.node)
    return n


def _fmt_t(t):
    if isinstance(t, tuple):
        return "(" + ", ".join(_fmt(x.tolist() if isinstance(x, NumArr) else x) for x in t) + ")"
    return repr(t)


def check_update(repo, res, rule="R-STEP"):
    """the state update of a single reaction, at the public step: the new state is x + (column of the fired event), in exact
    arithmetic for integer and real states and magnitudes, and the caller's state is not modified"""
    f = _func(repo, "firstReaction")
    bad, n = [], 0
    cases = (("int state, int magnitudes", [10, 20], [[-1, 0, 2], [1, -3, 0]]),
             ("real state, int magnitudes", [10.0, 20.0], [[-1, 0, 2], [1, -3, 0]]),
             ("int state, fractional magnitudes", [10, 20], [[-0.5, 0.0, 2.5], [0.5, -1.5, 0.0]]),
             ("real state, fractional magnitudes", [10.5, 20.25], [[-0.5, 0.0, 2.5], [0.5, -1.5, 0.0]]))
    for label, x0, V in cases:
        for idx in (0, 1, 2):
            x = NumArr(list(x0))
            rates = [0.0, 0.0, 0.0]
            rates[idx] = 2.0
            try:
                f, (kind, out) = _first_reaction(repo, x, [(None, None), (None, None)], 1.0, V, rates, Script())
            except Undecided as e:
                res.undecided(rule, f, "column-update", "outside the modelled subset: %s" % e)
                return 0
            n += 1
            want = [x0[0] + V[0][idx], x0[1] + V[1][idx]]
            if kind == "raise" or not (isinstance(out, tuple) and len(out) == 5) or not close(out[2], want) or out[4] is not True:
                bad.append("%s, event %d fires: %s, expected the new state x + V[:, %d] = %s" % (label, idx, ("raises %s" % out) if kind == "raise" else _fmt_t(out), idx, want))
            if kind == "return" and not close(x, list(x0)):
                bad.append("%s, event %d fires: the caller's state vector is modified in place (%s)" % (label, idx, _fmt(x.tolist())))
    res.check(not bad, rule, f, "column-update", "new state = x + (column of the fired event) on %d cases through firstReaction (integer and real states and magnitudes); the caller's state is not modified" % n,
              "; ".join(bad[:3]), node=f.node)
    return n


def check_newjumptimes(repo, res, rule="R-FR"):
    """the race of the first-reaction method, at the public step: every event with a positive rate draws its own exponential clock
    with mean 1/rate, in event order; the earliest one fires, time advances by its clock; no positive rate -> no step"""
    f = _func(repo, "firstReaction")
    bad, n = [], 0
    for rates in ([2.0, 0.0, 5.0], [0.0, 0.0, 1.5], [0.25], [3.0, 3.5, 0.125, 0.0], [0.0, 0.0], [5.0, 0.5, 0.5, 4.0]):
        nE = len(rates)
        V = [[(j + 1) if i == j else 0 for j in range(nE)] for i in range(nE)]         # event j moves state j by j + 1: the fired event is visible in the state
        x = NumArr([10] * nE)
        script = Script()
        try:
            f, (kind, out) = _first_reaction(repo, x, [(None, None)] * nE, 3.0, V, rates, script)
        except Undecided as e:
            res.undecided(rule, f, "clock-per-event", "outside the modelled subset: %s" % e)
            return 0
        n += 1
        ref = Script()
        clocks = [ref.exp_scale(1.0 / r) if r > 0 else INF for r in rates]
        if kind == "raise":
            bad.append("rates %s: raises %s" % (rates, out))
            continue
        if all(c == INF for c in clocks):
            if not (isinstance(out, tuple) and out and out[-1] is False):
                bad.append("rates %s (no event can fire): returns %s, expected an unsuccessful step" % (rates, _fmt_t(out)))
            continue
        wi = clocks.index(min(clocks))
        want = (3.0 + clocks[wi], clocks[wi], [10 + (V[i][wi]) for i in range(nE)], [1 if j == wi else 0 for j in range(nE)], True)
        if not (isinstance(out, tuple) and len(out) == 5) or not close(list(out[:4]), list(want[:4])) or out[4] is not True:
            bad.append("rates %s: the step is %s; with one exponential clock of mean 1/rate per event drawn in event order (%s) event %d fires first: expected %s"
                       % (rates, _fmt_t(out), _fmt(clocks), wi, _fmt_t(want)))
        elif sum(script.count.values()) != sum(ref.count.values()):
            bad.append("rates %s: %d random numbers are consumed, one clock per event with a positive rate is %d" % (rates, sum(script.count.values()), sum(ref.count.values())))
    res.check(not bad, rule, f, "clock-per-event", "every event with a positive rate gets its own exponential clock with its own rate, in event order, and the earliest fires (%d rate vectors through firstReaction)" % n,
              "; ".join(bad[:2]), node=f.node)
    return n
